package main

import (
	"bytes"
	"fmt"
	"math/rand"
	"runtime"
	"strconv"
	"sync"
	"sync/atomic"
	"time"

	"github.com/preslavrachev/gomjml/mjml"
)

func init() {
	subs["sched"] = schedMain
	subs["cleaner-life"] = cleanerLife
}

func curGID() int64 {
	var buf [64]byte
	n := runtime.Stack(buf[:], false)
	// "goroutine 123 ["
	b := buf[:n]
	b = b[len("goroutine "):]
	i := bytes.IndexByte(b, ' ')
	id, _ := strconv.ParseInt(string(b[:i]), 10, 64)
	return id
}

var parkCodes = map[string]int{"cache.load": 1, "cache.del": 2, "sf.lookup": 3, "sf.wait": 4, "sf.parse": 5, "cache.store": 6, "sf.done": 7, "sf.unreg": 8}

type schedEvent struct {
	tid   int
	code  int // 0 = finished
	kind  int
	parse int
}

type scheduler struct {
	mu     sync.Mutex
	gids   map[int64]int
	arrive chan schedEvent
	resume []chan struct{}
	parses map[int64]int
}

func (s *scheduler) tidOf(g int64) (int, bool) {
	s.mu.Lock()
	defer s.mu.Unlock()
	t, ok := s.gids[g]
	return t, ok
}

// schedMain: controlled scheduling of N cached compilations at the verifYield points.
func schedMain(args []string) {
	mjml.SetASTCacheTTLOnce(time.Hour)
	mjml.SetASTCacheCleanupIntervalOnce(24 * time.Hour) // the cleaner never ticks during a schedule
	var cur atomic.Pointer[scheduler]
	orig := mjml.ParseMJML
	mjml.ParseMJML = func(s string) (*mjml.MJMLNode, error) {
		if sc := cur.Load(); sc != nil {
			g := curGID()
			sc.mu.Lock()
			sc.parses[g]++
			sc.mu.Unlock()
		}
		return orig(s)
	}
	mjml.VerifSetYield(func(point string, key uint64) {
		sc := cur.Load()
		if sc == nil {
			return
		}
		code, park := parkCodes[point]
		if !park {
			return
		}
		tid, ok := sc.tidOf(curGID())
		if !ok {
			return
		}
		sc.arrive <- schedEvent{tid: tid, code: code}
		<-sc.resume[tid]
	})
	eachJob(func(j job) any {
		var docs []string
		for _, d := range j.list("docs") {
			docs = append(docs, d.(string))
		}
		var keys []int
		for _, k := range j.list("threads") {
			keys = append(keys, int(k.(float64)))
		}
		n := len(keys)
		// uncached oracle
		type unc struct{ sha, err string }
		base := make([]unc, len(docs))
		for i, d := range docs {
			h, e := mjml.Render(d)
			base[i] = unc{sha(h), classify(e).Class + ":" + classify(e).Text}
		}
		// initial cache state
		mjml.StopASTCacheCleanup()
		mjml.VerifCacheClear()
		for _, c := range j.list("cached") {
			cc := job(c.(map[string]any))
			if cc.boolean("expired") {
				mjml.Render(docs[int(cc.num("doc"))], mjml.WithCache())
			}
		}
		mjml.VerifCacheShiftExpiries(3 * time.Hour)
		for _, c := range j.list("cached") {
			cc := job(c.(map[string]any))
			if !cc.boolean("expired") {
				mjml.Render(docs[int(cc.num("doc"))], mjml.WithCache())
			}
		}
		sc := &scheduler{gids: map[int64]int{}, arrive: make(chan schedEvent, n+4), parses: map[int64]int{}}
		for i := 0; i < n; i++ {
			sc.resume = append(sc.resume, make(chan struct{}, 1))
		}
		cur.Store(sc)
		defer cur.Store(nil)
		for t := 0; t < n; t++ {
			go func(t int) {
				g := curGID()
				sc.mu.Lock()
				sc.gids[g] = t
				sc.mu.Unlock()
				h, e := renderPath("render", docs[keys[t]], []mjml.RenderOption{mjml.WithCache()})
				ei := classify(e)
				kind := 3
				if sha(h) == base[keys[t]].sha && ei.Class+":"+ei.Text == base[keys[t]].err {
					kind = 1
					if ei.Class == "error" {
						kind = 2
					}
				}
				sc.mu.Lock()
				p := sc.parses[g]
				sc.mu.Unlock()
				sc.arrive <- schedEvent{tid: t, code: 0, kind: kind, parse: p}
			}(t)
		}
		parked := map[int]int{} // tid -> code
		finished := 0
		problem := ""
		wait := func() (schedEvent, bool) {
			select {
			case ev := <-sc.arrive:
				return ev, true
			case <-time.After(10 * time.Second):
				return schedEvent{}, false
			}
		}
		for i := 0; i < n; i++ {
			ev, ok := wait()
			if !ok {
				problem = "a goroutine never reached its first yield point"
				break
			}
			if ev.code == 0 {
				finished++
			} else {
				parked[ev.tid] = ev.code
			}
		}
		var trace [][]int
		registered := map[int]int{} // key -> leader tid
		leaderOf := map[int]int{}
		leaderDone := map[int]bool{}
		var picks []int
		for _, p := range j.list("picks") {
			picks = append(picks, int(p.(float64)))
		}
		rng := rand.New(rand.NewSource(int64(j.num("seed"))))
		prio := rng.Perm(n) // PCT-style priorities
		changeAt := map[int]bool{}
		for d := 0; d < int(j.num("pct_d")); d++ {
			changeAt[rng.Intn(4*n+8)] = true
		}
		expireAt := -1
		if v, ok := j["expire_at"].(float64); ok {
			expireAt = int(v)
		}
		stepNo := 0
		for problem == "" && finished < n {
			if stepNo == expireAt {
				mjml.VerifCacheShiftExpiries(3 * time.Hour)
				trace = append(trace, []int{-1, 0, 0, 0})
			}
			var enabled []int
			for t := 0; t < n; t++ {
				code, ok := parked[t]
				if !ok {
					continue
				}
				if code == 4 && !leaderDone[leaderOf[t]] {
					continue
				}
				enabled = append(enabled, t)
			}
			if len(enabled) == 0 {
				problem = fmt.Sprintf("deadlock: no goroutine can run, parked=%v", parked)
				break
			}
			pick := -1
			if stepNo < len(picks) {
				for _, t := range enabled {
					if t == picks[stepNo] {
						pick = t
					}
				}
			}
			if pick < 0 {
				switch j.str("strategy") {
				case "pct":
					if changeAt[stepNo] {
						// demote the currently highest-priority enabled thread
						best := enabled[0]
						for _, t := range enabled {
							if prio[t] > prio[best] {
								best = t
							}
						}
						prio[best] = -stepNo - 1
					}
					pick = enabled[0]
					for _, t := range enabled {
						if prio[t] > prio[pick] {
							pick = t
						}
					}
				case "first":
					pick = enabled[0]
				default:
					pick = enabled[rng.Intn(len(enabled))]
				}
			}
			stepNo++
			delete(parked, pick)
			sc.resume[pick] <- struct{}{}
			var ev schedEvent
			for {
				e, ok := wait()
				if !ok {
					problem = fmt.Sprintf("goroutine %d did not reach a yield point or return within 10 s (blocked forever?)", pick)
					break
				}
				if e.tid != pick {
					problem = fmt.Sprintf("goroutine %d moved while %d held the token", e.tid, pick)
					break
				}
				ev = e
				break
			}
			if problem != "" {
				break
			}
			trace = append(trace, []int{pick, ev.code, ev.kind, ev.parse})
			k := keys[pick]
			switch ev.code {
			case 0:
				finished++
				if registered[k] == pick+1 {
					delete(registered, k)
				}
			case 5:
				registered[k] = pick + 1
			case 4:
				leaderOf[pick] = registered[k] - 1
			case 8:
				leaderDone[pick] = true
			default:
				parked[pick] = ev.code
			}
			if ev.code == 5 || ev.code == 4 || ev.code == 8 {
				parked[pick] = ev.code
			}
			// a leader that unregistered frees the key for the next registration
			if ev.code == 0 {
				leaderDone[pick] = true
			}
		}
		// release anything still parked so the process can go on
		for t := range parked {
			select {
			case sc.resume[t] <- struct{}{}:
			default:
			}
		}
		if problem != "" {
			time.Sleep(50 * time.Millisecond)
		}
		return map[string]any{"id": j["id"], "trace": trace, "problem": problem, "cache_len": mjml.VerifCacheLen(),
			"sf_len": mjml.VerifSingleflightLen(), "steps": stepNo}
	})
	mjml.StopASTCacheCleanup()
}

// cleanerLife: start / stop sequences; reports the running flag and the number of extra goroutines.
func cleanerLife(args []string) {
	mjml.SetASTCacheCleanupIntervalOnce(time.Millisecond)
	doc := `<mjml><mj-body><mj-section><mj-column><mj-text>x</mj-text></mj-column></mj-section></mj-body></mjml>`
	eachJob(func(j job) any {
		mjml.StopASTCacheCleanup()
		time.Sleep(5 * time.Millisecond)
		base := runtime.NumGoroutine()
		var out []map[string]any
		for _, o := range j.list("ops") {
			switch o.(string) {
			case "start":
				mjml.Render(doc, mjml.WithCache())
			case "stop":
				mjml.StopASTCacheCleanup()
			case "start-concurrent":
				var wg sync.WaitGroup
				for g := 0; g < 8; g++ {
					wg.Add(1)
					go func() { defer wg.Done(); mjml.Render(doc, mjml.WithCache()) }()
				}
				wg.Wait()
			case "start-after-mixed-concurrent":
				// stops overlapping starts (either outcome of the overlap is legal), then one sequential use of the cache,
				// after which exactly one cleaner must run; repeated, stopping at the first round where it does not
				rounds := int(j.num("rounds"))
				if rounds == 0 {
					rounds = 1000
				}
				for r := 0; r < rounds; r++ {
					var wg sync.WaitGroup
					for g := 0; g < 4; g++ {
						wg.Add(2)
						go func() { defer wg.Done(); mjml.Render(doc, mjml.WithCache()) }()
						go func() { defer wg.Done(); mjml.StopASTCacheCleanup() }()
					}
					wg.Wait()
					mjml.Render(doc, mjml.WithCache())
					if !mjml.VerifCleanupRunning() {
						break
					}
				}
			case "stop-concurrent":
				var wg sync.WaitGroup
				for g := 0; g < 8; g++ {
					wg.Add(1)
					go func() { defer wg.Done(); mjml.StopASTCacheCleanup() }()
				}
				wg.Wait()
			}
			running := mjml.VerifCleanupRunning()
			want := 0
			if running {
				want = 1
			}
			delta := 0
			for t := 0; t < 300; t++ {
				delta = runtime.NumGoroutine() - base
				if delta == want {
					break
				}
				time.Sleep(time.Millisecond)
			}
			out = append(out, map[string]any{"running": running, "goroutines": delta})
		}
		mjml.StopASTCacheCleanup()
		return map[string]any{"id": j["id"], "steps": out}
	})
}
