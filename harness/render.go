package main

import (
	"crypto/sha1"
	"encoding/hex"
	"errors"
	"fmt"
	"sort"

	"github.com/preslavrachev/gomjml/mjml"
)

func init() {
	subs["render"] = func(args []string) { eachJob(renderJob) }
}

func sha(s string) string {
	h := sha1.Sum([]byte(s))
	return hex.EncodeToString(h[:])
}

type errInfo struct {
	Class   string     `json:"class"` // none | validation | error | panic
	Text    string     `json:"text,omitempty"`
	Details [][]string `json:"details,omitempty"` // sorted (tag, attr, line)
}

func classify(err error) errInfo {
	if err == nil {
		return errInfo{Class: "none"}
	}
	var me mjml.Error
	if errors.As(err, &me) {
		ei := errInfo{Class: "validation", Text: err.Error()}
		for _, d := range me.Details {
			ei.Details = append(ei.Details, []string{d.TagName, d.Message, fmt.Sprint(d.Line)})
		}
		sort.Slice(ei.Details, func(i, j int) bool { return fmt.Sprint(ei.Details[i]) < fmt.Sprint(ei.Details[j]) })
		return ei
	}
	return errInfo{Class: "error", Text: err.Error()}
}

func opts(j job) []mjml.RenderOption {
	var o []mjml.RenderOption
	if j.boolean("debug") {
		o = append(o, mjml.WithDebugTags(true))
	}
	if j.boolean("cache") {
		o = append(o, mjml.WithCache())
	}
	return o
}

// renderPath runs one of the four public paths.
func renderPath(path, src string, o []mjml.RenderOption) (html string, err error) {
	defer func() {
		if r := recover(); r != nil {
			html, err = "", fmt.Errorf("PANIC: %v", r)
		}
	}()
	switch path {
	case "", "render":
		return mjml.Render(src, o...)
	case "withast":
		res, e := mjml.RenderWithAST(src, o...)
		if res == nil {
			return "", e
		}
		return res.HTML, e
	case "fromast":
		ast, e := mjml.ParseMJML(src)
		if e != nil {
			return "", e
		}
		return mjml.RenderFromAST(ast, o...)
	case "newfromast":
		ast, e := mjml.ParseMJML(src)
		if e != nil {
			return "", e
		}
		c, e := mjml.NewFromAST(ast, o...)
		if e != nil {
			return "", e
		}
		return mjml.RenderComponentString(c)
	}
	return "", fmt.Errorf("unknown path %q", path)
}

func renderJob(j job) any {
	html, err := renderPath(j.str("path"), j.str("src"), opts(j))
	ei := classify(err)
	if err != nil && len(ei.Text) > 6 && ei.Text[:6] == "PANIC:" {
		ei.Class = "panic"
	}
	r := map[string]any{"id": j["id"], "err": ei, "sha": sha(html), "len": len(html)}
	if !j.boolean("nohtml") {
		r["html"] = html
	}
	return r
}
