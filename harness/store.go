package main

import (
	"github.com/preslavrachev/gomjml/mjml"
	"github.com/preslavrachev/gomjml/mjml/components"
	"github.com/preslavrachev/gomjml/mjml/globals"
	"github.com/preslavrachev/gomjml/mjml/options"
	"github.com/preslavrachev/gomjml/parser"
)

func init() {
	subs["store"] = func(args []string) { eachJob(storeJob) }
	subs["classorder"] = func(args []string) { eachJob(classOrderJob) }
	subs["normvalue"] = func(args []string) {
		eachJob(func(j job) any {
			return map[string]any{"id": j["id"], "out": components.VerifNormalizeAttributeValue(j.str("name"), j.str("value"))}
		})
	}
}

// storeJob: build the attribute store of a document's head exactly as a render does
// (globals.NewGlobalAttributes + ProcessAttributesFromHead) and answer look-ups:
//   {"k":"tag","key":"mj-text","attr":"color"}   componentDefaults entry (present?, value)
//   {"k":"all","attr":"color"}                    mj-all entry
//   {"k":"class","key":"c1","attr":"color"}       class definition entry
//   {"k":"global","key":"mj-text","attr":"color"} GetGlobalAttribute
//   {"k":"comp","names":"c1 c2","attr":"color"}   what a component carrying mj-class="c1 c2" merges (NewBaseComponent)
func storeJob(j job) any {
	res := map[string]any{"id": j["id"]}
	ast, err := parser.ParseMJML(j.str("src"))
	if err != nil {
		res["err"] = err.Error()
		return res
	}
	ga := globals.NewGlobalAttributes()
	for _, c := range ast.Children {
		if c.XMLName.Local == "mj-head" {
			ga.ProcessAttributesFromHead(c)
		}
	}
	var out []any
	for _, q := range j.list("queries") {
		qq := job(q.(map[string]any))
		switch qq.str("k") {
		case "class":
			m := ga.GetClassAttributes(qq.str("key"))
			v, ok := m[qq.str("attr")]
			out = append(out, []any{ok, v})
		case "global":
			v := ga.GetGlobalAttribute(qq.str("key"), qq.str("attr"))
			out = append(out, []any{v != "", v})
		case "comp":
			node := &parser.MJMLNode{}
			node.XMLName.Local = "mj-text"
			src := `<mjml><mj-body><mj-section><mj-column><mj-text mj-class="` + qq.str("names") + `">x</mj-text></mj-column></mj-section></mj-body></mjml>`
			if a2, err2 := parser.ParseMJML(src); err2 == nil {
				node = findTag(a2, "mj-text")
			}
			bc := components.NewBaseComponent(node, &options.RenderOpts{GlobalAttributes: ga})
			v := bc.GetClassAttribute(qq.str("attr"))
			out = append(out, []any{v != "", v})
		}
	}
	res["answers"] = out
	return res
}

func findTag(n *parser.MJMLNode, tag string) *parser.MJMLNode {
	if n.XMLName.Local == tag {
		return n
	}
	for _, c := range n.Children {
		if r := findTag(c, tag); r != nil {
			return r
		}
	}
	return nil
}

func classOrderJob(j job) any {
	return map[string]any{"id": j["id"], "out": mjml.VerifNormalizeGroupColumnClassOrder(j.str("in"))}
}
