package main

import (
	"fmt"
	"regexp"
	"sort"
	"strings"
	"sync"

	"github.com/preslavrachev/gomjml/mjml"
)

func init() {
	subs["repeat"] = func(args []string) { eachJob(repeatJob) }
	subs["snapshot"] = func(args []string) { eachJob(snapshotJob) }
	subs["conc"] = func(args []string) { eachJob(concJob) }
}

var hex16 = regexp.MustCompile(`[0-9a-f]{16}`)

// unifyIDs replaces the random identifiers (carousel / navbar: 16 hex digits) by their order of first
// appearance and returns how many distinct ones there were.
func unifyIDs(html string) (string, int) {
	seen := map[string]int{}
	out := hex16.ReplaceAllStringFunc(html, func(m string) string {
		if _, ok := seen[m]; !ok {
			seen[m] = len(seen)
		}
		return fmt.Sprintf("ID%d", seen[m])
	})
	return out, len(seen)
}

// repeatJob: render one document n times in this process; all results must be byte-identical after
// unifying ids.
func repeatJob(j job) any {
	n := int(j.num("n"))
	if n < 1 {
		n = 1
	}
	var first string
	distinct := map[string]int{}
	ids := 0
	var errClass string
	for i := 0; i < n; i++ {
		h, err := renderPath(j.str("path"), j.str("src"), opts(j))
		u, k := unifyIDs(h)
		key := sha(u) + "|" + classify(err).Class + "|" + classify(err).Text
		distinct[key]++
		if i == 0 {
			first, ids, errClass = u, k, classify(err).Class
		}
	}
	r := map[string]any{"id": j["id"], "distinct": len(distinct), "sha": sha(first), "ids": ids, "err": errClass, "len": len(first)}
	if j.boolean("html") {
		r["html"] = first
	}
	return r
}

func snap(n *mjml.MJMLNode, sb *strings.Builder) {
	if n == nil {
		sb.WriteString("<nil>")
		return
	}
	fmt.Fprintf(sb, "(%q %q L%d [", n.XMLName.Space, n.XMLName.Local, n.GetLineNumber())
	for _, a := range n.Attrs {
		fmt.Fprintf(sb, "%q:%q=%q ", a.Name.Space, a.Name.Local, a.Value)
	}
	fmt.Fprintf(sb, "] T%q M[", n.Text)
	for _, p := range n.MixedContent {
		fmt.Fprintf(sb, "%q/%p ", p.Text, p.Node)
	}
	fmt.Fprintf(sb, "] C%d/%p{", len(n.Children), n.Children)
	for _, c := range n.Children {
		fmt.Fprintf(sb, "%p:", c)
		snap(c, sb)
	}
	sb.WriteString("})")
}

func snapshot(n *mjml.MJMLNode) string {
	var sb strings.Builder
	snap(n, &sb)
	return sb.String()
}

// snapshotJob: deep snapshot of the parsed tree before and after every rendering path.
func snapshotJob(j job) any {
	src := j.str("src")
	res := map[string]any{"id": j["id"]}
	defer func() {
		if r := recover(); r != nil {
			res["panic"] = fmt.Sprint(r)
		}
	}()
	ast, err := mjml.ParseMJML(src)
	if err != nil {
		res["parse_error"] = true
		return res
	}
	s0 := snapshot(ast)
	var changed []string
	check := func(step string) {
		if snapshot(ast) != s0 {
			changed = append(changed, step)
		}
	}
	mjml.RenderFromAST(ast)
	check("RenderFromAST")
	mjml.RenderFromAST(ast, mjml.WithDebugTags(true))
	check("RenderFromAST(debug)")
	if c, err := mjml.NewFromAST(ast); err == nil {
		mjml.RenderComponentString(c)
		check("NewFromAST+RenderComponentString")
		mjml.RenderComponentString(c)
		check("second RenderComponentString on the same component tree")
	}
	var wg sync.WaitGroup
	for g := 0; g < 2; g++ {
		wg.Add(1)
		go func() { defer wg.Done(); mjml.RenderFromAST(ast) }()
	}
	wg.Wait()
	check("two concurrent RenderFromAST")
	// the tree handed out by a cached compilation is the cached one
	mjml.VerifCacheClear()
	if r1, err := mjml.RenderWithAST(src, mjml.WithCache()); r1 != nil && (err == nil || r1.HTML != "") {
		c0 := snapshot(r1.AST)
		r2, _ := mjml.RenderWithAST(src, mjml.WithCache())
		if r2 != nil && r2.AST == r1.AST {
			res["cache_shares_tree"] = true
		}
		mjml.Render(src, mjml.WithCache())
		if snapshot(r1.AST) != c0 {
			changed = append(changed, "cached tree after further cached compilations")
		}
	}
	mjml.StopASTCacheCleanup()
	res["changed"] = changed
	res["nodes"] = strings.Count(s0, "(")
	return res
}

// concJob: N goroutines render the given documents (round robin, reps each); every output is compared
// with the document's solo output computed first.
func concJob(j job) any {
	var docs []string
	for _, d := range j.list("docs") {
		docs = append(docs, d.(string))
	}
	n := int(j.num("n"))
	reps := int(j.num("reps"))
	o := opts(j)
	type solo struct{ html, err string }
	base := make([]solo, len(docs))
	solos := func() {
		for i, d := range docs {
			h, e := mjml.Render(d, o...)
			u, _ := unifyIDs(h)
			base[i] = solo{u, classify(e).Class + classify(e).Text}
		}
	}
	cold := j.boolean("cold") // the concurrent renders are the very first compilations of this process
	if !cold {
		solos()
	}
	type obs struct {
		k, g, r int
		html, err string
	}
	var late []obs
	var mu sync.Mutex
	bad := 0
	var firstBad map[string]any
	var wg sync.WaitGroup
	for g := 0; g < n; g++ {
		wg.Add(1)
		go func(g int) {
			defer wg.Done()
			for r := 0; r < reps; r++ {
				k := (g + r) % len(docs)
				h, e := renderPath("render", docs[k], o)
				u, _ := unifyIDs(h)
				if cold {
					mu.Lock()
					late = append(late, obs{k, g, r, u, classify(e).Class + classify(e).Text})
					mu.Unlock()
					continue
				}
				if u != base[k].html || classify(e).Class+classify(e).Text != base[k].err {
					mu.Lock()
					bad++
					if firstBad == nil {
						firstBad = map[string]any{"doc": k, "goroutine": g, "rep": r, "diff_at": firstDiff(u, base[k].html)}
					}
					mu.Unlock()
				}
			}
		}(g)
	}
	wg.Wait()
	if cold {
		solos()
		for _, ob := range late {
			if ob.html != base[ob.k].html || ob.err != base[ob.k].err {
				bad++
				if firstBad == nil {
					firstBad = map[string]any{"doc": ob.k, "goroutine": ob.g, "rep": ob.r, "diff_at": firstDiff(ob.html, base[ob.k].html), "err": ob.err, "solo_err": base[ob.k].err}
				}
			}
		}
	}
	mjml.StopASTCacheCleanup()
	keys := []string{}
	for _, b := range base {
		keys = append(keys, sha(b.html))
	}
	sort.Strings(keys)
	return map[string]any{"id": j["id"], "runs": n * reps, "contaminated": bad, "first": firstBad, "distinct_solo_outputs": len(uniq(keys))}
}

func uniq(s []string) []string {
	var o []string
	for i, x := range s {
		if i == 0 || x != s[i-1] {
			o = append(o, x)
		}
	}
	return o
}

func firstDiff(a, b string) string {
	n := len(a)
	if len(b) < n {
		n = len(b)
	}
	i := 0
	for i < n && a[i] == b[i] {
		i++
	}
	lo := i - 60
	if lo < 0 {
		lo = 0
	}
	ha, hb := i+60, i+60
	if ha > len(a) {
		ha = len(a)
	}
	if hb > len(b) {
		hb = len(b)
	}
	return fmt.Sprintf("offset %d: got %q want %q", i, a[lo:ha], b[lo:hb])
}
