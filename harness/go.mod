module gvharness

go 1.24.4

require github.com/preslavrachev/gomjml v0.0.0

require (
	github.com/spf13/cobra v1.9.1 // indirect
	github.com/spf13/pflag v1.0.6 // indirect
)

replace github.com/preslavrachev/gomjml => /repo
