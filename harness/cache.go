package main

import (
	"flag"
	"sync/atomic"
	"time"

	"github.com/preslavrachev/gomjml/mjml"
)

func init() {
	subs["cache-hist"] = cacheHist
}

var parseCount int64
var sweepCount int64
var cleanersStarted, cleanersExited int64

// awaitCleanersGone: StopASTCacheCleanup only cancels; the goroutine may still be inside a sweep. The
// model's "stop" is the instant after which no sweep happens, so wait until every started cleaner has exited.
func awaitCleanersGone(deadline time.Duration) bool {
	t0 := time.Now()
	for atomic.LoadInt64(&cleanersExited) < atomic.LoadInt64(&cleanersStarted) {
		if time.Since(t0) > deadline {
			return false
		}
		time.Sleep(100 * time.Microsecond)
	}
	return true
}

func installParseCounter() {
	orig := mjml.ParseMJML
	mjml.ParseMJML = func(s string) (*mjml.MJMLNode, error) {
		atomic.AddInt64(&parseCount, 1)
		return orig(s)
	}
}

// awaitSweep waits until at least one complete sweep that started after the call has finished.
func awaitSweep(deadline time.Duration) bool {
	c0 := atomic.LoadInt64(&sweepCount)
	t0 := time.Now()
	for atomic.LoadInt64(&sweepCount) < c0+2 {
		if time.Since(t0) > deadline {
			return false
		}
		time.Sleep(200 * time.Microsecond)
	}
	return true
}

// cacheHist: sequential operation histories against the real cache.
//
//	args: -ttl <ns> -interval <ns> (applied once at process start when != "unset"), -await (wait for a
//	full sweep after every operation while a cleaner runs)
func cacheHist(args []string) {
	fs := flag.NewFlagSet("cache-hist", flag.ExitOnError)
	ttl := fs.Int64("ttl", -1<<62, "SetASTCacheTTLOnce at start (ns)")
	iv := fs.Int64("interval", -1<<62, "SetASTCacheCleanupIntervalOnce at start (ns)")
	ivFirst := fs.Bool("interval-first", false, "call the interval setter before the TTL setter")
	await := fs.Bool("await", false, "await a full sweep after every op while the cleaner runs")
	fs.Parse(args)
	setT := func() {
		if *ttl != -1<<62 {
			mjml.SetASTCacheTTLOnce(time.Duration(*ttl))
		}
	}
	setI := func() {
		if *iv != -1<<62 {
			mjml.SetASTCacheCleanupIntervalOnce(time.Duration(*iv))
		}
	}
	if *ivFirst {
		setI()
		setT()
	} else {
		setT()
		setI()
	}
	installParseCounter()
	mjml.VerifSetYield(func(point string, key uint64) {
		switch point {
		case "cleaner.swept":
			atomic.AddInt64(&sweepCount, 1)
		case "cleaner.exit":
			atomic.AddInt64(&cleanersExited, 1)
		}
	})
	eachJob(func(j job) any {
		// reset between histories
		mjml.StopASTCacheCleanup()
		awaitCleanersGone(2 * time.Second)
		mjml.VerifCacheClear()
		wasRunning := false
		var docs []string
		for _, d := range j.list("docs") {
			docs = append(docs, d.(string))
		}
		// oracle: what an uncached compilation returns
		type unc struct {
			sha string
			err string
		}
		base := make([]unc, len(docs))
		for i, d := range docs {
			h, e := mjml.Render(d)
			base[i] = unc{sha(h), classify(e).Class + ":" + classify(e).Text}
		}
		var steps []map[string]any
		sweepTimeouts := 0
		for _, o := range j.list("ops") {
			op := job(o.(map[string]any))
			st := map[string]any{}
			switch op.str("op") {
			case "render":
				d := int(op.num("d"))
				p0 := atomic.LoadInt64(&parseCount)
				var opts []mjml.RenderOption
				if op.boolean("cached") {
					opts = append(opts, mjml.WithCache())
				}
				h, e := renderPath("render", docs[d], opts)
				ei := classify(e)
				kind := 3
				if sha(h) == base[d].sha && ei.Class+":"+ei.Text == base[d].err {
					if ei.Class == "error" {
						kind = 2
					} else {
						kind = 1
					}
				}
				st["kind"] = kind
				st["parsed"] = atomic.LoadInt64(&parseCount) - p0
			case "advance":
				mjml.VerifCacheShiftExpiries(time.Duration(int64(op.num("ns"))))
				st["kind"] = 0
			case "tick":
				if mjml.VerifCleanupRunning() {
					if !awaitSweep(2 * time.Second) {
						sweepTimeouts++
					}
				}
				st["kind"] = 0
			case "stop":
				mjml.StopASTCacheCleanup()
				if !awaitCleanersGone(2 * time.Second) {
					sweepTimeouts++
				}
				st["kind"] = 0
			case "setttl":
				mjml.SetASTCacheTTLOnce(time.Duration(int64(op.num("ns"))))
				st["kind"] = 0
			case "setinterval":
				mjml.SetASTCacheCleanupIntervalOnce(time.Duration(int64(op.num("ns"))))
				st["kind"] = 0
			}
			if *await && mjml.VerifCleanupRunning() {
				if !awaitSweep(2 * time.Second) {
					sweepTimeouts++
				}
			}
			st["len"] = mjml.VerifCacheLen()
			nowRunning := mjml.VerifCleanupRunning()
			if nowRunning && !wasRunning {
				atomic.AddInt64(&cleanersStarted, 1) // operations are sequential: one goroutine per false -> true transition
			}
			wasRunning = nowRunning
			st["running"] = nowRunning
			steps = append(steps, st)
		}
		t, i := mjml.VerifCacheConfig()
		return map[string]any{"id": j["id"], "steps": steps, "sweep_timeouts": sweepTimeouts, "ttl_ns": int64(t), "interval_ns": int64(i)}
	})
	mjml.StopASTCacheCleanup()
}
