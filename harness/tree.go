package main

import (
	"bytes"
	"encoding/xml"
	"io"

	"github.com/preslavrachev/gomjml/mjml"
	"github.com/preslavrachev/gomjml/parser"
)

func init() {
	subs["tree"] = func(args []string) { eachJob(treeJob) }
}

type jnode struct {
	Name  string     `json:"n"`
	Attrs [][]string `json:"a"`
	Parts []any      `json:"p"` // string (text segment) or jnode
	Text  string     `json:"t"`
	Kids  int        `json:"k"`
	Raw   bool       `json:"raw,omitempty"`
}

func dumpNode(n *mjml.MJMLNode) jnode {
	j := jnode{Name: n.XMLName.Local, Text: n.Text, Kids: len(n.Children), Attrs: [][]string{}, Parts: []any{}}
	for _, a := range n.Attrs {
		nm := a.Name.Local
		if a.Name.Space != "" {
			nm = a.Name.Space + ":" + nm
		}
		j.Attrs = append(j.Attrs, []string{nm, a.Value})
	}
	if n.XMLName.Local == "mj-raw" {
		j.Raw = true
	}
	for _, p := range n.MixedContent {
		if p.Node != nil {
			j.Parts = append(j.Parts, dumpNode(p.Node))
		} else {
			j.Parts = append(j.Parts, p.Text)
		}
	}
	return j
}

// treeJob: the tree ParseMJML builds, and the raw encoding/xml token stream of the pre-processed text
// (and, optionally, of the unprocessed text: the plain-XML-parser view).
func treeJob(j job) any {
	src := j.str("src")
	res := map[string]any{"id": j["id"]}
	ast, err := parser.ParseMJML(src)
	if err != nil {
		res["parse_error"] = err.Error()
	} else {
		res["tree"] = dumpNode(ast)
	}
	toks := func(s string) ([]any, string) {
		d := xml.NewDecoder(bytes.NewReader([]byte(s)))
		var out []any
		for {
			t, err := d.Token()
			if err == io.EOF {
				return out, ""
			}
			if err != nil {
				return out, err.Error()
			}
			switch x := t.(type) {
			case xml.StartElement:
				at := [][]string{}
				for _, a := range x.Attr {
					nm := a.Name.Local
					if a.Name.Space != "" {
						nm = a.Name.Space + ":" + nm
					}
					at = append(at, []string{nm, a.Value})
				}
				out = append(out, map[string]any{"s": x.Name.Local, "a": at})
			case xml.EndElement:
				out = append(out, map[string]any{"e": x.Name.Local})
			case xml.CharData:
				out = append(out, map[string]any{"t": string(x)})
			case xml.Comment:
				out = append(out, map[string]any{"c": string(x)})
			}
		}
	}
	pt, perr := toks(parser.VerifPreprocess(src))
	res["tokens"], res["tokens_error"] = pt, perr
	if j.boolean("plain") {
		qt, qerr := toks(src)
		res["plain_tokens"], res["plain_error"] = qt, qerr
	}
	return res
}
