package main

import (
	"github.com/preslavrachev/gomjml/mjml"
)

func init() {
	subs["paths"] = func(args []string) { eachJob(pathsJob) }
}

// pathsJob: a sequence of calls (path, document) in this process; each result as a digest.
func pathsJob(j job) any {
	var docs []string
	for _, d := range j.list("docs") {
		docs = append(docs, d.(string))
	}
	var out []map[string]any
	for _, c := range j.list("calls") {
		cc := job(c.(map[string]any))
		h, err := renderPath(cc.str("path"), docs[int(cc.num("doc"))], nil)
		u, _ := unifyIDs(h)
		n := mjml.VerifNormalizeGroupColumnClassOrder(u)
		ei := classify(err)
		out = append(out, map[string]any{"sha": sha(u), "norm_sha": sha(n), "err": ei.Class + ":" + ei.Text, "len": len(u)})
	}
	return map[string]any{"id": j["id"], "results": out}
}
