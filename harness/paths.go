package main

import (
	"github.com/preslavrachev/gomjml/mjml"
)

func init() {
	subs["paths"] = func(args []string) { eachJob(pathsJob) }
}

// pathsJob: a sequence of calls (path, document) in this process; each result as a digest.
func pathsJob(j job) any {
	var docs []string
	for _, d := range j.list("docs") {
		docs = append(docs, d.(string))
	}
	var out []map[string]any
	var trees []mjml.Component
	for _, c := range j.list("calls") {
		cc := job(c.(map[string]any))
		var h string
		var err error
		switch cc.str("path") {
		case "new": // NewFromAST now, RenderComponentString later ("tree")
			var t mjml.Component
			if ast, e := mjml.ParseMJML(docs[int(cc.num("doc"))]); e != nil {
				err = e
			} else {
				t, err = mjml.NewFromAST(ast)
			}
			trees = append(trees, t)
			ei := classify(err)
			out = append(out, map[string]any{"sha": "built", "norm_sha": "built", "err": ei.Class + ":" + ei.Text, "len": 0})
			continue
		case "tree":
			k := int(cc.num("tree"))
			if k >= len(trees) || trees[k] == nil {
				out = append(out, map[string]any{"sha": "no-tree", "norm_sha": "no-tree", "err": "none:", "len": 0})
				continue
			}
			h, err = mjml.RenderComponentString(trees[k])
		default:
			h, err = renderPath(cc.str("path"), docs[int(cc.num("doc"))], nil)
		}
		u, _ := unifyIDs(h)
		n := mjml.VerifNormalizeGroupColumnClassOrder(u)
		ei := classify(err)
		out = append(out, map[string]any{"sha": sha(u), "norm_sha": sha(n), "err": ei.Class + ":" + ei.Text, "len": len(u)})
	}
	return map[string]any{"id": j["id"], "results": out}
}
