package main

import (
	"github.com/preslavrachev/gomjml/mjml"
	"github.com/preslavrachev/gomjml/mjml/options"
)

func init() {
	subs["inline"] = func(args []string) { eachJob(inlineJob) }
}

// inlineJob: the real rule parser, class extractor and author-HTML inliner on (css, html).
func inlineJob(j job) any {
	css, html := j.str("css"), j.str("html")
	rules := mjml.VerifParseInlineCSSRules(css)
	styles := map[string][]options.InlineStyle{}
	var dump [][]any
	for _, r := range rules {
		var decls [][]string
		for _, d := range r.Declarations {
			decls = append(decls, []string{d.Property, d.Value})
		}
		dump = append(dump, []any{r.Selectors, decls})
		for _, s := range r.Selectors {
			if c, ok := mjml.VerifExtractInlineClass(s); ok {
				styles[c] = append(styles[c], r.Declarations...)
			}
		}
	}
	out := mjml.VerifApplyInlineStylesToHTML(html, styles)
	return map[string]any{"id": j["id"], "rules": dump, "out": out}
}
