package main

import (
	"encoding/hex"

	"github.com/preslavrachev/gomjml/parser"
)

func init() {
	subs["pre"] = func(args []string) { eachJob(preJob) }
}

// preJob: the parser's textual pre-passes on a hex-encoded input.
func preJob(j job) any {
	b, _ := hex.DecodeString(j.str("hex"))
	s := string(b)
	var out string
	switch j.str("fn") {
	case "strip":
		out = parser.VerifStripNonMSOComments(s)
	case "escamp":
		out = parser.VerifEscapeAttributeAmpersands(s)
	case "entities":
		out = parser.VerifPreprocessHTMLEntities(s)
	case "wrap":
		out = parser.VerifWrapMJTextContent(s)
	case "preprocess":
		out = parser.VerifPreprocess(s)
	}
	return map[string]any{"id": j["id"], "hex": hex.EncodeToString([]byte(out))}
}
