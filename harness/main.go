// Command harness: correspondence harness linked against /repo (build tag verif).
// Usage: harness <sub> [args]; one JSON job per stdin line, one JSON result per stdout line.
package main

import (
	"bufio"
	"encoding/json"
	"fmt"
	"os"
)

type job map[string]any

func (j job) str(k string) string {
	if v, ok := j[k].(string); ok {
		return v
	}
	return ""
}
func (j job) boolean(k string) bool {
	if v, ok := j[k].(bool); ok {
		return v
	}
	return false
}
func (j job) num(k string) float64 {
	if v, ok := j[k].(float64); ok {
		return v
	}
	return 0
}
func (j job) list(k string) []any {
	if v, ok := j[k].([]any); ok {
		return v
	}
	return nil
}

var subs = map[string]func(args []string){}

func eachJob(f func(j job) any) {
	in := bufio.NewReaderSize(os.Stdin, 1<<20)
	out := bufio.NewWriterSize(os.Stdout, 1<<20)
	defer out.Flush()
	enc := json.NewEncoder(out)
	enc.SetEscapeHTML(false)
	dec := json.NewDecoder(in)
	for {
		var j job
		if err := dec.Decode(&j); err != nil {
			return
		}
		r := f(j)
		if err := enc.Encode(r); err != nil {
			fmt.Fprintln(os.Stderr, "encode:", err)
		}
	}
}

func main() {
	if len(os.Args) < 2 {
		fmt.Fprintln(os.Stderr, "usage: harness <sub>")
		os.Exit(2)
	}
	f, ok := subs[os.Args[1]]
	if !ok {
		fmt.Fprintln(os.Stderr, "unknown sub-command", os.Args[1])
		os.Exit(2)
	}
	f(os.Args[2:])
}
