package main

import (
	"strings"
	"bytes"
	"encoding/json"
	"fmt"
	"os"
	"os/exec"
	"path/filepath"
	"time"

	"github.com/preslavrachev/gomjml/cmd/gomjml/command"
	"github.com/preslavrachev/gomjml/mjml"
)

func init() {
	subs["cli"] = func(args []string) {
		bin := args[0]
		eachJob(func(j job) any { return cliJob(bin, j) })
	}
	subs["cli-inproc"] = cliInproc
}

// cliInproc runs the compile command inside this (fresh) process and, if it returns
// normally, reports the cache configuration the flags produced.
func cliInproc(args []string) {
	trailer := args[0]
	cmd := command.NewCompileCommand()
	cmd.SetArgs(args[1:])
	devnull, _ := os.OpenFile(os.DevNull, os.O_WRONLY, 0)
	saved := os.Stdout
	os.Stdout = devnull
	err := cmd.Execute()
	os.Stdout = saved
	ttl, iv := mjml.VerifCacheConfig()
	t := map[string]any{"returned": true, "cobra_err": fmt.Sprint(err), "ttl_ns": int64(ttl), "interval_ns": int64(iv),
		"cache_len": mjml.VerifCacheLen(), "cleanup_running": mjml.VerifCleanupRunning()}
	b, _ := json.Marshal(t)
	os.WriteFile(trailer, b, 0o644)
}

func cliJob(bin string, j job) any {
	dir, err := os.MkdirTemp("", "gvcli")
	if err != nil {
		return map[string]any{"id": j["id"], "harness_error": err.Error()}
	}
	defer os.RemoveAll(dir)
	in := filepath.Join(dir, "in.mjml")
	content, hasContent := j["content"].(string)
	if hasContent {
		os.WriteFile(in, []byte(content), 0o644)
	}
	args := []string{"compile", in}
	inprocArgs := []string{in}
	outPath := ""
	add := func(a ...string) { args = append(args, a...); inprocArgs = append(inprocArgs, a...) }
	outKind := strings.TrimSuffix(j.str("out"), "+s") // "file+s": -o together with the stdout flag (the file still is the destination)
	oldContent := "OLD"
	if strings.HasSuffix(outKind, "+long") { // "existing+long": the file that is there is longer than any HTML written over it
		outKind = strings.TrimSuffix(outKind, "+long")
		oldContent = strings.Repeat("OLD CONTENT\n", 40000)
	}
	if strings.HasSuffix(j.str("out"), "+s") {
		add("-s")
	}
	switch outKind {
	case "file", "existing":
		outPath = filepath.Join(dir, "out.html")
		add("-o", outPath)
		if outKind == "existing" {
			os.WriteFile(outPath, []byte(oldContent), 0o644)
		}
	case "unwritable":
		outPath = filepath.Join(dir, "nodir", "out.html")
		add("-o", outPath)
	case "s":
		add("-s")
	}
	if j.boolean("debug") {
		add("--debug")
	}
	if j.boolean("cache") {
		add("--cache")
	}
	if v := j.str("ttl"); v != "" {
		add("--cache-ttl=" + v)
	}
	if v := j.str("interval"); v != "" {
		add("--cache-cleanup-interval=" + v)
	}

	// library reference on the same bytes
	var libHTML string
	var libErr error
	if hasContent {
		var o []mjml.RenderOption
		if j.boolean("debug") {
			o = append(o, mjml.WithDebugTags(true))
		}
		libHTML, libErr = mjml.Render(content, o...)
	}

	runOnce := func() (int, []byte, []byte, bool) {
		cmd := exec.Command(bin, args...)
		var so, se bytes.Buffer
		cmd.Stdout, cmd.Stderr = &so, &se
		done := make(chan error, 1)
		cmd.Start()
		go func() { done <- cmd.Wait() }()
		timedOut := false
		select {
		case <-done:
		case <-time.After(20 * time.Second):
			cmd.Process.Kill()
			<-done
			timedOut = true
		}
		return cmd.ProcessState.ExitCode(), so.Bytes(), se.Bytes(), timedOut
	}
	reps := int(j.num("reps"))
	if reps < 1 {
		reps = 1
	}
	var exit int
	var so, se []byte
	var timedOut bool
	exits := []int{}
	for i := 0; i < reps; i++ {
		if outKind == "existing" {
			os.WriteFile(outPath, []byte(oldContent), 0o644)
		} else if outPath != "" {
			os.Remove(outPath)
		}
		exit, so, se, timedOut = runOnce()
		exits = append(exits, exit)
		if exit != exits[0] {
			break
		}
	}
	fileState := "none"
	if outPath != "" {
		if b, err := os.ReadFile(outPath); err == nil {
			switch {
			case string(b) == oldContent:
				fileState = "old"
			case hasContent && string(b) == libHTML:
				fileState = "lib"
			default:
				fileState = "other"
			}
		} else {
			fileState = "absent"
		}
	}
	stdoutState := "empty"
	if len(so) > 0 {
		if hasContent && string(so) == libHTML {
			stdoutState = "lib"
		} else {
			stdoutState = "other"
		}
	}
	res := map[string]any{"id": j["id"], "exit": exit, "exits": exits, "stdout": stdoutState, "stderr_nonempty": len(se) > 0,
		"file": fileState, "timed_out": timedOut, "lib_err": classify(libErr).Class, "lib_len": len(libHTML),
		"stderr_head": string(se[:min(len(se), 160)])}

	// in-process run for the flag mapping (only meaningful when the command returns)
	if j.boolean("inproc") {
		trailer := filepath.Join(dir, "trailer.json")
		if outPath != "" {
			os.Remove(outPath)
		}
		self, _ := os.Executable()
		c := exec.Command(self, append([]string{"cli-inproc", trailer}, inprocArgs...)...)
		c.Run()
		if b, err := os.ReadFile(trailer); err == nil {
			var t map[string]any
			json.Unmarshal(b, &t)
			res["inproc"] = t
		} else {
			res["inproc"] = map[string]any{"returned": false}
		}
	}
	return res
}
