package main

import (
	"errors"
	"fmt"
	"strings"
	"time"

	"github.com/preslavrachev/gomjml/mjml"
)

func init() {
	subs["fault"] = func(args []string) { eachJob(faultJob) }
	subs["render-safe"] = func(args []string) { eachJob(renderSafeJob) }
}

type failingWriter struct {
	failAt int // index of the write that fails (-1: never)
	n      int
	parts  []string
	err    error
}

func (w *failingWriter) WriteString(s string) (int, error) {
	if w.n == w.failAt {
		w.n++
		return 0, w.err
	}
	w.n++
	w.parts = append(w.parts, s)
	return len(s), nil
}

// faultJob: render the component tree of a document into a writer failing at its k-th call, for
// every k (exhaustive per document) or for the listed ks.
func faultJob(j job) any {
	src := j.str("src")
	res := map[string]any{"id": j["id"]}
	defer func() {
		if r := recover(); r != nil {
			res["panic"] = fmt.Sprint(r)
		}
	}()
	build := func() (mjml.Component, error) {
		ast, err := mjml.ParseMJML(src)
		if err != nil {
			return nil, err
		}
		return mjml.NewFromAST(ast)
	}
	// target "body": the body component is rendered into an internal buffer by the root, so its
	// Render methods are exercised directly (after one root render, which runs the width pre-pass)
	if j.str("target") == "body" {
		inner := build
		build = func() (mjml.Component, error) {
			c, err := inner()
			if err != nil {
				return nil, err
			}
			root, ok := c.(*mjml.MJMLComponent)
			if !ok || root.Body == nil {
				return nil, errors.New("no body component")
			}
			if err := root.Render(&failingWriter{failAt: -1}); err != nil {
				return nil, err
			}
			return root.Body, nil
		}
	}
	c, err := build()
	if err != nil {
		res["build_error"] = err.Error()
		return res
	}
	full := &failingWriter{failAt: -1}
	if err := c.Render(full); err != nil {
		res["render_error"] = err.Error()
		return res
	}
	n := full.n
	res["writes"] = n
	maxK := int(j.num("max_k"))
	step := 1
	if maxK > 0 && n > maxK {
		step = n/maxK + 1
	}
	var bad []map[string]any
	checked := 0
	for k := 0; k < n; k += step {
		// a fresh tree per run: rendering mutates component state (e.g. memoised ids)
		c, err := build()
		if err != nil {
			break
		}
		inj := errors.New("injected write failure")
		w := &failingWriter{failAt: k, err: inj}
		var rerr error
		func() {
			defer func() {
				if r := recover(); r != nil {
					rerr = fmt.Errorf("PANIC: %v", r)
				}
			}()
			rerr = c.Render(w)
		}()
		checked++
		why := ""
		switch {
		case rerr == nil:
			why = "failure of write swallowed (nil returned)"
		case rerr != inj:
			if strings.HasPrefix(rerr.Error(), "PANIC:") {
				why = "panic: " + rerr.Error()
			} else if errors.Is(rerr, inj) {
				why = "error wrapped, not returned as that very error: " + rerr.Error()
			} else {
				why = "a different error returned: " + rerr.Error()
			}
		case w.n != k+1:
			why = fmt.Sprintf("%d further write attempts after the failed one", w.n-k-1)
		default:
			// prefix property: exactly the first k writes of the fault-free run (ids excepted)
			if len(w.parts) != k {
				why = "number of successful writes differs"
			}
		}
		if why != "" && len(bad) < 3 {
			bad = append(bad, map[string]any{"k": k, "why": why})
		}
	}
	res["checked"] = checked
	res["bad"] = bad
	return res
}

// renderSafeJob: Render under recover and a wall-clock limit (hang detection).
func renderSafeJob(j job) any {
	type out struct {
		html string
		err  error
	}
	ch := make(chan out, 1)
	go func() {
		h, e := renderPath(j.str("path"), j.str("src"), opts(j))
		ch <- out{h, e}
	}()
	limit := time.Duration(j.num("timeout_ms")) * time.Millisecond
	if limit == 0 {
		limit = 5 * time.Second
	}
	select {
	case o := <-ch:
		ei := classify(o.err)
		if o.err != nil && strings.HasPrefix(ei.Text, "PANIC:") {
			ei.Class = "panic"
		}
		r := map[string]any{"id": j["id"], "err": ei, "len": len(o.html), "sha": sha(o.html)}
		// trichotomy: html&nil | html&validation | no html & error
		switch {
		case ei.Class == "none" && o.html == "":
			r["trichotomy"] = "no html and no error"
			if ast, perr := mjml.ParseMJML(j.str("src")); perr == nil && ast != nil {
				r["root"] = ast.XMLName.Local
			}
		case ei.Class == "validation" && o.html == "":
			r["trichotomy"] = "validation error without html"
		case ei.Class == "error" && o.html != "":
			r["trichotomy"] = "ordinary error together with html"
		}
		if j.boolean("html") {
			r["html"] = o.html
		}
		return r
	case <-time.After(limit):
		return map[string]any{"id": j["id"], "err": errInfo{Class: "hang"}, "len": 0}
	}
}
