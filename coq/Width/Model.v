(* C10: the box model in exact integer / rational arithmetic.  Ports of
   section.getInnerContentWidth, column.GetParsedWidth / GetWidthAsPixel / GetEffectiveWidth /
   calculateEffectiveContentWidth, image.calculateDefaultWidth (mjml/components).
   A percentage is a rational num/den; strconv.FormatFloat(x,'f',0,64) is round-half-to-even of the
   exact value, int(x) is truncation (all quantities are non-negative here). IEEE rounding of the
   product at an exact tie of a non-dyadic percentage is the one thing not reproduced. *)
From Coq Require Import ZArith List Bool Lia.
Import ListNotations.
Open Scope Z_scope.

(* round half to even of n/d, d > 0, n >= 0 *)
Definition rhe (n d : Z) : Z :=
  let q := n / d in let r := n mod d in
  if 2 * r <? d then q else if d <? 2 * r then q + 1 else if Z.even q then q else q + 1.

Lemma rhe_close n d : 0 < d -> 0 <= n -> 2 * Z.abs (d * rhe n d - n) <= d.
Proof.
  intros Hd Hn. unfold rhe. pose proof (Z.div_mod n d ltac:(lia)) as E. pose proof (Z.mod_pos_bound n d Hd) as B.
  set (q := n / d) in *. set (r := n mod d) in *.
  destruct (2 * r <? d) eqn:E1; [apply Z.ltb_lt in E1; lia|]. apply Z.ltb_ge in E1.
  destruct (d <? 2 * r) eqn:E2; [apply Z.ltb_lt in E2; lia|]. apply Z.ltb_ge in E2.
  destruct (Z.even q); lia.
Qed.

Lemma rhe_nonneg n d : 0 < d -> 0 <= n -> 0 <= rhe n d.
Proof.
  intros Hd Hn. unfold rhe. pose proof (Z.div_pos n d Hn Hd).
  destruct (2 * (n mod d) <? d); [lia|]. destruct (d <? 2 * (n mod d)); [lia|]. destruct (Z.even (n / d)); lia.
Qed.

Lemma rhe_exact n d : 0 < d -> n mod d = 0 -> rhe n d = n / d.
Proof. intros Hd H. unfold rhe. rewrite H. assert (E : (2 * 0 <? d) = true) by (apply Z.ltb_lt; lia). now rewrite E. Qed.

Record pct := { num : Z ; den : Z }.       (* num/den percent, den > 0 *)
Inductive width := Pct (p : pct) | Px (n : Z).

(* section.getInnerContentWidth (paddings already resolved to pixels) *)
Definition section_inner (w pl pr : Z) : Z := let e := w - pl - pr in if e <=? 0 then w else e.

(* column.GetWidthAsPixel: the Outlook cell width *)
Definition col_mso_px (inner : Z) (cw : width) : Z :=
  match cw with Pct p => rhe (inner * num p) (den p * 100) | Px n => n end.
(* column.GetEffectiveWidth: int(...) *)
Definition col_int_px (inner : Z) (cw : width) : Z :=
  match cw with Pct p => (inner * num p) / (den p * 100) | Px n => n end.
(* column.calculateEffectiveContentWidth *)
Definition col_content (colpx cpl cpr : Z) : Z := let e := colpx - cpl - cpr in if e <? 0 then colpx else e.
(* image.calculateDefaultWidth / divider *)
Definition fill_width (content pl pr bw : Z) : Z := let a := content - pl - pr - 2 * bw in if a <=? 0 then content else a.

(* wrapper child width: W - horizontal padding - borders *)
Definition wrapper_child (w pl pr bl br : Z) : Z := w - pl - pr - bl - br.

(* ---- theorems ---- *)
(* no box is wider than the content box of its parent *)
Theorem section_inner_le w pl pr : 0 <= pl -> 0 <= pr -> section_inner w pl pr <= w.
Proof. intros. unfold section_inner. destruct (w - pl - pr <=? 0); lia. Qed.
Theorem col_content_le colpx cpl cpr : 0 <= cpl -> 0 <= cpr -> col_content colpx cpl cpr <= colpx.
Proof. intros. unfold col_content. destruct (colpx - cpl - cpr <? 0); lia. Qed.
Theorem fill_width_le content pl pr bw : 0 <= pl -> 0 <= pr -> 0 <= bw -> fill_width content pl pr bw <= content.
Proof. intros. unfold fill_width. destruct (content - pl - pr - 2 * bw <=? 0); lia. Qed.
(* images and dividers without explicit width fill exactly the space left after padding and border *)
Theorem fill_width_exact content pl pr bw : 0 < content - pl - pr - 2 * bw -> fill_width content pl pr bw = content - pl - pr - 2 * bw.
Proof. intros H. unfold fill_width. assert (E : (content - pl - pr - 2 * bw <=? 0) = false) by (apply Z.leb_gt; lia). now rewrite E. Qed.
Theorem wrapper_child_eq w pl pr bl br : wrapper_child w pl pr bl br = w - pl - pr - bl - br.
Proof. reflexivity. Qed.
Theorem col_int_le_inner inner p : 0 <= inner -> 0 < den p -> 0 <= num p -> num p <= 100 * den p -> col_int_px inner (Pct p) <= inner.
Proof.
  intros Hi Hd Hn Hle. cbn. apply Z.div_le_upper_bound; [lia|]. nia.
Qed.

(* the Outlook pixel width of a column is its responsive percentage applied to the section's
   content box, to the nearest pixel *)
Theorem outlook_eq_responsive inner p : 0 <= inner -> 0 < den p -> 0 <= num p ->
  2 * Z.abs (den p * 100 * col_mso_px inner (Pct p) - inner * num p) <= den p * 100.
Proof. intros. cbn. apply rhe_close; nia. Qed.

(* sibling columns whose percentages do not exceed 100 never exceed the box by more than half a
   pixel per column (rounding); when every column's exact width is a whole pixel, never at all *)
Fixpoint sum_px (inner : Z) (ps : list pct) : Z := match ps with [] => 0 | p :: r => col_mso_px inner (Pct p) + sum_px inner r end.
Definition common_den (ps : list pct) : Z := fold_right (fun p acc => den p * acc) 1 ps.
(* sum of percentages as a rational with denominator D = product of dens: numerator *)
Fixpoint sum_num (ps : list pct) : Z * Z :=      (* (numerator, denominator) of the exact sum *)
  match ps with [] => (0, 1) | p :: r => let '(n, d) := sum_num r in (num p * d + n * den p, den p * d) end.

Definition pcts_ok (ps : list pct) : Prop := Forall (fun p => 0 < den p /\ 0 <= num p) ps.

Lemma sum_num_den_pos ps : pcts_ok ps -> 0 < snd (sum_num ps).
Proof. induction 1 as [|p r [Hd Hn] _ IH]; cbn; [lia|]. destruct (sum_num r) as [n d]. cbn in *. nia. Qed.

(* 2 * D * 100 * sum_px <= 2 * inner * N + (number of columns) * D * 100, where N/D is the sum of percentages *)
Theorem sum_bound inner ps : 0 <= inner -> pcts_ok ps ->
  let '(n, d) := sum_num ps in 2 * d * 100 * sum_px inner ps <= 2 * inner * n + Z.of_nat (length ps) * d * 100.
Proof.
  intros Hi H. induction H as [|p r [Hd Hn] Hr IH]; [cbn; lia|].
  cbn [sum_num sum_px length]. pose proof (sum_num_den_pos r Hr) as Hdp. destruct (sum_num r) as [n d]. cbn [snd] in Hdp.
  pose proof (rhe_close (inner * num p) (den p * 100) ltac:(lia) ltac:(nia)) as C.
  change (rhe (inner * num p) (den p * 100)) with (col_mso_px inner (Pct p)) in C.
  set (x := col_mso_px inner (Pct p)) in *. rewrite Nat2Z.inj_succ.
  assert (Cx : 2 * (den p * 100 * x) <= 2 * (inner * num p) + den p * 100) by lia.
  assert (A : d * (2 * (den p * 100 * x)) <= d * (2 * (inner * num p) + den p * 100)) by (apply Z.mul_le_mono_nonneg_l; lia).
  assert (B : den p * (2 * d * 100 * sum_px inner r) <= den p * (2 * inner * n + Z.of_nat (length r) * d * 100)) by (apply Z.mul_le_mono_nonneg_l; lia).
  clearbody x. clear C Cx IH. set (S := sum_px inner r) in *. clearbody S. set (L := Z.of_nat (length r)) in *. clearbody L.
  rewrite <- Z.add_1_r. nia.
Qed.

Theorem sum_exact inner ps : 0 <= inner -> pcts_ok ps -> Forall (fun p => (inner * num p) mod (den p * 100) = 0) ps ->
  let '(n, d) := sum_num ps in d * 100 * sum_px inner ps = inner * n.
Proof.
  intros Hi H Hex. induction H as [|p r [Hd Hn] Hr IH]; [cbn; lia|].
  inversion Hex as [|? ? Hp Hex']; subst. specialize (IH Hex').
  cbn [sum_num sum_px]. destruct (sum_num r) as [n d]. cbn [col_mso_px].
  assert (Hd100 : 0 < den p * 100) by lia.
  rewrite (rhe_exact (inner * num p) (den p * 100) Hd100 Hp).
  pose proof (Z.div_mod (inner * num p) (den p * 100) ltac:(lia)) as E. rewrite Hp in E.
  set (q := inner * num p / (den p * 100)) in *. clearbody q. set (S := sum_px inner r) in *. clearbody S.
  assert (A : d * (inner * num p) = d * (den p * 100 * q)) by (f_equal; lia).
  assert (B : den p * (d * 100 * S) = den p * (inner * n)) by (f_equal; exact IH).
  transitivity (d * (den p * 100 * q) + den p * (d * 100 * S)); [ring|]. rewrite <- A, B. ring.
Qed.

(* the full statement "never more than the box" is false of the code: rounded cells can exceed it *)
Theorem sum_refuted : sum_px 500 [{| num := 100 ; den := 3 |}; {| num := 100 ; den := 3 |}; {| num := 100 ; den := 3 |}] = 501.
Proof. vm_compute. reflexivity. Qed.

(* ---- executable prediction for one section (correspondence) ---- *)
Record colspec := { cw : option width (* None = automatic *) ; cpl : Z ; cpr : Z ; ipl : Z ; ipr : Z ; ibw : Z }.
Definition auto_width (n : Z) : width := Pct {| num := 100 ; den := n |}.
(* (Outlook cell width, default image width) per column *)
Definition predict_section (w spl spr : Z) (cols : list colspec) : list (Z * Z) :=
  let inner := section_inner w spl spr in
  let n := Z.of_nat (length cols) in
  map (fun c => let wd := match cw c with Some x => x | None => auto_width n end in
                (* calculateEffectiveContentWidth starts from the ROUNDED pixel string of GetWidthAsPixel *)
                let colpx := col_mso_px inner wd in
                (colpx, fill_width (col_content colpx (cpl c) (cpr c)) (ipl c) (ipr c) (ibw c))) cols.

(* ---- a group of automatic columns inside a section (group.Render) ----
   group box: pixels as written, or int(inner * percent / 100), or the whole content box; every column's Outlook cell is
   int(group / n); a column resolves its own (automatic) percentage 100/n against the GROUP's box, rounding to the nearest pixel
   (also in a pixel group: the cell is the truncated share, the column's working width the rounded one) *)
Definition group_px (inner : Z) (gw : option width) : Z := match gw with None => inner | Some x => col_int_px inner x end.
Definition group_col_px (g n : Z) : Z := col_mso_px g (auto_width n).
Definition predict_group (inner : Z) (gw : option width) (cols : list colspec) : Z * list (Z * Z) :=
  let g := group_px inner gw in
  let n := Z.of_nat (length cols) in
  (g, map (fun c => (g / n, fill_width (col_content (group_col_px g n) (cpl c) (cpr c)) (ipl c) (ipr c) (ibw c))) cols).

(* a percentage group is never wider than the section's content box *)
Theorem group_le_inner inner p : 0 <= inner -> 0 < den p -> 0 <= num p -> num p <= 100 * den p -> group_px inner (Some (Pct p)) <= inner.
Proof. exact (col_int_le_inner inner p). Qed.
(* the n Outlook cells of a group fit into the group's box *)
Theorem group_cells_fit g n : 0 <= g -> 0 < n -> n * (g / n) <= g.
Proof. intros Hg Hn. apply Z.mul_div_le. lia. Qed.
(* the width a column of a group works with is the group's box divided by n, to the nearest pixel: its content (images, dividers)
   is sized against the group, never against the enclosing section *)
Theorem group_col_close g n : 0 <= g -> 0 < n -> 2 * Z.abs (n * group_col_px g n - g) <= n.
Proof.
  intros Hg Hn. unfold group_col_px.
  pose proof (rhe_close (g * 100) (n * 100) ltac:(lia) ltac:(lia)) as C. cbn [col_mso_px auto_width num den]. lia.
Qed.
(* whatever the paddings, an image or divider of a group column is at most one pixel wider than the column's Outlook cell *)
Theorem group_fill_le_cell g n c : 0 <= g -> 0 < n -> 0 <= cpl c -> 0 <= cpr c -> 0 <= ipl c -> 0 <= ipr c -> 0 <= ibw c ->
  fill_width (col_content (group_col_px g n) (cpl c) (cpr c)) (ipl c) (ipr c) (ibw c) <= g / n + 1.
Proof.
  intros Hg Hn H1 H2 H3 H4 H5.
  pose proof (fill_width_le (col_content (group_col_px g n) (cpl c) (cpr c)) (ipl c) (ipr c) (ibw c) H3 H4 H5) as A.
  pose proof (col_content_le (group_col_px g n) (cpl c) (cpr c) H1 H2) as B.
  pose proof (group_col_close g n Hg Hn) as C.
  pose proof (Z.div_mod g n ltac:(lia)) as E. pose proof (Z.mod_pos_bound g n Hn) as M.
  assert (group_col_px g n <= g / n + 1) by nia. lia.
Qed.
