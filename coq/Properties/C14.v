(* C14 — Cache entries obey a fixed TTL, are evicted, and any configuration is safe. *)
From Coq Require Import List ZArith.
From GV Require Import Cache.Model Cache.Proofs.
Import ListNotations.
Open Scope Z_scope.

Section C14.
  Variables (doc ast err : Type) (hash : doc -> Z) (parse : doc -> ast + err).
  Notation step := (step doc ast err hash parse).
  Notation exec := (exec doc ast err hash parse).

  (* reused for compilations that start before the expiry and never at or after it *)
  Theorem C14_hit_iff_before_expiry : forall s d,
    (exists a, snd (step s (Render d true)) = OAst a false) <->
    (exists e, lookup ast (hash d) (cache ast s) = Some e /\ now ast s < expires ast e).
  Proof. exact (hit_iff_before_expiry doc ast err hash parse). Qed.

  (* hits do not extend the expiry (nor change anything else in the cache) *)
  Theorem C14_hits_dont_extend : forall s d a,
    snd (step s (Render d true)) = OAst a false ->
    cache ast (fst (step s (Render d true))) = cache ast s /\
    exists e, lookup ast (hash d) (cache ast s) = Some e /\ a = node ast e.
  Proof. exact (hits_dont_extend doc ast err hash parse). Qed.

  (* at or after expiry: parsed again and re-cached, expiry = store time + configured TTL *)
  Theorem C14_reparse_at_or_after_expiry : forall s d e,
    lookup ast (hash d) (cache ast s) = Some e -> expires ast e <= now ast s ->
    match parse d with
    | inl a => snd (step s (Render d true)) = OAst a true /\
               exists e', lookup ast (hash d) (cache ast (fst (step s (Render d true)))) = Some e' /\
                          node ast e' = a /\ expires ast e' = now ast s + ttl ast s
    | inr x => snd (step s (Render d true)) = OErr x /\
               lookup ast (hash d) (cache ast (fst (step s (Render d true)))) = None
    end.
  Proof. exact (reparse_at_or_after_expiry doc ast err hash parse). Qed.

  (* expired entries are removed within one cleanup interval: in every reachable state whose
     cleaner has been running for at least one period, every stored entry either expires
     later than now - period or was stored later than now - period *)
  Theorem C14_eviction_bound : forall t0 h c, let s := exec (init ast t0) h in
    cl ast s = Some c -> every c <= now ast s - started c ->
    forall k e, In (k, e) (cache ast s) ->
      now ast s - every c < expires ast e \/ now ast s - every c < stored ast e.
  Proof. exact (eviction_bound doc ast err hash parse). Qed.

  (* once-only setters: first call only; the interval follows TTL/2 until set explicitly *)
  Theorem C14_ttl_first_call_only : forall s d,
    ttl ast (fst (step s (SetTTL d))) = (if ttl_once ast s then ttl ast s else d) /\
    ttl_once ast (fst (step s (SetTTL d))) = true.
  Proof. exact (ttl_first_call_only doc ast err hash parse). Qed.
  Theorem C14_interval_first_call_only : forall s d,
    interval ast (fst (step s (SetInterval d))) = (if int_once ast s then interval ast s else d) /\
    int_once ast (fst (step s (SetInterval d))) = true.
  Proof. exact (interval_first_call_only doc ast err hash parse). Qed.
  Theorem C14_ttl_once_forever : forall h s, ttl_once ast s = true -> ttl ast (exec s h) = ttl ast s.
  Proof. exact (ttl_once_forever doc ast err hash parse). Qed.
  Theorem C14_interval_once_forever : forall h s, int_once ast s = true -> interval ast (exec s h) = interval ast s.
  Proof. exact (interval_once_forever doc ast err hash parse). Qed.
  Theorem C14_ttl_sets_default_interval : forall s d, ttl_once ast s = false ->
    interval ast (fst (step s (SetTTL d))) = (if int_once ast s then interval ast s else Z.quot d 2) /\
    int_once ast (fst (step s (SetTTL d))) = int_once ast s.
  Proof. exact (ttl_sets_default_interval doc ast err hash parse). Qed.

  (* no duration value can crash the process: the ticker period of a running cleaner is
     positive in every reachable state, for every history including every setter value *)
  Theorem C14_safe_config : forall t0 h c, cl ast (exec (init ast t0) h) = Some c -> 0 < every c.
  Proof. exact (safe_config doc ast err hash parse). Qed.

  Theorem C14_stop_then_restart : forall s d, running ast (fst (step s Stop)) = false /\
    running ast (fst (step (fst (step s Stop)) (Render d true))) = true.
  Proof. exact (stop_then_restart doc ast err hash parse). Qed.
End C14.

(* non-vacuity: eviction within one interval; boundary configurations *)
Example C14_eviction_nonvacuous :
  let parse := fun d : Z => inl d : Z + unit in
  let s := exec Z Z unit (fun d => d) parse (init Z 0)
             [SetTTL minute; SetInterval (10 * minute); Render 1 true; Advance (9 * minute);
              Render 2 true; Advance (2 * minute)] in
  keys Z s = [2] /\ running Z s = true.
Proof. vm_compute. split; reflexivity. Qed.

Example C14_zero_ttl_nonvacuous :
  let parse := fun d : Z => inl d : Z + unit in
  run Z Z unit (fun d => d) parse (init Z 0) [SetTTL 1; Render 1 true; Render 1 true; Advance 1; Tick; Render 1 true]
  = [ONone; OAst 1 true; OAst 1 false; ONone; ONone; OAst 1 true].
Proof. vm_compute. reflexivity. Qed.

Print Assumptions C14_hit_iff_before_expiry.
Print Assumptions C14_hits_dont_extend.
Print Assumptions C14_reparse_at_or_after_expiry.
Print Assumptions C14_eviction_bound.
Print Assumptions C14_ttl_once_forever.
Print Assumptions C14_interval_once_forever.
Print Assumptions C14_safe_config.
