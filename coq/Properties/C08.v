(* C08 — Results do not depend on call history; all API paths agree. *)
From Coq Require Import List String Bool NArith.
From GV Require Attr.Steps Norm.ClassOrder Base.Bytes.
From GV Require Import Attr.Paths Facts.Paths.
Import ListNotations.
Open Scope string_scope.

(* recomputed facts: every exported function of package mjml that builds components installs the
   per-render store first; every use of the process-wide getters is a guarded fallback *)
Theorem C08_entries_install_store : forallb (fun e => snd e) entry_points = true /\
  forallb (fun n => existsb (fun e => String.eqb (fst e) n) entry_points) ["RenderWithAST"; "RenderFromAST"; "NewFromAST"] = true.
Proof. split; vm_compute; reflexivity. Qed.

Theorem C08_legacy_getters_guarded : forallb (fun s => match s with (_, _, _, g) => g end) legacy_getter_sites = true.
Proof. vm_compute. reflexivity. Qed.

Section C08.
  Variables (doc glob html : Type) (collect : doc -> glob) (empty : glob) (render : glob -> doc -> html) (reorder : html -> html).

  Theorem C08_history_free : forall G G' d,
    fst (render_one_shot doc glob html collect empty render reorder G d) = fst (render_one_shot doc glob html collect empty render reorder G' d).
  Proof. exact (one_shot_history_free doc glob html collect empty render reorder). Qed.

  Theorem C08_every_call_as_if_first : forall calls G G0,
    run doc glob html collect empty render reorder G calls =
    map (fun d => fst (render_one_shot doc glob html collect empty render reorder G0 d)) calls.
  Proof. exact (every_call_as_if_first doc glob html collect empty render reorder). Qed.

  Theorem C08_paths_agree : forall G G' G'' d,
    fst (render_one_shot doc glob html collect empty render reorder G d) = reorder (fst (render_from_ast doc glob html collect empty render G' d)) /\
    fst (render_one_shot doc glob html collect empty render reorder G d) = reorder (fst (new_from_ast_then_render doc glob html collect empty render G'' d)).
  Proof. exact (paths_agree doc glob html collect empty render reorder). Qed.
End C08.

(* ---- step-by-step API: build a tree now, render it later, anything in between ---- *)
Section C08_steps.
  Variables (doc glob html : Type) (collect : doc -> glob) (empty : glob) (render : glob -> doc -> html) (reorder : html -> html).
  Notation run := (Attr.Steps.run doc glob html collect empty render reorder true).
  Notation references := (Attr.Steps.references doc glob html collect render reorder).

  (* every output of every operation history = the same request made first in a fresh process *)
  Theorem C08_every_step_as_if_first : forall h, run (Attr.Steps.fresh doc glob) h = references [] h.
  Proof. exact (Attr.Steps.fresh_history doc glob html collect empty render reorder true eq_refl). Qed.

  (* a tree renders as its own document does, whatever is compiled between building and rendering it *)
  Theorem C08_tree_renders_as_its_document : forall d between,
    last (run (Attr.Steps.fresh doc glob) (Attr.Steps.New doc d :: between ++ [Attr.Steps.RenderTree doc 0])) None = Some (render (collect d) d).
  Proof. exact (Attr.Steps.tree_renders_as_its_document doc glob html collect empty render reorder true eq_refl). Qed.
End C08_steps.

(* ---- the class-order rewrite that distinguishes the one-shot path (byte-level port) ---- *)
Theorem C08_class_order_rewrite_permutes_bytes : forall s,
  Norm.ClassOrder.closed (List.length s) s = true -> Permutation.Permutation (Norm.ClassOrder.normalize s) s.
Proof. exact Norm.ClassOrder.normalize_perm. Qed.
Theorem C08_class_order_rewrite_identity_without_trigger : forall s,
  Base.Bytes.contains Norm.ClassOrder.trigger s = false -> Norm.ClassOrder.normalize s = s.
Proof. exact Norm.ClassOrder.normalize_id_without_trigger. Qed.

Print Assumptions C08_entries_install_store.
Print Assumptions C08_legacy_getters_guarded.
Print Assumptions C08_history_free.
Print Assumptions C08_every_call_as_if_first.
Print Assumptions C08_paths_agree.
Print Assumptions C08_every_step_as_if_first.
Print Assumptions C08_tree_renders_as_its_document.
Print Assumptions C08_class_order_rewrite_permutes_bytes.
