(* C08 — Results do not depend on call history; all API paths agree. *)
From Coq Require Import List String Bool NArith.
From GV Require Import Attr.Paths Facts.Paths.
Import ListNotations.
Open Scope string_scope.

(* recomputed facts: every exported function of package mjml that builds components installs the
   per-render store first; every use of the process-wide getters is a guarded fallback *)
Theorem C08_entries_install_store : forallb (fun e => snd e) entry_points = true /\
  forallb (fun n => existsb (fun e => String.eqb (fst e) n) entry_points) ["RenderWithAST"; "RenderFromAST"; "NewFromAST"] = true.
Proof. split; vm_compute; reflexivity. Qed.

Theorem C08_legacy_getters_guarded : forallb (fun s => match s with (_, _, _, g) => g end) legacy_getter_sites = true.
Proof. vm_compute. reflexivity. Qed.

Section C08.
  Variables (doc glob html : Type) (collect : doc -> glob) (empty : glob) (render : glob -> doc -> html) (reorder : html -> html).

  Theorem C08_history_free : forall G G' d,
    fst (render_one_shot doc glob html collect empty render reorder G d) = fst (render_one_shot doc glob html collect empty render reorder G' d).
  Proof. exact (one_shot_history_free doc glob html collect empty render reorder). Qed.

  Theorem C08_every_call_as_if_first : forall calls G G0,
    run doc glob html collect empty render reorder G calls =
    map (fun d => fst (render_one_shot doc glob html collect empty render reorder G0 d)) calls.
  Proof. exact (every_call_as_if_first doc glob html collect empty render reorder). Qed.

  Theorem C08_paths_agree : forall G G' G'' d,
    fst (render_one_shot doc glob html collect empty render reorder G d) = reorder (fst (render_from_ast doc glob html collect empty render G' d)) /\
    fst (render_one_shot doc glob html collect empty render reorder G d) = reorder (fst (new_from_ast_then_render doc glob html collect empty render G'' d)).
  Proof. exact (paths_agree doc glob html collect empty render reorder). Qed.
End C08.

Print Assumptions C08_entries_install_store.
Print Assumptions C08_legacy_getters_guarded.
Print Assumptions C08_history_free.
Print Assumptions C08_every_call_as_if_first.
Print Assumptions C08_paths_agree.
