(* C03 — Output is well-formed for Outlook (conditional content balanced): the second reading of
   the same token stream (Outlook blocks spliced in, not-Outlook blocks dropped). *)
From Coq Require Import List Bool.
From Coq.Strings Require Import String.
Open Scope string_scope.
From GV Require Skel.Emit.
From GV Require Import Base.Bytes Base.Tok Skel.Compose.
Import ListNotations.

Theorem C03_checker_sound : forall ts, check_view Mso ts = true -> ok_frag Mso ts.
Proof. exact (check_view_ok Mso). Qed.

(* ghost tables wrap exactly the block they were opened for: a block that is well-formed on its
   own in the Outlook reading stays so next to any other blocks, and merging seams (which only
   removes delimiters) does not change what Outlook sees *)
Theorem C03_body_wellformed : forall bs ts, Forall (ok_frag Mso) bs -> merges (List.concat bs) ts -> ok_frag Mso ts.
Proof. exact (body_ok Mso). Qed.
(* the same with the premise weakened to what the readings can see: the observed body is a seam-merge of the blocks' own
   bodies up to the attributes of start tags (a block may write other attributes depending on its neighbours) *)
Theorem C03_body_wellformed_modulo_attributes : forall bs ts, Forall (ok_frag Mso) bs ->
  merges (map strip_attrs (List.concat bs)) (map strip_attrs ts) -> ok_frag Mso ts.
Proof. exact (body_ok_modulo_attrs Mso). Qed.

Theorem C03_merging_seams_keeps_outlook_view : forall ts ts', merges ts ts' -> forall st r, view Mso st ts = Some r -> view Mso st ts' = Some r.
Proof. exact (merges_preserve_view Mso). Qed.

Theorem C03_fill_hole : forall a h b, ok_frag Mso (a ++ b) -> (exists ea, view Mso Closed a = Some (ea, Closed)) -> ok_frag Mso h ->
  ok_frag Mso (a ++ h ++ b).
Proof. exact (fill_hole Mso). Qed.

(* an element opened in one Outlook block and closed by a later one is balanced; closed twice is not *)
Example C03_ghost_table_examples :
  check_view Mso (lex (lit "<!--[if mso | IE]><table><tr><td><![endif]--><div>x</div><!--[if mso | IE]></td></tr></table><![endif]-->")) = true /\
  check_view Mso (lex (lit "<!--[if mso | IE]><table><tr><td><![endif]--><div>x</div><!--[if mso | IE]></td></tr></table></table><![endif]-->")) = false /\
  check_view Mso (lex (lit "<!--[if mso | IE]><table><tr><td><![endif]--><div>x</div><!--[if mso | IE]></td></tr><![endif]-->")) = false.
Proof. repeat split; vm_compute; reflexivity. Qed.

(* ---- unconditional for the modelled core of the grammar ----------------------------------
   Skel/Emit.v is a hand port of what body / section (plain, full-width) / wrapper / group / column
   and the leaves text, divider, spacer, image, button write (attributes and text erased; tied to
   the code by token-for-token comparison with erased real outputs on every run).  For EVERY document
   of that grammar - any number and nesting of blocks, sections, groups, columns and leaves, every
   hand-over of the Outlook wrapper table between consecutive blocks - the Outlook reading is
   well-formed.  No premise about observed outputs. *)
Theorem C03_core_grammar_wellformed : forall b : Skel.Emit.body, ok_frag Mso (Skel.Emit.emit_body b).
Proof. exact (Skel.Emit.emit_body_ok Mso). Qed.

(* how Outlook-only markup is cut into conditional comments is invisible to the reading: the tie compares streams modulo this *)
Theorem C03_conditional_segmentation_invisible : forall ts, ok_frag Mso ts -> ok_frag Mso (Skel.Emit.squash ts).
Proof. exact (Skel.Emit.squash_ok Mso). Qed.

Print Assumptions C03_checker_sound.
Print Assumptions C03_body_wellformed.
Print Assumptions C03_merging_seams_keeps_outlook_view.
Print Assumptions C03_fill_hole.
Print Assumptions C03_core_grammar_wellformed.
Print Assumptions C03_body_wellformed_modulo_attributes.
