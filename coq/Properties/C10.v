(* C10 — Width flow: boxes nest and Outlook pixel widths match the responsive layout. *)
From Coq Require Import ZArith List Bool.
From GV Require Import Width.Model.
Import ListNotations.
Open Scope Z_scope.

(* no element is given a width larger than the content box of its parent *)
Theorem C10_section_inner_le : forall w pl pr, 0 <= pl -> 0 <= pr -> section_inner w pl pr <= w.
Proof. exact section_inner_le. Qed.
Theorem C10_column_le_section : forall inner p, 0 <= inner -> 0 < den p -> 0 <= num p -> num p <= 100 * den p -> col_int_px inner (Pct p) <= inner.
Proof. exact col_int_le_inner. Qed.
Theorem C10_content_le_column : forall colpx cpl cpr, 0 <= cpl -> 0 <= cpr -> col_content colpx cpl cpr <= colpx.
Proof. exact col_content_le. Qed.
Theorem C10_fill_le_content : forall content pl pr bw, 0 <= pl -> 0 <= pr -> 0 <= bw -> fill_width content pl pr bw <= content.
Proof. exact fill_width_le. Qed.

(* images and dividers without explicit width fill exactly the space left after padding *)
Theorem C10_fill_exact : forall content pl pr bw, 0 < content - pl - pr - 2 * bw -> fill_width content pl pr bw = content - pl - pr - 2 * bw.
Proof. exact fill_width_exact. Qed.

(* a block inside a wrapper: wrapper width minus horizontal padding and borders *)
Theorem C10_wrapper_child : forall w pl pr bl br, wrapper_child w pl pr bl br = w - pl - pr - bl - br.
Proof. exact wrapper_child_eq. Qed.

(* the Outlook pixel width of a column is its percentage of the section's content box, to the nearest pixel *)
Theorem C10_outlook_eq_responsive : forall inner p, 0 <= inner -> 0 < den p -> 0 <= num p ->
  2 * Z.abs (den p * 100 * col_mso_px inner (Pct p) - inner * num p) <= den p * 100.
Proof. exact outlook_eq_responsive. Qed.

(* sibling columns: at most half a pixel per column over the exact sum; exact when the exact widths are whole pixels *)
Theorem C10_sum_partial : forall inner ps, 0 <= inner -> pcts_ok ps ->
  let '(n, d) := sum_num ps in 2 * d * 100 * sum_px inner ps <= 2 * inner * n + Z.of_nat (length ps) * d * 100.
Proof. exact sum_bound. Qed.
Theorem C10_sum_exact : forall inner ps, 0 <= inner -> pcts_ok ps -> Forall (fun p => (inner * num p) mod (den p * 100) = 0) ps ->
  let '(n, d) := sum_num ps in d * 100 * sum_px inner ps = inner * n.
Proof. exact sum_exact. Qed.

(* groups: the group's box nests in the section's content box, its Outlook cells fit into it, and what a group column hands to its
   images and dividers is derived from the GROUP's box (to the nearest pixel), whatever the group's own width is *)
Theorem C10_group_le_section : forall inner p, 0 <= inner -> 0 < den p -> 0 <= num p -> num p <= 100 * den p -> group_px inner (Some (Pct p)) <= inner.
Proof. exact group_le_inner. Qed.
Theorem C10_group_cells_fit : forall g n, 0 <= g -> 0 < n -> n * (g / n) <= g.
Proof. exact group_cells_fit. Qed.
Theorem C10_group_column_follows_group : forall g n, 0 <= g -> 0 < n -> 2 * Z.abs (n * group_col_px g n - g) <= n.
Proof. exact group_col_close. Qed.
Theorem C10_group_fill_le_cell : forall g n c, 0 <= g -> 0 < n -> 0 <= cpl c -> 0 <= cpr c -> 0 <= ipl c -> 0 <= ipr c -> 0 <= ibw c ->
  fill_width (col_content (group_col_px g n) (cpl c) (cpr c)) (ipl c) (ipr c) (ibw c) <= g / n + 1.
Proof. exact group_fill_le_cell. Qed.

(* full statement "sibling columns never sum to more than the box" refuted: 3 automatic columns in 500 px *)
Theorem C10_sum_refuted : sum_px 500 [{| num := 100 ; den := 3 |}; {| num := 100 ; den := 3 |}; {| num := 100 ; den := 3 |}] = 501.
Proof. exact sum_refuted. Qed.

Example C10_nonvacuous :
  predict_section 500 20 20 [ {| cw := None ; cpl := 0 ; cpr := 0 ; ipl := 25 ; ipr := 25 ; ibw := 0 |} ;
                              {| cw := Some (Pct {| num := 40 ; den := 1 |}) ; cpl := 15 ; cpr := 15 ; ipl := 0 ; ipr := 0 ; ibw := 0 |} ;
                              {| cw := Some (Px 100) ; cpl := 0 ; cpr := 0 ; ipl := 25 ; ipr := 25 ; ibw := 0 |} ]
  = [(153, 103); (184, 154); (100, 50)].
Proof. vm_compute. reflexivity. Qed.

Print Assumptions C10_outlook_eq_responsive.
Print Assumptions C10_sum_partial.
Print Assumptions C10_sum_exact.
Print Assumptions C10_sum_refuted.
Print Assumptions C10_group_column_follows_group.
Print Assumptions C10_group_fill_le_cell.
