(* C09 — Attribute values resolve by MJML precedence, independent of source. *)
From Coq Require Import List String Ascii Bool NArith.
From GV Require Attr.Store Attr.Color.
From GV Require Import Attr.Resolve Facts.Accessors Facts.KnownBad.
Import ListNotations.
Open Scope string_scope.

Section C09.
  Variable norm : string -> string -> string.
  Hypothesis norm_empty : forall a, norm a "" = "".
  Hypothesis norm_nonempty : forall a v, v <> "" -> norm a v <> "".

  (* the resolver used by GetAttributeWithDefault / GetAttributeFast is the precedence rule *)
  Theorem C09_resolver_is_precedence : forall s a, no_empty_tagdef s -> acc norm Attr.Resolve.Full s a = spec norm s a.
  Proof. exact (resolve_full norm norm_empty norm_nonempty). Qed.

  (* hence what it delivers depends on the winning value only *)
  Theorem C09_moving_sources : forall s s' a, no_empty_tagdef s -> no_empty_tagdef s' -> spec norm s a = spec norm s' a ->
    forall k, k = Attr.Resolve.Full \/ k = Attr.Resolve.Fast -> acc norm k s a = acc norm k s' a.
  Proof. exact (moving_sources norm norm_empty norm_nonempty). Qed.

  (* the two bypassing accessor kinds are NOT the rule: full statement refuted for them *)
  Theorem C09_noglobal_refuted : forall a v, v <> "" -> norm a v = v ->
    let s := {| elem := fun _ => None ; classes := [] ; tagdef := fun x => if String.eqb x a then Some v else None ;
                alldef := fun _ => None ; builtin := fun _ => "" |} in
    spec norm s a = v /\ acc norm Attr.Resolve.NoGlobal s a = "".
  Proof. exact (noglobal_ignores_tag_default norm norm_empty). Qed.
  Theorem C09_nodeonly_refuted : forall a v, v <> "" -> norm a v = v ->
    let s := {| elem := fun _ => None ; classes := [fun x => if String.eqb x a then Some v else None] ; tagdef := fun _ => None ;
                alldef := fun _ => None ; builtin := fun _ => "" |} in
    spec norm s a = v /\ acc norm Attr.Resolve.NodeOnly s a = "".
  Proof. exact (nodeonly_ignores_class norm norm_empty). Qed.
End C09.

(* the same two theorems for the normalisation the code really applies (Attr/Color.v: #rgb -> #rrggbb for
   attributes whose name contains "color", tied to normalizeAttributeValue on every run): no hypotheses left *)
Theorem C09_resolver_is_precedence_concrete : forall s a, no_empty_tagdef s ->
  acc Attr.Color.norm Attr.Resolve.Full s a = spec Attr.Color.norm s a.
Proof. exact (C09_resolver_is_precedence Attr.Color.norm Attr.Color.norm_empty Attr.Color.norm_nonempty). Qed.
Theorem C09_moving_sources_concrete : forall s s' a, no_empty_tagdef s -> no_empty_tagdef s' ->
  spec Attr.Color.norm s a = spec Attr.Color.norm s' a ->
  forall k, k = Attr.Resolve.Full \/ k = Attr.Resolve.Fast -> acc Attr.Color.norm k s a = acc Attr.Color.norm k s' a.
Proof. exact (C09_moving_sources Attr.Color.norm Attr.Color.norm_empty Attr.Color.norm_nonempty). Qed.
(* the normalisation itself: idempotent, never produces or removes the empty value, doubles each digit of #rgb *)
Theorem C09_normalisation_idempotent : forall a v, Attr.Color.norm a (Attr.Color.norm a v) = Attr.Color.norm a v.
Proof. exact Attr.Color.norm_idem. Qed.
Theorem C09_normalisation_expands_short_hex : forall r g b, Attr.Color.is_hex r = true -> Attr.Color.is_hex g = true -> Attr.Color.is_hex b = true ->
  Attr.Color.norm "background-color" (String "#"%char (String r (String g (String b ""))))
  = String "#"%char (String r (String r (String g (String g (String b (String b "")))))).
Proof. exact Attr.Color.norm_expands. Qed.

(* recomputed on every run over the accessor call sites extracted from the source: every read of a
   (component, attribute) through a bypassing accessor concerns a cell that is listed (known
   finding, or listed as without observable effect); any new bypassing read breaks this *)
Definition tag_of (comp : string) : string :=
  match find (fun p => String.eqb (fst p) comp) comp_tags with Some p => snd p | None => comp end.
Definition bypassing (s : acc_site) : bool := match as_kind s with NoGlobal | NodeOnly => true | _ => false end.
Definition listed (s : acc_site) : bool :=
  existsb (fun c => String.eqb (fst c) (tag_of (as_comp s)) && String.eqb (snd c) (as_attr s)) listed_cells.

(* sites inside generic helpers of BaseComponent (no tag of their own) are reached through the per-component wrappers counted above *)
Definition has_tag (comp : string) : bool := existsb (fun p => String.eqb (fst p) comp) comp_tags.
Theorem C09_bypass_cells_listed :
  forallb (fun s => negb (bypassing s) || listed s || String.eqb (as_attr s) "?" || negb (has_tag (as_comp s))) acc_sites = true.
Proof. vm_compute. reflexivity. Qed.

(* attribute names that are not compile-time constants only occur inside the accessor wrappers *)
Theorem C09_dynamic_names_bounded : Nat.leb (List.length (filter (fun s => String.eqb (as_attr s) "?") acc_sites)) 3 = true.
Proof. vm_compute. reflexivity. Qed.

Example C09_nonvacuous :
  let norm := fun (_ v : string) => v in
  let s := {| elem := fun _ => None ; classes := [fun a => if String.eqb a "color" then Some "red" else None;
                                                   fun a => if String.eqb a "color" then Some "blue" else None] ;
              tagdef := fun a => if String.eqb a "color" then Some "green" else None ;
              alldef := fun a => if String.eqb a "padding" then Some "1px" else None ; builtin := fun _ => "dflt" |} in
  acc norm Attr.Resolve.Full s "color" = "blue" /\ acc norm Attr.Resolve.Full s "padding" = "1px" /\ acc norm Attr.Resolve.Full s "x" = "dflt" /\
  acc norm Attr.Resolve.NoGlobal s "padding" = "".
Proof. vm_compute. repeat split; reflexivity. Qed.

(* ---- the attribute store: what the sources of the resolver are, as a function of the head ---- *)
(* every look-up yields the last definition in document order, over all <mj-attributes> blocks *)
Theorem C09_tag_default_is_last_definition : forall es t a,
  Attr.Store.tag_get (Attr.Store.process es) t a = Attr.Store.last_assoc (flat_map (Attr.Store.defs_tag t) es) a.
Proof. exact Attr.Store.tag_lookup_is_last_definition. Qed.
Theorem C09_all_default_is_last_definition : forall es a,
  Attr.Store.all_get (Attr.Store.process es) a = Attr.Store.last_assoc (flat_map Attr.Store.defs_all es) a.
Proof. exact Attr.Store.all_lookup_is_last_definition. Qed.
Theorem C09_class_definition_is_last_definition : forall es c a,
  Attr.Store.class_get (Attr.Store.process es) c a = Attr.Store.last_assoc (flat_map (Attr.Store.defs_class c) es) a.
Proof. exact Attr.Store.class_lookup_is_last_definition. Qed.
(* a later entry for the same tag leaves what it does not mention alone *)
Theorem C09_later_entry_keeps_unmentioned : forall es t x a, Attr.Store.last_assoc x a = None ->
  Attr.Store.tag_get (Attr.Store.process (es ++ [Attr.Store.ETag t x])) t a = Attr.Store.tag_get (Attr.Store.process es) t a.
Proof. exact Attr.Store.later_entry_keeps_unmentioned. Qed.
(* among the classes an element names, the later one wins; one that is silent keeps the earlier value *)
Theorem C09_later_class_wins : forall s names n a v, Attr.Store.class_get s n a = Some v ->
  Attr.Store.comp_class_attr s (names ++ [n]) a = Some v.
Proof. exact Attr.Store.later_class_wins. Qed.
Theorem C09_silent_class_keeps_earlier : forall s names n a, Attr.Store.class_get s n a = None ->
  Attr.Store.comp_class_attr s (names ++ [n]) a = Attr.Store.comp_class_attr s names a.
Proof. exact Attr.Store.silent_class_keeps_earlier. Qed.

Print Assumptions C09_resolver_is_precedence.
Print Assumptions C09_moving_sources.
Print Assumptions C09_bypass_cells_listed.
Print Assumptions C09_tag_default_is_last_definition.
Print Assumptions C09_class_definition_is_last_definition.
Print Assumptions C09_later_class_wins.
Print Assumptions C09_resolver_is_precedence_concrete.
Print Assumptions C09_moving_sources_concrete.
