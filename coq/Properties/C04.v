(* C04 — Content fidelity: author content appears once, in order, as authored.
   What a standard client displays is Base.Tok.view_texts Std.  The theorems show how that text
   sequence composes (so that "once, in document order" for fragments gives it for documents), that
   Outlook-only blocks never show text to standard clients, and exhibit - by computation on the
   parser and factory models - the two places where the full statement is false of the code. *)
From Coq Require Import List Bool NArith.
From Coq.Strings Require Import String Byte.
From GV Require Skel.Emit.
From GV Require Import Base.Bytes Base.Tok Skel.Compose Parser.Pre Valid.Model Facts.ParserConsts Facts.Factory.
Import ListNotations.
Open Scope string_scope.
Open Scope list_scope.

Definition texts (es : list ev) : list bytes := flat_map (fun e => match e with EText s => [s] | _ => [] end) es.

Lemma texts_app a b : texts (a ++ b) = texts a ++ texts b.
Proof. unfold texts. apply flat_map_app. Qed.

(* the text of two fragments next to each other is the text of the first followed by the text of
   the second: nothing lost, duplicated or reordered by composition *)
Theorem C04_texts_compose : forall v a b ea eb, view v Closed a = Some (ea, Closed) -> view v Closed b = Some (eb, Closed) ->
  view_texts v (a ++ b) = Some (texts ea ++ texts eb).
Proof.
  intros v a b ea eb Ha Hb. unfold view_texts. rewrite view_app, Ha, Hb. now rewrite <- texts_app.
Qed.

(* merging Outlook seams changes no text in either reading *)
Theorem C04_merging_keeps_texts : forall v ts ts', merges ts ts' -> forall r, view v Closed ts = Some r ->
  view_texts v ts' = view_texts v ts.
Proof. intros v ts ts' Hm r Hv. unfold view_texts. rewrite (merges_preserve_view v ts ts' Hm Closed r Hv), Hv. reflexivity. Qed.
Theorem C04_merging_keeps_texts_modulo_attributes : forall v ts ts', merges (map strip_attrs ts) (map strip_attrs ts') ->
  forall r, view v Closed ts = Some r -> view_texts v ts' = view_texts v ts.
Proof.
  intros v ts ts' Hm r Hv. unfold view_texts.
  rewrite (merges_preserve_view_modulo_attrs v ts ts' Hm Closed r Hv), Hv. reflexivity.
Qed.

(* a child inserted where no comment is open contributes its text exactly at that position *)
Theorem C04_child_text_in_place : forall v a h b ea eh eb,
  view v Closed a = Some (ea, Closed) -> view v Closed h = Some (eh, Closed) -> view v Closed b = Some (eb, Closed) ->
  view_texts v (a ++ h ++ b) = Some (texts ea ++ texts eh ++ texts eb).
Proof.
  intros v a h b ea eh eb Ha Hh Hb. unfold view_texts. rewrite view_app, Ha, view_app, Hh, Hb. now rewrite !texts_app.
Qed.

(* text inside an Outlook-only block is never displayed by standard clients *)
Theorem C04_mso_only_text_invisible : forall c inner,
  (forall t, In t inner -> match t with TMsoOpen _ | TMsoEnd | TNotMsoOpen _ | TNotMsoEnd | TCmt _ => False | _ => True end) ->
  view_texts Std (TMsoOpen c :: inner ++ [TMsoEnd]) = Some [].
Proof. intros c inner H. unfold view_texts. now rewrite (mso_block_invisible_std c inner H). Qed.

(* full statement refuted (1): character data spelled with escaped markup does not stay character
   data - &lt;b&gt; is rewritten to a real tag before the XML layer sees it *)
Theorem C04_chardata_stays_chardata_refuted :
  preprocess named_entities entity_table void_names (lit "<mjml><mj-text>1 &lt;b&gt; 2</mj-text></mjml>") =
  Some (lit "<mjml><mj-text><![CDATA[1 <b> 2]]></mj-text></mjml>").
Proof. vm_compute. reflexivity. Qed.

(* full statement refuted (2): a structurally valid document loses content silently - the factory never
   constructs the children of a social / navbar / accordion component placed inside mj-hero *)
Definition hero_doc :=
  T "mjml" [] 1%N [T "mj-body" [] 1%N [T "mj-hero" [] 1%N [T "mj-social" [] 1%N [T "mj-social-element" [("name", "facebook")] 1%N []];
                                                           T "mj-text" [] 1%N []]]].
Theorem C04_render_or_error_refuted :
  map ttag (constructed factory_tags hero_doc) = ["mjml"; "mj-body"; "mj-hero"; "mj-social"; "mj-text"].
Proof. vm_compute. reflexivity. Qed.

Example C04_nonvacuous :
  view_texts Std (lex (lit "<div>S1X<!--[if mso | IE]><td>ghost<![endif]--><p>S2X</p><!--[if !mso]><!--><i>S3X</i><!--<![endif]--></div>"))
  = Some [lit "S1X"; lit "S2X"; lit "S3X"] /\
  view_texts Mso (lex (lit "<div>S1X<!--[if mso | IE]><td>ghost<![endif]--><p>S2X</p><!--[if !mso]><!--><i>S3X</i><!--<![endif]--></div>"))
  = Some [lit "S1X"; lit "ghost"; lit "S2X"].
Proof. split; vm_compute; reflexivity. Qed.

(* ---- unconditional for the modelled core of the grammar (Skel/Emit.v) ----------------------
   For EVERY document of that grammar a standard client shows exactly the author's content of the
   text and button leaves (and the spacers' generated hair spaces), each once and in document
   order; Outlook shows the same plus the dividers' generated spaces: no author content is lost,
   duplicated, reordered or visible to Outlook only. *)
Theorem C04_core_grammar_texts : forall v (b : Skel.Emit.body),
  view_texts v (Skel.Emit.emit_body b) = Some (Skel.Emit.body_texts v b).
Proof. exact Skel.Emit.emit_body_texts. Qed.
Theorem C04_core_grammar_nothing_outlook_only : forall s (b : Skel.Emit.body),
  Base.Bytes.prefix (lit "S") s = true -> In s (Skel.Emit.body_texts Mso b) -> In s (Skel.Emit.body_texts Std b).
Proof.
  intros s b Hs. unfold Skel.Emit.body_texts. rewrite !in_flat_map. intros [bl [Hb H]]. exists bl. split; [exact Hb|].
  assert (L : forall k, In s (Skel.Emit.leaf_texts Mso k) -> In s (Skel.Emit.leaf_texts Std k)).
  { intros k. destruct k; cbn; auto. intros [E|[]]. subst s. vm_compute in Hs. discriminate. }
  assert (R : forall ks, In s (flat_map (Skel.Emit.leaf_texts Mso) ks) -> In s (flat_map (Skel.Emit.leaf_texts Std) ks)).
  { intros ks. rewrite !in_flat_map. intros [k [Hk H1]]. exists k. split; [exact Hk|now apply L]. }
  assert (I : forall i, In s (Skel.Emit.item_texts Mso i) -> In s (Skel.Emit.item_texts Std i)).
  { intros i. destruct i as [cl|ts]; cbn [Skel.Emit.item_texts]; [apply R|auto]. }
  assert (C : forall cs, In s (Skel.Emit.cols_texts Mso cs) -> In s (Skel.Emit.cols_texts Std cs)).
  { intros cs. unfold Skel.Emit.cols_texts. rewrite !in_flat_map. intros [c0 [Hc H0]]. exists c0. split; [exact Hc|now apply I]. }
  assert (S : forall sc, In s (Skel.Emit.sec_texts Mso sc) -> In s (Skel.Emit.sec_texts Std sc)).
  { intros sc. destruct sc as [cs|gs|ms]; cbn [Skel.Emit.sec_texts]; [apply C| |].
    - rewrite !in_flat_map. intros [g [Hg H0]]. exists g. split; [exact Hg|now apply C].
    - rewrite !in_flat_map. intros [m [Hm H0]]. exists m. split; [exact Hm|].
      destruct m as [cl|ts|g]; cbn [Skel.Emit.mitem_texts] in *; [now apply R|assumption|now apply C]. }
  assert (W : forall ws, In s (flat_map (Skel.Emit.witem_texts Mso) ws) -> In s (flat_map (Skel.Emit.witem_texts Std) ws)).
  { intros ws. rewrite !in_flat_map. intros [wi [Hwi H0]]. exists wi. split; [exact Hwi|].
    destruct wi as [sc|ts]; cbn [Skel.Emit.witem_texts] in *; [now apply S|assumption]. }
  destruct bl as [sc|sc|ss|ss|ks|ts]; cbn [Skel.Emit.block_texts] in *; try (now apply S); try (now apply R); try (now apply W); try assumption.
Qed.

Print Assumptions C04_texts_compose.
Print Assumptions C04_merging_keeps_texts.
Print Assumptions C04_child_text_in_place.
Print Assumptions C04_chardata_stays_chardata_refuted.
Print Assumptions C04_render_or_error_refuted.
Print Assumptions C04_core_grammar_texts.
Print Assumptions C04_core_grammar_nothing_outlook_only.
Print Assumptions C04_merging_keeps_texts_modulo_attributes.
