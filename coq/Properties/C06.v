(* C06 — Compilation is total and error-faithful (writer part proved; see DESIGN.md for the
   partial status of panic freedom). *)
From Coq Require Import List String Bool Arith.
From GV Require Import Fault.Prog Fault.Sem Fault.Outcome Facts.WriteSkel.
Import ListNotations.

(* Recomputed on every run over the skeletons extracted from /repo's current source: every use
   of a caller-supplied writer, in every function that receives one, is a checked write or a
   checked call. *)
Theorem C06_all_checked : forallb (fun nb => checked (snd nb)) progs = true.
Proof. vm_compute. reflexivity. Qed.

(* Hence: for every function with a writer parameter, every execution (any branch choices, any
   loop counts, any dispatch of calls among the extracted skeletons, any depth of the component
   tree) and every failure position k: the failure of the k-th write is returned as that very
   error, exactly the first k writes of the fault-free execution were made, nothing after. *)
Theorem C06_fault_faithful : forall name p r, In (name, p) progs -> resolves (table_env progs) p r ->
  let full := run r (nwrites r) in
  st full <> SFail /\
  forall k,
    (k < List.length (tr full) -> tr (run r k) = firstn k (tr full) /\ st (run r k) = SFail) /\
    (List.length (tr full) <= k -> k <= nwrites r -> tr (run r k) = tr full /\ st (run r k) = st full).
Proof.
  intros name p r Hin Hr.
  apply (checked_fault_faithful (table_env progs) (table_env_checked progs C06_all_checked) p r); [|exact Hr].
  pose proof C06_all_checked as H. rewrite forallb_forall in H. exact (H _ Hin).
Qed.

(* outcome trichotomy of the public entry point (model of RenderWithAST / Render return paths) *)
Theorem C06_outcome_exclusive : forall (html err : Type) (pr : parse_result) (cr : create_result) (rr : render_result html err) v,
  match outcome html err pr cr rr v with
  | OutHtml _ | OutHtmlWithValidation _ _ | OutError _ => True
  end /\
  (forall h, outcome html err pr cr rr v = OutHtml h -> pr = ParseOk /\ cr <> CreateErr /\ v = None \/ cr = CreateNoBody) /\
  (forall e, outcome html err pr cr rr v = OutError e -> pr = ParseErr \/ cr = CreateErr \/ exists x, rr = RenderErr x).
Proof. exact outcome_exclusive. Qed.

(* non-vacuity: a non-trivial resolved execution is fault-faithful at every position, and an
   unchecked write really breaks the statement *)
Example C06_nonvacuous :
  let r := RSeq (RW 1) (RSeq (RIter (RSeq (RCall (RSeq (RW 2) RRet)) RBrk)) (RW 3)) in
  rchecked r = true /\ tr (run r 3) = [1; 2; 3] /\ run r 1 = ([1], SFail, 0) /\ run r 2 = ([1; 2], SFail, 0).
Proof. vm_compute. repeat split; reflexivity. Qed.
Example C06_unchecked_breaks_it :
  let r := RSeq (RBadW 1) (RW 2) in run r 0 = ([], SFail, 0) /\ tr (run r 2) = [1; 2] /\ rchecked r = false.
Proof. vm_compute. repeat split; reflexivity. Qed.

Print Assumptions C06_all_checked.
Print Assumptions C06_fault_faithful.
Print Assumptions C06_outcome_exclusive.
