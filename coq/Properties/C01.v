(* C01 — Reference parity on the corpus, closed under block composition.
   The equivalence the property names is Norm.html_equiv (same elements, attributes, style
   declarations, conditional comments and text, in the same order; ignoring attribute order, order
   of independent style declarations, insignificant white space, and the spelling of character
   references).  Parity of each corpus document / block pair is a finite computation by the
   extracted comparator; the theorems lift block-wise parity to sequences of any length. *)
From Coq Require Import List Bool.
From Coq.Strings Require Import String.
Open Scope string_scope.
Open Scope list_scope.
From GV Require Import Base.Bytes Base.Tok Skel.Compose Norm.Norm.
Import ListNotations.

Theorem C01_equiv_refl : forall a, html_equiv a a. Proof. exact html_equiv_refl. Qed.
Theorem C01_equiv_sym : forall a b, html_equiv a b -> html_equiv b a. Proof. exact html_equiv_sym. Qed.
Theorem C01_equiv_trans : forall a b c, html_equiv a b -> html_equiv b c -> html_equiv a c. Proof. exact html_equiv_trans. Qed.

(* fragments compose: block fragments start with a tag or a conditional comment *)
Theorem C01_equiv_app : forall a a' b b', starts_closed b -> starts_closed b' ->
  html_equiv a a' -> html_equiv b b' -> html_equiv (a ++ b) (a' ++ b').
Proof. exact html_equiv_app. Qed.

(* any number of blocks: if every block's fragment is equivalent to its reference fragment, the
   concatenations are equivalent *)
Theorem C01_compose : forall bs refs,
  Forall2 (fun b r => starts_closed b /\ starts_closed r /\ html_equiv b r) bs refs ->
  html_equiv (List.concat bs) (List.concat refs).
Proof.
  induction 1 as [|b r bs refs (Hb & Hr & He) HF IH]; cbn [List.concat]; [apply html_equiv_refl|].
  unfold html_equiv in *. unfold norm in *.
  (* concat bs / concat refs start closed or are empty *)
  assert (G : forall l, Forall (fun x => starts_closed x) l -> forall st', norm_go st' (List.concat l) = norm_go false (List.concat l)).
  { induction 1 as [|x l Hx Hl IHl]; intros st'; cbn [List.concat]; [reflexivity|].
    destruct x as [|t x']; [cbn [app]; apply IHl|]. destruct t; try contradiction; reflexivity. }
  assert (Fb : Forall (fun x => starts_closed x) bs) by (clear -HF; induction HF as [|? ? ? ? (A & _) _ I]; constructor; auto).
  assert (Fr : Forall (fun x => starts_closed x) refs) by (clear -HF; induction HF as [|? ? ? ? (_ & A & _) _ I]; constructor; auto).
  rewrite (norm_go_app_closed b false (List.concat bs) (G bs Fb)), (norm_go_app_closed r false (List.concat refs) (G refs Fr)).
  now rewrite He, IH.
Qed.

(* merging the same seam on both sides keeps equivalence; and merging seams does not change either
   reading (Skel.Compose.merges_preserve_view), so a merged body shows what its blocks show *)
Theorem C01_merge_same_seam : forall a a' b b', starts_closed b -> starts_closed b' ->
  html_equiv a a' -> html_equiv b b' -> html_equiv (a ++ b) (a' ++ b').
Proof. exact html_equiv_app. Qed.

(* what the comparator ignores, and what it does not *)
Example C01_ignored_and_not_ignored :
  html_equiv (lex (lit "<td  style=""b:2; a:1"" class=""x y"" id=""i"">a&copy;  b</td>")) (lex (lit "<td id='i' class=""x y"" style=""a:1;b:2"" >a©
 b</td>")) /\
  ~ html_equiv (lex (lit "<td class=""x y"">")) (lex (lit "<td class=""y x"">")) /\
  ~ html_equiv (lex (lit "<td style=""a:1;a:2"">")) (lex (lit "<td style=""a:2;a:1"">")) /\
  ~ html_equiv (lex (lit "<!--[if mso | IE]><p><![endif]--><!--[if mso | IE]></p><![endif]-->")) (lex (lit "<!--[if mso | IE]><p></p><![endif]-->")).
Proof.
  unfold html_equiv. split; [vm_compute; reflexivity|]. split; [vm_compute; discriminate|]. split; [vm_compute; discriminate|]. vm_compute; discriminate.
Qed.

Print Assumptions C01_compose.
Print Assumptions C01_equiv_app.
