(* C12 — Non-semantic variation of source or options does not change the email. *)
From Coq Require Import List Bool Permutation NArith.
From Coq.Strings Require Import String Byte.
From GV Require Attr.Store.
From GV Require Import Base.Bytes Base.Tok Parser.Pre Parser.PreProofs Parser.Build Variation.Invariance Facts.Sites.
Import ListNotations.
Open Scope string_scope.
Open Scope list_scope.

(* order of attributes within a tag *)
Theorem C12_attribute_order : forall l l', Permutation l l' -> NoDup (map fst l) -> forall k, assoc k l = assoc k l'.
Proof. exact attribute_order_irrelevant. Qed.

(* indentation and line breaks between structural elements *)
Theorem C12_whitespace_keeps_children : forall s r, children (PText s r) = children r.
Proof. exact whitespace_parts_keep_children. Qed.
Theorem C12_whitespace_text_is_empty_after_trim : forall s, all_ws s = true -> trim_left_ws s = [].
Proof. exact whitespace_text_trims_to_empty. Qed.

(* blank lines and comments before the root element *)
Theorem C12_leading_blank_lines : forall ws doc, all_ws ws = true -> prefix_ci mjml_needle doc = true -> strip_non_mso_comments (ws ++ doc) = doc.
Proof. exact leading_blank_lines_ignored. Qed.
Theorem C12_leading_comment_body_skipped : forall body r, plain_body body = true -> strip_comments true 0 (body ++ close_cmt ++ r) = strip_comments false 0 r.
Proof. exact strip_in_comment. Qed.

(* debug tags only add data-mj-debug-* attributes *)
Theorem C12_debug_only_adds_attributes : forall kind pos n a sc, forallb (fun x => negb (is_debug_attr x)) a = true ->
  strip_debug (add_debug kind pos (TOpen n a sc)) = TOpen n a sc.
Proof. exact strip_add_debug. Qed.

(* recomputed fact: the debug flag is read in exactly one helper (AddDebugAttribute) and written
   only by the option constructor *)
Theorem C12_debug_flag_sites :
  forallb (fun s : string * N * string * bool => let '(_, _, f, w) := s in
             if w then String.eqb f "WithDebugTags" else String.eqb f "BaseComponent.AddDebugAttribute") debug_flag_sites = true.
Proof. vm_compute. reflexivity. Qed.

(* attribute order inside <mj-class> (incl. the position of name=) does not change any class look-up *)
Theorem C12_mj_class_attribute_order : forall es1 es2 x x' c a,
  NoDup (map fst x) -> Permutation.Permutation x x' ->
  Attr.Store.class_get (Attr.Store.process (es1 ++ Attr.Store.EClass x :: es2)) c a =
  Attr.Store.class_get (Attr.Store.process (es1 ++ Attr.Store.EClass x' :: es2)) c a.
Proof. exact Attr.Store.mj_class_attribute_order_irrelevant. Qed.

Print Assumptions C12_attribute_order.
Print Assumptions C12_leading_blank_lines.
Print Assumptions C12_debug_only_adds_attributes.
Print Assumptions C12_debug_flag_sites.
Print Assumptions C12_mj_class_attribute_order.
