(* C16 — Rendering never mutates the parsed AST. *)
From Coq Require Import List String NArith Bool.
From GV Require Import Ast.Region Facts.AstWrites.
Import ListNotations.

(* recomputed on every run from /repo's source: outside package parser no statement writes
   memory of the parsed tree (assignment, inc/dec, append to a tree slice, delete/copy/clear,
   sort, address-of), and neither unsafe nor reflect is imported *)
Theorem C16_no_tree_writes : ast_writes = [] /\ unsafe_uses = [].
Proof. split; vm_compute; reflexivity. Qed.

Theorem C16_scan_not_empty : (0 <? write_statements_scanned)%N = true.
Proof. vm_compute. reflexivity. Qed.

(* hence, on every trace of a program whose write sites are all classified "not the tree",
   every address of the tree region holds what the parser put there *)
Theorem C16_ast_preserved : forall (addr val : Type) (addr_eqb : addr -> addr -> bool),
  (forall a b, addr_eqb a b = true <-> a = b) -> forall (reg : addr -> region) t s,
  Forall (well_typed addr val reg) t -> Forall (fun e => ev_site_region addr val e = ROther) t ->
  forall a, reg a = RTree -> exec addr val addr_eqb t s a = s a.
Proof. exact tree_preserved. Qed.

Example C16_nonvacuous :
  let reg := fun a : nat => if Nat.ltb a 10%nat then RTree else ROther in
  let t := [ {| ev_site_region := ROther ; ev_addr := 12%nat ; ev_val := 7%nat |} ; {| ev_site_region := ROther ; ev_addr := 15%nat ; ev_val := 1%nat |} ] in
  exec nat nat Nat.eqb t (fun _ => 0%nat) 3%nat = 0%nat /\ exec nat nat Nat.eqb t (fun _ => 0%nat) 12%nat = 7%nat.
Proof. vm_compute. split; reflexivity. Qed.

Print Assumptions C16_no_tree_writes.
Print Assumptions C16_ast_preserved.
