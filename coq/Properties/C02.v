(* C02 — Output is well-formed HTML for standard (non-Outlook) clients.
   The judgement is Base.Tok.check_view Std (conditional comments properly delimited and never
   nested; the standard reading strictly nested; no Outlook-only element visible).  It is evaluated
   on real outputs by the extracted checker; the theorems below show that it is closed under
   everything the renderer does with fragments, for unboundedly many blocks, merged seams and
   nesting levels. *)
From Coq Require Import List Bool.
From Coq.Strings Require Import String.
Open Scope string_scope.
From GV Require Skel.Emit.
From GV Require Import Base.Bytes Base.Tok Skel.Compose.
Import ListNotations.

(* a fragment the checker accepts is well-formed *)
Theorem C02_checker_sound : forall ts, check_view Std ts = true -> ok_frag Std ts.
Proof. exact (check_view_ok Std). Qed.

(* any number of well-formed blocks, with any subset of their Outlook seams merged *)
Theorem C02_body_wellformed : forall bs ts, Forall (ok_frag Std) bs -> merges (List.concat bs) ts -> ok_frag Std ts.
Proof. exact (body_ok Std). Qed.
(* the same with the premise weakened to what the readings can see: the observed body is a seam-merge of the blocks' own
   bodies up to the attributes of start tags (a block may write other attributes depending on its neighbours) *)
Theorem C02_body_wellformed_modulo_attributes : forall bs ts, Forall (ok_frag Std) bs ->
  merges (map strip_attrs (List.concat bs)) (map strip_attrs ts) -> ok_frag Std ts.
Proof. exact (body_ok_modulo_attrs Std). Qed.

(* children inserted where no conditional comment is open, to any depth *)
Theorem C02_fill_hole : forall a h b, ok_frag Std (a ++ b) -> (exists ea, view Std Closed a = Some (ea, Closed)) -> ok_frag Std h ->
  ok_frag Std (a ++ h ++ b).
Proof. exact (fill_hole Std). Qed.

Theorem C02_wrap_element : forall n at_ ts, is_void n = false -> ok_frag Std ts -> ok_frag Std (TOpen n at_ false :: ts ++ [TClose n]).
Proof. exact (wrap_element Std). Qed.

(* Outlook-only blocks are invisible to standard clients *)
Theorem C02_mso_block_invisible : forall c inner,
  (forall t, In t inner -> match t with TMsoOpen _ | TMsoEnd | TNotMsoOpen _ | TNotMsoEnd | TCmt _ => False | _ => True end) ->
  view Std Closed (TMsoOpen c :: inner ++ [TMsoEnd]) = Some ([], Closed).
Proof. exact mso_block_invisible_std. Qed.

(* the executable seam-merge test used by the correspondence is sound *)
Theorem C02_merge_check_sound : forall fuel xs ys, merge_check fuel xs ys = true -> merges xs ys.
Proof. exact merge_check_sound. Qed.

(* what the fixed defects looked like to the checker (non-vacuity of the judgement):
   markup swallowed by an unterminated Outlook comment; VML outside any conditional *)
Example C02_unterminated_comment_rejected :
  check_view Std (lex (lit "<div><!--[if mso | IE]></td></tr></table><table><tbody><tr><td>x</td></tr></tbody></table><![endif]--></div>")) = true /\
  check_view Std (lex (lit "<div><!--[if mso | IE]></td></tr></table><table><tbody><tr><td><!--[if mso | IE]><i><![endif]-->x</td></tr></tbody></table></div>")) = false /\
  check_view Std (lex (lit "<div><v:rect><v:textbox><![endif]--><p>x</p></div>")) = false.
Proof. repeat split; vm_compute; reflexivity. Qed.

(* ---- unconditional for the modelled core of the grammar ----------------------------------
   Skel/Emit.v is a hand port of what body / section (plain, full-width) / wrapper / group / column
   and the leaves text, divider, spacer, image, button write (attributes and text erased; tied to
   the code by token-for-token comparison with erased real outputs on every run).  For EVERY document
   of that grammar - any number and nesting of blocks, sections, groups, columns and leaves, every
   hand-over of the Outlook wrapper table between consecutive blocks - the standard reading is
   well-formed.  No premise about observed outputs. *)
Theorem C02_core_grammar_wellformed : forall b : Skel.Emit.body, ok_frag Std (Skel.Emit.emit_body b).
Proof. exact (Skel.Emit.emit_body_ok Std). Qed.

(* how Outlook-only markup is cut into conditional comments is invisible to the reading: the tie compares streams modulo this *)
Theorem C02_conditional_segmentation_invisible : forall ts, ok_frag Std ts -> ok_frag Std (Skel.Emit.squash ts).
Proof. exact (Skel.Emit.squash_ok Std). Qed.

Print Assumptions C02_checker_sound.
Print Assumptions C02_body_wellformed.
Print Assumptions C02_fill_hole.
Print Assumptions C02_merge_check_sound.
Print Assumptions C02_core_grammar_wellformed.
Print Assumptions C02_body_wellformed_modulo_attributes.
