(* C19 — Inline CSS is applied completely and touches nothing but style attributes. *)
From Coq Require Import List Bool.
From Coq.Strings Require Import String Byte.
From GV Require Import Base.Bytes Base.Tok Inline.Css Inline.Tag.
Import ListNotations.
Open Scope string_scope.
Open Scope list_scope.

Section C19.
  Variable styles : bytes -> list decl.

  (* erasing every style attribute, the inlined token stream is the original one: tags, all other
     attributes and their order, text, comments are untouched *)
  Theorem C19_only_style_changes : forall ts, map erase_tok (inline_html styles ts) = map erase_tok ts.
  Proof. exact (only_style_changes_html styles). Qed.

  (* both readings of the document are unchanged (so C02 / C03 / C04 carry over to inlined output) *)
  Theorem C19_views_unchanged : forall v ts st, view v st (inline_html styles ts) = view v st ts.
  Proof. exact (inline_keeps_view styles). Qed.

  (* an element whose class list yields declarations and that has no style of its own carries exactly
     those declarations, in rule order; with a style of its own they are appended after it *)
  Theorem C19_declarations_present : forall attrs cv c l, last_value "class" attrs = Some cv -> inline_string styles cv = c :: l ->
    last_value "style" attrs = None -> last_value "style" (inline_attrs styles attrs) = Some (inline_string styles cv).
  Proof. exact (declarations_present styles). Qed.
  Theorem C19_declarations_appended : forall ex istr, ex <> [] -> istr <> [] -> trim_space ex <> [] -> trim_space istr <> [] ->
    exists pre, merge_style ex istr = pre ++ trim_space istr.
  Proof. exact declarations_appended. Qed.
End C19.

Theorem C19_no_rules_identity : forall ts, inline_html (fun _ => []) ts = ts.
Proof. exact no_rules_identity. Qed.

(* rule order and class order: declarations of earlier rules / earlier classes come first *)
Example C19_rule_order :
  let st := class_styles (parse_rules (lit ".k { color: red; font-size: 9px } .j,.k{margin:0} p.k{x:y} .k:hover{z:1}")) in
  inline_html st (lex (lit "<p class=""j k"" id=a><b class='k' style=""a:b"">t</b></p>")) =
  lex (lit "<p class=""j k"" id=""a"" style=""margin:0;color:red;font-size:9px;margin:0;z:1;""><b class=""k"" style=""a:b;color:red;font-size:9px;margin:0;z:1;"">t</b></p>").
Proof. vm_compute. reflexivity. Qed.

Print Assumptions C19_only_style_changes.
Print Assumptions C19_views_unchanged.
Print Assumptions C19_declarations_present.
Print Assumptions C19_no_rules_identity.
