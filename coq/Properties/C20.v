(* C20 — The CLI is a thin, faithful wrapper around the library. *)
From Coq Require Import List ZArith Bool.
From GV Require Import Cache.Model Cache.Proofs Cli.Model.
Import ListNotations.
Open Scope Z_scope.

Section C20.
  Variables (bytes : Type) (empty : bytes) (lib : libopts -> bytes -> bytes * bool).
  Notation cli := (cli bytes empty lib).

  Theorem C20_exit_zero_iff : forall rd f wr,
    exit bytes (cli rd f wr) = 0 <->
    exists content, rd = Some content /\ snd (lib (opts_of f) content) = false /\ (f_out f = true -> wr = true).
  Proof. exact (exit_zero_iff bytes empty lib). Qed.

  Theorem C20_exact_bytes : forall rd f wr, exit bytes (cli rd f wr) = 0 ->
    exists content, rd = Some content /\
      let html := fst (lib (opts_of f) content) in
      stderr bytes (cli rd f wr) = false /\
      (if f_out f then file bytes (cli rd f wr) = Some html /\ stdout bytes (cli rd f wr) = empty
       else stdout bytes (cli rd f wr) = html /\ file bytes (cli rd f wr) = None).
  Proof. exact (exact_bytes bytes empty lib). Qed.

  Theorem C20_error_no_output : forall rd f wr,
    (rd = None \/ (exists c, rd = Some c /\ snd (lib (opts_of f) c) = true) \/ (f_out f = true /\ wr = false)) ->
    exit bytes (cli rd f wr) <> 0 /\ stderr bytes (cli rd f wr) = true /\
    stdout bytes (cli rd f wr) = empty /\ file bytes (cli rd f wr) = None.
  Proof. exact (error_no_output bytes empty lib). Qed.

  Theorem C20_flags_map : forall c f wr,
    called bytes (cli (Some c) f wr) = Some {| o_debug := f_debug f ; o_cache := f_cache f |} /\
    setters bytes (cli (Some c) f wr) =
      (if 0 <? f_ttl f then [CallSetTTL (f_ttl f)] else []) ++
      (if 0 <? f_interval f then [CallSetInterval (f_interval f)] else []).
  Proof. exact (flags_map bytes empty lib). Qed.
End C20.

Section C20cache.
  Variables (doc ast err : Type) (hash : doc -> Z) (parse : doc -> ast + err).

  (* the cache flags accept any duration without crashing *)
  Theorem C20_any_duration_safe : forall t0 f d h c,
    cl ast (exec doc ast err hash parse (init ast t0) (config_ops doc f ++ Render d true :: h)) = Some c ->
    0 < every c.
  Proof. exact (any_duration_safe doc ast err hash parse). Qed.

  (* and both flags take effect, in either combination *)
  Theorem C20_flags_configure : forall t0 f,
    let s := exec doc ast err hash parse (init ast t0) (config_ops doc f) in
    ttl ast s = (if 0 <? f_ttl f then f_ttl f else default_ttl) /\
    interval ast s = (if 0 <? f_interval f then f_interval f
                      else if 0 <? f_ttl f then Z.quot (f_ttl f) 2 else Z.quot default_ttl 2).
  Proof. exact (flags_configure doc ast err hash parse). Qed.
End C20cache.

Example C20_nonvacuous :
  let lib := fun (o : libopts) (c : nat) => (c + (if o_debug o then 1 else 0), Nat.eqb c 7)%nat in
  let f := {| f_out := true ; f_s := false ; f_debug := true ; f_cache := true ; f_ttl := 1 ; f_interval := 0 |} in
  exit nat (Cli.Model.cli nat 0%nat lib (Some 5%nat) f true) = 0 /\
  file nat (Cli.Model.cli nat 0%nat lib (Some 5%nat) f true) = Some 6%nat /\
  exit nat (Cli.Model.cli nat 0%nat lib (Some 7%nat) f true) = 1 /\
  setters nat (Cli.Model.cli nat 0%nat lib (Some 5%nat) f true) = [CallSetTTL 1].
Proof. vm_compute. repeat split; reflexivity. Qed.

Print Assumptions C20_exit_zero_iff.
Print Assumptions C20_exact_bytes.
Print Assumptions C20_error_no_output.
Print Assumptions C20_flags_map.
Print Assumptions C20_any_duration_safe.
Print Assumptions C20_flags_configure.
