(* C07 — Concurrent compilations are isolated from each other. *)
From Coq Require Import List String NArith Bool.
From GV Require Import Conc.Footprint Facts.Globals.
Import ListNotations.
Open Scope string_scope.

(* Every package-level variable of the production packages is never written after
   initialisation, or is a synchronisation primitive / atomic, or is accessed only under one
   mutex, or is written only inside one sync.Once (lexical locksets, recomputed on every run). *)
Definition class_safe (g : gvar) : bool :=
  match gv_class g with Immutable | Sync | Guarded | OnceInit => true | Unguarded => false end.

Theorem C07_lockset_drf : forallb class_safe gvars = true.
Proof. vm_compute. reflexivity. Qed.

(* The synchronised variables that can carry data from one compilation to another are exactly
   the ones accounted for elsewhere: the AST cache and its configuration and lifecycle
   (C13-C15: transparent), the legacy globals pointer (written by every compilation, read only
   by callers that pass no per-render store), test-mode switches (test-only API). Anything new
   breaks this obligation. *)
Definition accounted : list (string * string) :=
  [ ("mjml", "astCache"); ("mjml", "astCacheCleanupExplicit"); ("mjml", "astCacheCleanupInterval"); ("mjml", "astCacheCleanupOnce");
    ("mjml", "astCacheTTL"); ("mjml", "astCacheTTLOnce"); ("mjml", "cacheCleanupMutex"); ("mjml", "cacheConfigMutex");
    ("mjml", "cleanupCancel"); ("mjml", "hashSeed"); ("mjml", "sfCalls"); ("mjml", "sfMutex"); ("mjml", "templateHashSeedOnce");
    ("mjml/components", "allowedAttributeSets"); ("mjml/components", "allowedAttributes"); ("mjml/components", "allowedAttributesErr");
    ("mjml/components", "allowedAttributesOnce"); ("mjml/components", "carouselTestIndex"); ("mjml/components", "navbarTestIndex");
    ("mjml/globals", "instance"); ("mjml/testmode", "enabled"); ("mjml/testmode", "mu") ].

Definition is_accounted (g : gvar) : bool :=
  existsb (fun p => String.eqb (fst p) (gv_pkg g) && String.eqb (snd p) (gv_name g)) accounted.

Theorem C07_shared_state_accounted :
  forallb (fun g => match gv_class g with Immutable => true | _ => is_accounted g end) gvars = true.
Proof. vm_compute. reflexivity. Qed.

(* non-interference for every schedule and every number of threads, given the frame conditions *)
Theorem C07_noninterference : forall (cell val : Type) (owner : cell -> option nat) (step : nat -> nat -> (cell -> val) -> cell -> val),
  (forall t i s c, owner c <> Some t -> step t i s c = s c) ->
  (forall t i s s', same_on cell val (visible cell owner t) s s' -> same_on cell val (owned cell owner t) (step t i s) (step t i s')) ->
  forall sched s t c, owner c = Some t ->
    run cell val step sched (fun _ => 0%nat) s c = solo cell val step t (count t sched) 0%nat s c.
Proof. exact isolated. Qed.

Print Assumptions C07_lockset_drf.
Print Assumptions C07_shared_state_accounted.
Print Assumptions C07_noninterference.
