(* C05 — Compilation is deterministic. *)
From Coq Require Import List String NArith Bool Permutation.
From mathcomp Require Import ssreflect ssrbool eqtype ssrnat seq path.
From GV Require Import Det.Perm Det.Sorted Facts.Nondet.
Import ListNotations.
Open Scope string_scope.

(* A map-range site is deterministic iff its loop body has one of the shapes proved order
   independent below; a first-match or append-all loop, or one the translator cannot classify,
   is not. *)
Definition shape_ok (s : shape) : bool :=
  match s with KeyedStore | SortedAfter => true | FirstMatch | AppendAll | UnknownShape => false end.

(* Clock reads may only feed logging or the cache's expiry arithmetic (C13/C14 show the output
   does not depend on it); random numbers only come from the one id generator; the hash seed
   only from hashTemplate (cache key, C13); goroutines only from the cache cleaner. *)
Definition call_ok (c : nd_call) : bool :=
  match nc_class c with
  | LogOnly | CacheExpiry => true
  | Random => String.eqb (nc_func c) "genRandomHexString"
  | HashSeed => String.eqb (nc_func c) "hashTemplate"
  | Goroutine => String.eqb (nc_func c) "startASTCacheCleanup"
  | Escapes => false
  end.

(* recomputed on every run over the sites extracted from /repo's current source *)
Theorem C05_sites_ok : forallb (fun s => shape_ok (rs_shape s)) range_sites = true /\ forallb call_ok nd_calls = true.
Proof. split; vm_compute; reflexivity. Qed.

(* soundness of the accepted shapes, for every iteration order (permutation) of a Go map *)
Theorem C05_keyed_store_order_independent :
  forall (K V W : Type) (keqb : K -> K -> bool), (forall a b, keqb a b = true <-> a = b) ->
  forall (g : K -> V -> W -> W) (l l' : list (K * V)), Permutation l l' -> NoDup (map fst l) ->
  forall m x, loop K V W keqb g l m x = loop K V W keqb g l' m x.
Proof. exact keyed_store_order_independent. Qed.

Theorem C05_single_key_action_order_independent :
  forall (K V A : Type) (keqb : K -> K -> bool), (forall a b, keqb a b = true <-> a = b) ->
  forall (c : K) (f : V -> A -> A) (l l' : list (K * V)), Permutation l l' -> NoDup (map fst l) ->
  forall acc, fold_left (sbody K V A keqb c f) l acc = fold_left (sbody K V A keqb c f) l' acc.
Proof. exact single_key_order_independent. Qed.

Theorem C05_sorted_after_order_independent :
  forall s1 s2 : seq (seq nat), perm_eq s1 s2 -> sort lex_le s1 = sort lex_le s2.
Proof. exact sort_strings_order_independent. Qed.

(* non-vacuity: the pre-fix font tracker (append in map order) is the kind of site this rejects *)
Example C05_append_all_rejected : shape_ok AppendAll = false /\ shape_ok FirstMatch = false.
Proof. split; reflexivity. Qed.
Example C05_keyed_store_instance :
  loop nat nat nat Nat.eqb (fun k v old => (v + old)%nat) [(1, 10); (2, 20); (3, 30)]%nat (fun _ => 0%nat) 2%nat =
  loop nat nat nat Nat.eqb (fun k v old => (v + old)%nat) [(3, 30); (1, 10); (2, 20)]%nat (fun _ => 0%nat) 2%nat.
Proof. vm_compute. reflexivity. Qed.

Print Assumptions C05_sites_ok.
Print Assumptions C05_keyed_store_order_independent.
Print Assumptions C05_single_key_action_order_independent.
Print Assumptions C05_sorted_after_order_independent.
