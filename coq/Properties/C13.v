(* C13 — The AST cache is transparent.  Property theorems only; proofs are in Cache/Proofs.v. *)
From Coq Require Import List ZArith.
From GV Require Import Cache.Model Cache.Proofs.
Import ListNotations.
Open Scope Z_scope.

Section C13.
  Variables (doc ast err : Type) (hash : doc -> Z) (parse : doc -> ast + err).

  (* For every finite history over {render(doc, cached), render(doc, uncached), advance time,
     sweep, stop cleanup, setters} (cleanup restarts implicitly with the next cached render),
     every compilation obtains exactly the tree or error an uncached compilation of the same
     input obtains - provided the 64-bit hash does not collide on the history's documents. *)
  Theorem C13_transparent : forall (h : list (op doc)) (t0 : Z),
    hash_inj_on doc hash (docs doc h) -> all_ok doc ast err hash parse (init ast t0) h.
  Proof. exact (transparent doc ast err hash parse). Qed.

  (* a document that fails to parse is never cached *)
  Theorem C13_errors_not_cached : forall s d c e0, parse d = inr e0 ->
    incl (cache ast (fst (step doc ast err hash parse s (Render d c)))) (cache ast s).
  Proof. exact (errors_not_cached doc ast err hash parse). Qed.

  (* documents that differ never share an entry *)
  Theorem C13_no_sharing : forall U s d e, hash_inj_on doc hash U -> Inv doc ast err hash parse U s -> In d U ->
    lookup ast (hash d) (cache ast s) = Some e -> parse d = inl (node ast e).
  Proof. exact (no_sharing doc ast err hash parse). Qed.

  (* the hash premise is an assumption of the design, not an artefact of the proof *)
  Theorem C13_collision_breaks_it : forall s d d' a, hash d = hash d' -> parse d = inl a -> parse d' <> inl a ->
    lookup ast (hash d) (cache ast s) = None -> 0 < ttl ast s ->
    ~ all_ok doc ast err hash parse s [Render d true; Render d' true].
  Proof. exact (collision_breaks_it doc ast err hash parse). Qed.
End C13.

(* non-vacuity: a concrete history with a hit, an expiry, a sweep, a stop and an unparsable
   document, over an injective hash *)
Example C13_history_nonvacuous :
  let parse := fun d : Z => if Z.eqb d 3 then inr tt else inl d in
  let h := [Render 1 true; Render 1 true; Render 2 true; Render 3 true; Advance (6 * minute); Tick;
            Render 1 true; Stop; Render 2 false; Render 1 true] in
  run Z Z unit (fun d => d) parse (init Z 0) h =
  [OAst 1 true; OAst 1 false; OAst 2 true; OErr tt; ONone; ONone; OAst 1 true; ONone; OAst 2 true; OAst 1 false].
Proof. vm_compute. reflexivity. Qed.

Print Assumptions C13_transparent.
Print Assumptions C13_errors_not_cached.
Print Assumptions C13_no_sharing.
Print Assumptions C13_collision_breaks_it.
