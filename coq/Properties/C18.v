(* C18 — The parser is a faithful, conservative extension of an XML parser.
   ParseMJML = build . xml_tokens . preprocess ; xml_tokens is encoding/xml (trusted standard
   library, observed by the harness); everything else is modelled (Parser/Pre.v, Parser/Build.v). *)
From Coq Require Import List Bool Arith.
From Coq.Strings Require Import Byte String.
From GV Require Import Base.Bytes Parser.Pre Parser.PreProofs Parser.Build Facts.ParserConsts.
Import ListNotations.

Definition preprocess_now := preprocess named_entities entity_table void_names.

(* recomputed facts about the source constants the theorems depend on *)
Theorem C18_consts_ok :
  table_starts_with_amp entity_table = true /\ existsb (bytes_eqb amp_name) named_entities = true /\
  src_openNeedle = open_needle /\ src_closeNeedle = close_needle /\ src_cdataStart = cdata_start /\
  src_cdataEnd = cdata_end /\ src_cdataEndSafe = cdata_end_safe.
Proof. repeat split; vm_compute; reflexivity. Qed.

(* the tree has exactly the elements, attributes, child order, character data and text/child
   interleaving of the token stream *)
Theorem C18_build_roundtrip : forall t, normal t -> parse_elem (size t) (flatten t) = Some (t, []).
Proof. exact build_flatten. Qed.

(* a document that is already strict for the lenient passes reaches the XML decoder unchanged *)
Theorem C18_identity_on_strict : forall s, strict s -> preprocess_now s = Some s.
Proof. intros s H. apply identity_on_strict; [exact (proj1 C18_consts_ok)|exact H]. Qed.

(* lenient = strict: a bare ampersand in an attribute value parses like &amp; *)
Theorem C18_bare_ampersand_like_amp : forall q r in_tag, q = b_dq \/ q = b_sq ->
  (let name := take_while (fun x => negb (beq x q) && negb (is_terminator x)) r in
   match skipn (List.length name) r with t :: _ => beq t b_semi && is_valid_entity named_entities name | [] => false end) = false ->
  esc_amp named_entities in_tag (Some q) 0 (b_amp :: r) = esc_amp named_entities in_tag (Some q) 0 (lit "&amp;" ++ r).
Proof. intros q r in_tag Hq H. apply bare_ampersand_like_amp; [exact Hq|exact (proj1 (proj2 C18_consts_ok))|exact H]. Qed.

(* lenient = strict: blank lines before the root are ignored; so is a leading comment *)
Theorem C18_leading_blank_lines_ignored : forall ws doc, all_ws ws = true -> prefix_ci mjml_needle doc = true ->
  strip_non_mso_comments (ws ++ doc) = doc.
Proof. exact leading_blank_lines_ignored. Qed.
Theorem C18_comment_body_skipped : forall body r, plain_body body = true ->
  strip_comments true 0 (body ++ close_cmt ++ r) = strip_comments false 0 r.
Proof. exact strip_in_comment. Qed.

(* The full statement is false of the code in three places (witnesses by computation; each is
   replayed against the implementation by the check and listed as a known finding): *)
(* (1) XML's own escapes are decoded textually BEFORE the XML layer, not "exactly once, by the XML layer" *)
Theorem C18_xml_escapes_once_refuted :
  preprocess_html_entities named_entities entity_table (lit "<mj-button>a &lt; b</mj-button>") = lit "<mj-button>a < b</mj-button>" /\
  preprocess_html_entities named_entities entity_table (lit "<mj-image alt=""say &quot;hi&quot;""/>") = lit "<mj-image alt=""say ""hi""""/>".
Proof. split; vm_compute; reflexivity. Qed.
(* (2) a byte-order mark or XML declaration before the root is NOT ignored: it stays in front of the root *)
Theorem C18_bom_xmldecl_refuted :
  strip_non_mso_comments ([xef; xbb; xbf] ++ lit "<mjml></mjml>") = [xef; xbb; xbf] ++ lit "<mjml></mjml>" /\
  strip_non_mso_comments (lit "<?xml version=""1.0""?><mjml></mjml>") = lit "<?xml version=""1.0""?><mjml></mjml>".
Proof. split; vm_compute; reflexivity. Qed.
(* (3) the mj-text needle is searched textually: inside a comment it opens a CDATA section that swallows real markup *)
Theorem C18_needle_refuted :
  wrap_mj_text_content void_names (lit "<!-- <mj-text> --><mj-button>b</mj-button><mj-text>t</mj-text>") =
  Some (lit "<!-- <mj-text><![CDATA[ --><mj-button>b</mj-button><mj-text>t]]></mj-text>").
Proof. vm_compute. reflexivity. Qed.

Example C18_strict_nonvacuous : strict (lit "<mjml><mj-body><mj-section padding=""0""><mj-column/></mj-section></mj-body></mjml>").
Proof. repeat split; try (vm_compute; reflexivity). unfold no_amp. vm_compute. intuition discriminate. Qed.

Print Assumptions C18_build_roundtrip.
Print Assumptions C18_identity_on_strict.
Print Assumptions C18_bare_ampersand_like_amp.
Print Assumptions C18_leading_blank_lines_ignored.
Print Assumptions C18_xml_escapes_once_refuted.
