(* C15 — Single-flight parsing and cleanup lifecycle are safe under every schedule. *)
From Coq Require Import List Arith Bool.
From GV Require Import Cache.Conc Cache.ConcProofs Cache.Cleaner.
Import ListNotations.

Section C15.
  Variable kfn : key -> result.   (* what a fresh parse of the template with this key returns *)

  (* The invariants hold in every configuration reached from an initial configuration of any
     number n of goroutines by any schedule (disabled picks are skipped). *)
  Theorem C15_invariants_every_schedule : forall n keys fns cache0 sched,
    (forall i, i < n -> fns i = kfn (keys i)) -> (forall k e, cache0 k = Some e -> kfn k = Some (enode e)) ->
    Inv (run_skip (init n keys fns cache0) sched) /\ Val kfn (run_skip (init n keys fns cache0) sched).
  Proof.
    intros n keys fns cache0 sched Hf Hc. apply run_skip_inv; [apply inv_init|apply val_init; assumption].
  Qed.

  (* parses of the same template never overlap in time *)
  Theorem C15_one_parse_per_key : forall c i j id1 id2, Inv c ->
    tpc (th c i) = PParse id1 -> tpc (th c j) = PParse id2 -> tkey (th c i) = tkey (th c j) -> i = j.
  Proof. exact one_parse_per_key. Qed.

  (* every caller receives the result of a fresh parse of its own template: the complete AST, or
     the same parse error as the goroutine that did the work *)
  Theorem C15_caller_gets_fresh_parse_result : forall c i r p, Val kfn c -> tpc (th c i) = PRet r p -> r = kfn (tkey (th c i)).
  Proof. exact (caller_gets_fresh_parse_result kfn). Qed.

  Theorem C15_delete_own_record_only : forall c i id, Inv c -> tpc (th c i) = PUnreg id -> sfc c (tkey (th c i)) = Some id.
  Proof. exact delete_own_record_only. Qed.

  (* nobody blocks forever *)
  Theorem C15_deadlock_free : forall c i, Inv c -> final (tpc (th c i)) = false -> exists j, step c j <> None.
  Proof. exact deadlock_free. Qed.
  Theorem C15_waiter_waits_for_enabled_leader : forall c i, Inv c -> final (tpc (th c i)) = false ->
    step c i <> None \/
    exists id j, tpc (th c i) = PWait id /\ leads (tpc (th c j)) = Some id /\ before_done (tpc (th c j)) = true /\ step c j <> None.
  Proof. exact enabled_or_waiting_for_enabled_leader. Qed.
  Theorem C15_bounded_progress : forall c i c', step c i = Some c' ->
    rank (tpc (th c i)) < rank (tpc (th c' i)) /\ forall j, j <> i -> th c' j = th c j.
  Proof. exact step_progress. Qed.
End C15.

(* cleanup lifecycle: at most one cleaner that keeps sweeping; stopping terminates it; using the
   cache afterwards starts exactly one again *)
Theorem C15_at_most_one_active_cleaner : forall l a b, active (crun cinit l) a -> active (crun cinit l) b -> a = b.
Proof. exact at_most_one_active. Qed.
Theorem C15_cancel_iff_active : forall l, let s := crun cinit l in (exists n, ccancel s = Some n) <-> (exists n, active s n).
Proof. exact cancel_iff_active. Qed.
Theorem C15_stop_terminates : forall l, let s := cstep (crun cinit l) CStop in
  (forall n, ~ active s n) /\ (forall n, In n (live s) -> ~ In n (live (cstep s (CExit n)))).
Proof. exact stop_terminates. Qed.
Theorem C15_restart_starts_exactly_one : forall l, let s := cstep (cstep (crun cinit l) CStop) CStart in
  exists n, active s n /\ forall m, active s m -> m = n.
Proof. exact restart_starts_exactly_one. Qed.

(* non-vacuity: three goroutines on one template; thread 1 waits for the leader 0, thread 2 arrives
   after the leader has finished and finds the stored entry *)
Example C15_schedule_nonvacuous :
  let c0 := init 3 (fun _ => 7) (fun _ => Some 7) (fun _ => None) in
  match run c0 [0; 1; 0; 1; 0; 0; 0; 0; 1; 2] with
  | Some c => tpc (th c 0) = PRet (Some 7) true /\ tpc (th c 1) = PRet (Some 7) false /\ tpc (th c 2) = PRet (Some 7) false
  | None => False
  end.
Proof. vm_compute. repeat split; reflexivity. Qed.

Print Assumptions C15_invariants_every_schedule.
Print Assumptions C15_one_parse_per_key.
Print Assumptions C15_caller_gets_fresh_parse_result.
Print Assumptions C15_deadlock_free.
Print Assumptions C15_at_most_one_active_cleaner.
Print Assumptions C15_stop_terminates.
