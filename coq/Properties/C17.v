(* C17 — Validation errors are exact and never suppress the HTML. *)
From Coq Require Import List String Bool NArith.
From GV Require Import Valid.Model Fault.Outcome Facts.Allowed Facts.Factory.
Import ListNotations.
Open Scope string_scope.

Definition report_now := report allowed_table global_names global_prefixes factory_tags.

(* exact characterisation of what is reported, over the tables re-read from the source *)
Theorem C17_report_iff : forall root g a l,
  In (g, a, l) (report_now root) <->
  exists t names v, In t (constructed factory_tags root) /\ ttag t = g /\ tline t = l /\
                    lookup_tag allowed_table g = Some names /\ In (a, v) (tattrs t) /\
                    accepted global_names global_prefixes names a = false.
Proof. exact (report_iff allowed_table global_names global_prefixes factory_tags). Qed.

Theorem C17_no_error_iff_all_accepted : forall root,
  report_now root = [] <->
  forall t names a v, In t (constructed factory_tags root) -> lookup_tag allowed_table (ttag t) = Some names ->
                      In (a, v) (tattrs t) -> accepted global_names global_prefixes names a = true.
Proof. exact (no_error_iff_all_accepted allowed_table global_names global_prefixes factory_tags). Qed.

(* recomputed facts: the always-accepted set is the one the property names; every constructor
   runs the validation hook *)
Theorem C17_always_accepted_set :
  global_names = ["class"; "css-class"; "mj-class"] /\ global_prefixes = ["aria-"; "data-"] /\
  base_constructor_validates = true /\ constructors_without_base = [].
Proof. repeat split; vm_compute; reflexivity. Qed.

(* the HTML returned alongside a validation error is the HTML the document yields anyway: in
   the return-path model the HTML component does not depend on the reporter *)
Theorem C17_html_unaffected : forall (html err : Type) (h : html) n,
  outcome html err ParseOk CreateOk (RenderOk h) (Some n) = OutHtmlWithValidation h (S n) /\
  outcome html err ParseOk CreateOk (RenderOk h) None = OutHtml (Some h).
Proof. intros. split; reflexivity. Qed.

(* the full statement "iff SOME ELEMENT carries an unaccepted attribute" is false of the code:
   elements whose tag has no table entry, and elements the factory never constructs, are never
   validated (known findings, replayed on the implementation by the check) *)
Definition wrapper_doc := T "mjml" [] 1 [T "mj-body" [] 1 [T "mj-wrapper" [("bogus", "1")] 1 []]].
Definition hero_social_doc :=
  T "mjml" [] 1 [T "mj-body" [] 1 [T "mj-hero" [] 1 [T "mj-social" [] 1 [T "mj-social-element" [("bogus", "1")] 1 []]]]].
Theorem C17_all_elements_refuted :
  report_now wrapper_doc = [] /\ report_now hero_social_doc = [] /\
  lookup_tag allowed_table "mj-wrapper" = None /\
  lookup_tag allowed_table "mj-social-element" <> None.
Proof. repeat split; vm_compute; congruence. Qed.

Example C17_nonvacuous :
  report_now (T "mjml" [] 1 [T "mj-body" [] 2 [T "mj-section" [("bogus", "1"); ("data-x", "y"); ("padding", "0")] 3
                                                  [T "mj-column" [] 4 [T "mj-text" [("colour", "red")] 7 []]]]])
  = [("mj-section", "bogus", 3%N); ("mj-text", "colour", 7%N)].
Proof. vm_compute. reflexivity. Qed.

Print Assumptions C17_report_iff.
Print Assumptions C17_no_error_iff_all_accepted.
Print Assumptions C17_always_accepted_set.
Print Assumptions C17_all_elements_refuted.
