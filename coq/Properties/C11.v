(* C11 — Head provides everything the body references (classes, feature CSS, fonts). *)
From Coq Require Import List Bool NArith.
From Coq.Strings Require Import String Byte.
From GV Require Import Base.Bytes Head.Classes Facts.Accessors.
Import ListNotations.
Open Scope string_scope.
Open Scope list_scope.

(* the width of a head rule is the one encoded in the class name, for every width *)
Theorem C11_rule_width_is_encoded_pct : forall d, ~ In b_dash d -> width_of_class (class_of_pct d) = Some (d ++ [x25]).
Proof. exact width_of_class_pct. Qed.
Theorem C11_rule_width_is_encoded_px : forall n, width_of_class (class_of_px n) = Some (n ++ lit "px").
Proof. exact width_of_class_px. Qed.

(* the relation checked on every output: used classes = defined classes in both media blocks, widths right *)
Theorem C11_head_body_ok_sound : forall mq1 mq2 used, head_body_ok mq1 mq2 used = true ->
  (forall c, In c used -> In c (map fst mq1) /\ In c (map fst mq2)) /\
  (forall c w, In (c, w) (mq1 ++ mq2) -> In c used /\ width_of_class c = Some w).
Proof. exact head_body_ok_sound. Qed.

(* recomputed fact: font-family is read through the tracking accessor (GetAttributeWithDefault) or, for the
   components with their own accessors, by the listed sites that call TrackFontFamily themselves *)
Definition tracking_components : list string :=
  ["MJAccordionElementComponent"; "MJSocialElementComponent"; "BaseComponent"].
Theorem C11_fonts_tracked :
  forallb (fun s => negb (String.eqb (as_attr s) "font-family") ||
                    match as_kind s with Full => true | _ => existsb (String.eqb (as_comp s)) tracking_components end) acc_sites = true.
Proof. vm_compute. reflexivity. Qed.

Example C11_nonvacuous :
  head_body_ok [(lit "mj-column-per-33-333333333333336", lit "33.333333333333336%"); (lit "mj-column-px-100", lit "100px")]
               [(lit "mj-column-per-33-333333333333336", lit "33.333333333333336%"); (lit "mj-column-px-100", lit "100px")]
               [lit "mj-column-per-33-333333333333336"; lit "mj-column-px-100"; lit "mj-column-per-33-333333333333336"] = true /\
  head_body_ok [(lit "mj-column-per-100", lit "100%")] [(lit "mj-column-per-100", lit "100%")] [lit "mj-column-per-40"] = false.
Proof. split; vm_compute; reflexivity. Qed.

Print Assumptions C11_rule_width_is_encoded_pct.
Print Assumptions C11_head_body_ok_sound.
Print Assumptions C11_fonts_tracked.
