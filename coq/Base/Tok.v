(* The markup lexer: the one definition of "what a mail client sees" used by C01-C04, C10-C12, C19.
   It reads HTML as produced by gomjml / MJML: tags with quoted or unquoted attributes, text,
   comments, and the Outlook conditional-comment delimiters. *)
From Coq Require Import List Bool Arith Lia.
From Coq.Strings Require Import Byte String.
From GV Require Import Base.Bytes.
Import ListNotations.
Local Notation length := List.length.

Inductive tok :=
| TOpen (name : bytes) (attrs : list (bytes * bytes)) (selfclosed : bool)
| TClose (name : bytes)
| TText (s : bytes)
| TMsoOpen (cond : bytes)        (* <!--[if COND]>            Outlook-only block starts *)
| TMsoEnd                        (* <![endif]-->              Outlook-only block ends *)
| TNotMsoOpen (cond : bytes)     (* <!--[if COND]><!-->       block hidden from Outlook starts *)
| TNotMsoEnd                     (* <!--<![endif]-->          block hidden from Outlook ends *)
| TCmt (s : bytes)               (* any other comment *)
| TDoctype (s : bytes).

Definition b_lt := x3c. Definition b_gt := x3e. Definition b_slash := x2f. Definition b_eq := x3d.
Definition b_dq := x22. Definition b_sq := x27. Definition b_bang := x21.

Definition is_name_char (c : byte) : bool :=
  negb (is_ws c) && negb (beq c b_gt) && negb (beq c b_slash) && negb (beq c b_eq) && negb (beq c b_lt).

(* split s at the first occurrence of p: Some (before, after p) *)
Fixpoint cut (p s : bytes) : option (bytes * bytes) :=
  if prefix p s then Some ([], skipn (length p) s) else
  match s with
  | [] => None
  | c :: r => match cut p r with Some (a, b) => Some (c :: a, b) | None => None end
  end.

Lemma cut_shorter p s a b : cut p s = Some (a, b) -> length b <= length s.
Proof.
  revert a b. induction s as [|c r IH]; intros a b; cbn [cut].
  - destruct (prefix p []); [|discriminate]. intros H. inversion H; subst. rewrite skipn_nil. cbn. lia.
  - destruct (prefix p (c :: r)).
    + intros H. inversion H; subst. pose proof (skipn_length (length p) (c :: r)). lia.
    + destruct (cut p r) as [[a' b']|]; [|discriminate]. intros H. inversion H; subst. specialize (IH _ _ eq_refl). cbn. lia.
Qed.

(* attributes of a start tag: s is the text after the tag name up to (not including) '>' *)
Fixpoint lex_attrs (fuel : nat) (s : bytes) : list (bytes * bytes) :=
  match fuel with
  | 0 => []
  | S f =>
      let s := drop_while (fun c => is_ws c || beq c b_slash) s in
      match s with
      | [] => []
      | _ =>
          let nm := take_while is_name_char s in
          let r := drop_while is_ws (skipn (length nm) s) in
          match nm with
          | [] => lex_attrs f (skipn 1 s)           (* stray character: skip it *)
          | _ =>
              match r with
              | c :: r' =>
                  if beq c b_eq then
                    let r'' := drop_while is_ws r' in
                    match r'' with
                    | q :: body =>
                        if beq q b_dq || beq q b_sq then
                          let v := take_while (fun x => negb (beq x q)) body in
                          (nm, v) :: lex_attrs f (skipn (S (length v)) body)
                        else
                          let v := take_while (fun x => negb (is_ws x)) r'' in
                          (nm, v) :: lex_attrs f (skipn (length v) r'')
                    | [] => [(nm, [])]
                    end
                  else (nm, []) :: lex_attrs f r
              | [] => [(nm, [])]
              end
          end
      end
  end.

(* end of a start tag: index after the closing '>' that is outside quotes *)
Fixpoint tag_end (quote : option byte) (n : nat) (s : bytes) : option nat :=
  match s with
  | [] => None
  | c :: r =>
      match quote with
      | Some q => if beq c q then tag_end None (S n) r else tag_end quote (S n) r
      | None => if beq c b_gt then Some (S n)
                else if beq c b_dq || beq c b_sq then tag_end (Some c) (S n) r
                else tag_end None (S n) r
      end
  end.

Definition raw_text_tags : list bytes := [lit "style"; lit "script"].


(* one token from the head of s: Some (token, rest). Never fails on non-empty input. *)
Definition lex1 (s : bytes) : option (tok * bytes) :=
  match s with
  | [] => None
  | c :: r =>
      if negb (beq c b_lt) then
        let t := take_while (fun x => negb (beq x b_lt)) s in Some (TText t, skipn (length t) s)
      else if prefix (lit "<!--<![endif]-->") s then Some (TNotMsoEnd, skipn 16 s)
      else if prefix (lit "<![endif]-->") s then Some (TMsoEnd, skipn 12 s)
      else if prefix (lit "<!--[if") s then
        match cut (lit "]>") (skipn 7 s) with
        | Some (cond, after) =>
            if prefix (lit "<!-->") after then Some (TNotMsoOpen (drop_while is_ws cond), skipn 5 after)
            else Some (TMsoOpen (drop_while is_ws cond), after)
        | None => Some (TText s, [])
        end
      else if prefix (lit "<!--") s then
        match cut (lit "-->") (skipn 4 s) with
        | Some (body, after) => Some (TCmt body, after)
        | None => Some (TCmt (skipn 4 s), [])
        end
      else if prefix (lit "<!") s then
        match cut [b_gt] (skipn 2 s) with
        | Some (body, after) => Some (TDoctype body, after)
        | None => Some (TText s, [])
        end
      else if prefix (lit "</") s then
        match cut [b_gt] (skipn 2 s) with
        | Some (nm, after) => Some (TClose (to_lower (take_while is_name_char nm)), after)
        | None => Some (TText s, [])
        end
      else
        match r with
        | d :: _ =>
            if is_name_char d && negb (beq d b_bang) then
              match tag_end None 0 s with
              | Some n =>
                  let inside := firstn (n - 2) r in              (* between '<' and '>' *)
                  let nm := take_while is_name_char inside in
                  let rest := skipn (length nm) inside in
                  let sc := match drop_while is_ws (rev rest) with z :: _ => beq z b_slash | [] => false end in
                  Some (TOpen (to_lower nm) (lex_attrs (S (length rest)) rest) sc, skipn n s)
              | None => Some (TText s, [])
              end
            else Some (TText [c], r)
        | [] => Some (TText [c], [])
        end
  end.

(* raw-text elements (style, script): their content is one text token up to the closing tag *)
Definition raw_close (nm : bytes) : bytes := lit "</" ++ nm.

Fixpoint lex_fuel (fuel : nat) (s : bytes) : list tok :=
  match fuel with
  | 0 => []
  | S f =>
      match lex1 s with
      | None => []
      | Some (t, rest) =>
          match t with
          | TOpen nm _ false =>
              if existsb (bytes_eqb nm) raw_text_tags then
                match index_ci (raw_close nm) rest with
                | Some i => t :: (if Nat.eqb i 0 then [] else [TText (firstn i rest)]) ++ lex_fuel f (skipn i rest)
                | None => t :: [TText rest]
                end
              else t :: lex_fuel f rest
          | _ => t :: lex_fuel f rest
          end
      end
  end.
Definition lex (s : bytes) : list tok := lex_fuel (S (length s)) s.

(* ---- the two readings ---------------------------------------------------------------------------- *)
Inductive ev := EOpen (n : bytes) | EClose (n : bytes) | EText (s : bytes).
Inductive cstate := Closed | InMso | InNotMso.
Inductive view_kind := Std | Mso.

Definition void_tags : list bytes :=
  map lit ["area"; "base"; "br"; "col"; "embed"; "hr"; "img"; "input"; "link"; "meta"; "param"; "source"; "track"; "wbr"]%string.
Definition is_void (n : bytes) : bool := existsb (bytes_eqb n) void_tags.

Definition all_space (s : bytes) : bool := forallb is_ws s.

Definition tok_events (t : tok) : list ev :=
  match t with
  | TOpen n _ sc => if sc || is_void n then [] else [EOpen n]
  | TClose n => if is_void n then [] else [EClose n]
  | TText s => if all_space s then [] else [EText s]
  | _ => []
  end.

(* A standard client reads "<!--[if mso]> ... <![endif]-->" as one comment and shows the content of
   "<!--[if !mso]><!--> ... <!--<![endif]-->"; Outlook does the opposite. A token of the comment class
   in the wrong state is malformed (None): conditional comments are never nested, an Outlook block is
   closed by <![endif]--> before any other comment, endif markers only close what is open. *)
Definition vstep (v : view_kind) (st : cstate) (t : tok) : option (list ev * cstate) :=
  match st, t with
  | Closed, TMsoOpen _ => Some ([], InMso)
  | Closed, TNotMsoOpen _ => Some ([], InNotMso)
  | Closed, TMsoEnd => None
  | Closed, TNotMsoEnd => None
  | Closed, TCmt _ => Some ([], Closed)
  | Closed, _ => Some (tok_events t, Closed)
  | InMso, TMsoEnd => Some ([], Closed)
  | InMso, TMsoOpen _ => None
  | InMso, TNotMsoOpen _ => None
  | InMso, TNotMsoEnd => None
  | InMso, TCmt _ => None
  | InMso, _ => Some (match v with Mso => tok_events t | Std => [] end, InMso)
  | InNotMso, TNotMsoEnd => Some ([], Closed)
  | InNotMso, TMsoOpen _ => None
  | InNotMso, TNotMsoOpen _ => None
  | InNotMso, TMsoEnd => None
  | InNotMso, TCmt _ => Some ([], InNotMso)
  | InNotMso, _ => Some (match v with Std => tok_events t | Mso => [] end, InNotMso)
  end.

Fixpoint view (v : view_kind) (st : cstate) (ts : list tok) : option (list ev * cstate) :=
  match ts with
  | [] => Some ([], st)
  | t :: r =>
      match vstep v st t with
      | None => None
      | Some (e, st') => match view v st' r with Some (e', st'') => Some (e ++ e', st'') | None => None end
      end
  end.

(* Outlook-only markup (VML, o: elements) must not be visible to standard clients *)
Definition is_outlook_only (n : bytes) : bool := prefix (lit "v:") n || prefix (lit "o:") n.
Definition no_outlook_markup (es : list ev) : bool :=
  forallb (fun e => match e with EOpen n | EClose n => negb (is_outlook_only n) | EText _ => true end) es.

(* ---- strict nesting ------------------------------------------------------------------------------ *)
Fixpoint run (st : list bytes) (es : list ev) : option (list bytes) :=
  match es with
  | [] => Some st
  | EOpen n :: r => run (n :: st) r
  | EClose n :: r => match st with m :: st' => if bytes_eqb m n then run st' r else None | [] => None end
  | EText _ :: r => run st r
  end.

Definition balanced (es : list ev) : bool := match run [] es with Some [] => true | _ => false end.

(* the whole judgement on an output, used as the direct oracle of C02 / C03 *)
Definition check_view (v : view_kind) (ts : list tok) : bool :=
  match view v Closed ts with
  | Some (es, Closed) => balanced es && match v with Std => no_outlook_markup es | Mso => true end
  | _ => false
  end.
Definition check_views (ts : list tok) : bool := check_view Std ts && check_view Mso ts.

(* outside-Outlook-block self-closed VML etc. is caught through tags only; also reject a self-closed
   or void Outlook-only element outside an Outlook block *)
Fixpoint no_vml_outside (st : cstate) (ts : list tok) : bool :=
  match ts with
  | [] => true
  | t :: r =>
      let st' := match st, t with
                 | Closed, TMsoOpen _ => InMso | Closed, TNotMsoOpen _ => InNotMso
                 | InMso, TMsoEnd => Closed | InNotMso, TNotMsoEnd => Closed | _, _ => st end in
      (match st, t with
       | InMso, _ => true
       | _, TOpen n _ _ => negb (is_outlook_only n)
       | _, TClose n => negb (is_outlook_only n)
       | _, _ => true
       end) && no_vml_outside st' r
  end.

(* the character data a reading shows, in order *)
Definition view_texts (v : view_kind) (ts : list tok) : option (list bytes) :=
  match view v Closed ts with
  | Some (es, _) => Some (flat_map (fun e => match e with EText s => [s] | _ => [] end) es)
  | None => None
  end.
