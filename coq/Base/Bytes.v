(* Byte strings and the Go strings/bytes functions the code under study uses.
   All functions are structurally recursive (a [skip] counter replaces index arithmetic), total
   and executable; they are extracted to OCaml for the correspondence checks. *)
From Coq Require Import List Bool Arith Lia.
From Coq.Strings Require Import Byte String Ascii.
Import ListNotations.

Definition bytes := list byte.
Definition lit (s : string) : bytes := list_byte_of_string s.
Definition beq (a b : byte) : bool := Byte.eqb a b.
Arguments beq : simpl never.

Lemma beq_eq a b : beq a b = true <-> a = b.
Proof. split; [apply byte_dec_bl|apply byte_dec_lb]. Qed.
Lemma beq_refl a : beq a a = true. Proof. now apply beq_eq. Qed.
Lemma beq_neq a b : beq a b = false <-> a <> b.
Proof.
  split.
  - intros H E. apply beq_eq in E. congruence.
  - intros H. destruct (beq a b) eqn:E; [apply beq_eq in E; contradiction|reflexivity].
Qed.

Fixpoint bytes_eqb (a b : bytes) : bool :=
  match a, b with
  | [], [] => true
  | x :: a', y :: b' => beq x y && bytes_eqb a' b'
  | _, _ => false
  end.
Lemma bytes_eqb_eq a : forall b, bytes_eqb a b = true <-> a = b.
Proof.
  induction a as [|x a IH]; destruct b as [|y b]; cbn; try (split; [discriminate|discriminate]); try tauto.
  rewrite andb_true_iff, beq_eq, IH. split; [intros [-> ->]; reflexivity|intros H; inversion H; auto].
Qed.

Definition mem_byte (c : byte) (l : bytes) : bool := existsb (beq c) l.

(* ---- prefixes, search -------------------------------------------------------------------- *)
Fixpoint prefix (p s : bytes) : bool :=     (* strings.HasPrefix(s, p) *)
  match p, s with
  | [], _ => true
  | x :: p', y :: s' => beq x y && prefix p' s'
  | _ :: _, [] => false
  end.

Lemma prefix_app p s : prefix p (p ++ s) = true.
Proof. induction p as [|x p IH]; cbn; [reflexivity|]. now rewrite beq_refl, IH. Qed.
Lemma prefix_spec p : forall s, prefix p s = true <-> exists r, s = p ++ r.
Proof.
  induction p as [|x p IH]; intros s; cbn.
  - split; [intros _; exists s; reflexivity|reflexivity].
  - destruct s as [|y s]; [split; [discriminate|intros [r H]; discriminate]|].
    rewrite andb_true_iff, beq_eq, IH. split.
    + intros [-> [r ->]]. exists r. reflexivity.
    + intros [r H]. inversion H; subst. split; [reflexivity|exists r; reflexivity].
Qed.

(* strings.Contains(s, p) *)
Fixpoint contains (p s : bytes) : bool :=
  prefix p s || match s with [] => false | _ :: r => contains p r end.

(* strings.Index(s, p) *)
Fixpoint index (p s : bytes) : option nat :=
  if prefix p s then Some 0 else
  match s with [] => None | _ :: r => option_map S (index p r) end.

Lemma index_none_contains p s : index p s = None <-> contains p s = false.
Proof.
  induction s as [|c r IH]; cbn.
  - destruct (prefix p []); split; try discriminate; auto.
  - destruct (prefix p (c :: r)); cbn; [split; discriminate|].
    destruct (index p r); cbn; rewrite <- IH; split; try discriminate; auto.
Qed.

(* ASCII case folding (the code lower-cases tag names only) *)
Definition lower (c : byte) : byte :=
  let n := Byte.to_nat c in
  if (65 <=? n) && (n <=? 90) then match Byte.of_nat (n + 32) with Some b => b | None => c end else c.
Definition to_lower (s : bytes) : bytes := map lower s.
Definition beq_ci (a b : byte) : bool := beq a b || beq (lower a) (lower b).
Fixpoint prefix_ci (p s : bytes) : bool :=     (* equalFoldASCII on the needle's length *)
  match p, s with
  | [], _ => true
  | x :: p', y :: s' => beq_ci y x && prefix_ci p' s'
  | _ :: _, [] => false
  end.
Fixpoint contains_ci (p s : bytes) : bool :=
  prefix_ci p s || match s with [] => false | _ :: r => contains_ci p r end.
Fixpoint index_ci (p s : bytes) : option nat :=   (* indexCI(s, p, 0) *)
  if prefix_ci p s then Some 0 else
  match s with [] => None | _ :: r => option_map S (index_ci p r) end.

(* strings.ReplaceAll(s, old, new) for non-empty old: leftmost, non-overlapping *)
Fixpoint replace_all_aux (old new : bytes) (skip : nat) (s : bytes) : bytes :=
  match s with
  | [] => []
  | c :: r =>
      match skip with
      | S k => replace_all_aux old new k r
      | 0 => if prefix old s then new ++ replace_all_aux old new (List.length old - 1) r
             else c :: replace_all_aux old new 0 r
      end
  end.
Definition replace_all (old new s : bytes) : bytes :=
  match old with [] => s | _ => replace_all_aux old new 0 s end.

Lemma replace_all_absent old new s : contains old s = false -> replace_all old new s = s.
Proof.
  destruct old as [|o old]; [reflexivity|]. unfold replace_all.
  induction s as [|c r IH]; cbn [replace_all_aux contains]; [reflexivity|].
  intros H. apply orb_false_iff in H. destruct H as [H1 H2]. rewrite H1. f_equal. apply IH. exact H2.
Qed.

Definition is_ws (c : byte) : bool := mem_byte c [x20; x09; x0d; x0a].   (* ' ' \t \r \n *)
Fixpoint trim_left_ws (s : bytes) : bytes :=
  match s with c :: r => if is_ws c then trim_left_ws r else s | [] => [] end.
Fixpoint all_ws (s : bytes) : bool := match s with [] => true | c :: r => is_ws c && all_ws r end.
Lemma trim_left_all_ws s : all_ws s = true -> forall t, trim_left_ws (s ++ t) = trim_left_ws t.
Proof. induction s as [|c r IH]; cbn; [reflexivity|]. intros H t. apply andb_true_iff in H. destruct H as [-> H]. auto. Qed.

Definition count_byte (c : byte) (s : bytes) : nat := List.length (filter (beq c) s).
Lemma count_byte_app c a b : count_byte c (a ++ b) = count_byte c a + count_byte c b.
Proof. unfold count_byte. now rewrite filter_app, app_length. Qed.

Fixpoint take_while (f : byte -> bool) (s : bytes) : bytes :=
  match s with c :: r => if f c then c :: take_while f r else [] | [] => [] end.
Fixpoint drop_while (f : byte -> bool) (s : bytes) : bytes :=
  match s with c :: r => if f c then drop_while f r else s | [] => [] end.
Lemma take_drop_while f s : take_while f s ++ drop_while f s = s.
Proof. induction s as [|c r IH]; cbn; [reflexivity|]. destruct (f c); cbn; [now rewrite IH|reflexivity]. Qed.
