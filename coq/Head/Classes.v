(* C11: responsive column classes.  The class name encodes its width (column.GetColumnClass:
   "mj-column-per-" ++ decimal with '.' replaced by '-', or "mj-column-px-" ++ integer); the head
   must define, in both media-query blocks, exactly the classes the body uses, each with the width
   its name encodes. *)
From Coq Require Import List Bool Arith Lia.
From Coq.Strings Require Import Byte String.
From GV Require Import Base.Bytes.
Import ListNotations.
Local Notation length := List.length.

Definition per_prefix := lit "mj-column-per-". Definition px_prefix := lit "mj-column-px-".
Definition b_dot := x2e. Definition b_dash := x2d.

Definition swap (a b : byte) (s : bytes) : bytes := map (fun c => if beq c a then b else c) s.

(* GetColumnClass *)
Definition class_of_pct (decimal : bytes) : bytes := per_prefix ++ swap b_dot b_dash decimal.
Definition class_of_px (int : bytes) : bytes := px_prefix ++ int.
(* the width a class name encodes, as the head rule must spell it *)
Definition width_of_class (c : bytes) : option bytes :=
  if prefix per_prefix c then Some (swap b_dash b_dot (skipn (length per_prefix) c) ++ [x25])        (* % *)
  else if prefix px_prefix c then Some (skipn (length px_prefix) c ++ lit "px")
  else None.

Lemma swap_back a b s : ~ In b s -> swap b a (swap a b s) = s.
Proof.
  induction s as [|c r IH]; cbn; [reflexivity|]. intros H.
  assert (Hc : c <> b) by (intros ->; apply H; now left). assert (Hr : ~ In b r) by (intros X; apply H; now right).
  destruct (beq c a) eqn:E.
  - apply beq_eq in E. subst. rewrite beq_refl. f_equal. auto.
  - assert (E2 : beq c b = false) by (now apply beq_neq). rewrite E2. f_equal. auto.
Qed.

Lemma skipn_app_exact (p s : bytes) : skipn (length p) (p ++ s) = s.
Proof. induction p; cbn; auto. Qed.

(* the rule's width is the one encoded in the class name: for every decimal string (no '-') *)
Theorem width_of_class_pct d : ~ In b_dash d -> width_of_class (class_of_pct d) = Some (d ++ [x25]).
Proof.
  intros H. unfold width_of_class, class_of_pct. rewrite prefix_app, skipn_app_exact, swap_back by exact H. reflexivity.
Qed.
Theorem width_of_class_px n : width_of_class (class_of_px n) = Some (n ++ lit "px").
Proof.
  unfold width_of_class, class_of_px.
  assert (E : prefix per_prefix (px_prefix ++ n) = false) by reflexivity.
  rewrite E, prefix_app, skipn_app_exact. reflexivity.
Qed.

(* ---- the relation between head and body, executable ---- *)
Definition memb (c : bytes) (l : list bytes) : bool := existsb (bytes_eqb c) l.
Definition rule_ok (r : bytes * bytes) : bool :=
  match width_of_class (fst r) with Some w => bytes_eqb w (snd r) | None => false end.

Definition head_body_ok (mq1 mq2 : list (bytes * bytes)) (used : list bytes) : bool :=
  forallb (fun c => memb c (map fst mq1) && memb c (map fst mq2)) used &&
  forallb (fun r => memb (fst r) used && rule_ok r) (mq1 ++ mq2).

Lemma memb_In c l : memb c l = true <-> In c l.
Proof.
  unfold memb. rewrite existsb_exists. split.
  - intros (x & Hx & E). apply bytes_eqb_eq in E. now subst.
  - intros H. exists c. split; [exact H|now apply bytes_eqb_eq].
Qed.

(* what an accepted output satisfies: every class used in the body has a rule in both blocks; every
   rule in either block is used and carries the width its name encodes *)
Theorem head_body_ok_sound mq1 mq2 used : head_body_ok mq1 mq2 used = true ->
  (forall c, In c used -> In c (map fst mq1) /\ In c (map fst mq2)) /\
  (forall c w, In (c, w) (mq1 ++ mq2) -> In c used /\ width_of_class c = Some w).
Proof.
  unfold head_body_ok. intros H. apply andb_true_iff in H. destruct H as [H1 H2]. rewrite forallb_forall in H1, H2. split.
  - intros c Hc. specialize (H1 c Hc). apply andb_true_iff in H1. destruct H1 as [A B]. split; now apply memb_In.
  - intros c w Hr. specialize (H2 (c, w) Hr). apply andb_true_iff in H2. destruct H2 as [A B]. split; [now apply memb_In|].
    unfold rule_ok in B. cbn [fst snd] in B. destruct (width_of_class c) as [w'|]; [|discriminate]. apply bytes_eqb_eq in B. now subst.
Qed.
