(* C17 / C04: which elements of a document are constructed as components (port of
   mjml/component.go: CreateComponent, createMJMLComponent, processSectionChildren,
   processComponentChildren) and what the validation hook reports for them (port of
   mjml/components/allowed_attributes.go: validateComponentAttributes). *)
From Coq Require Import List String Bool NArith.
Import ListNotations.
Open Scope string_scope.

Inductive tree := T (tag : string) (attrs : list (string * string)) (line : N) (kids : list tree).
Definition ttag (t : tree) := match t with T g _ _ _ => g end.
Definition tattrs (t : tree) := match t with T _ a _ _ => a end.
Definition tline (t : tree) := match t with T _ _ l _ => l end.
Definition tkids (t : tree) := match t with T _ _ _ k => k end.

Definition mem (s : string) (l : list string) : bool := existsb (String.eqb s) l.
Definition first_child (g : string) (l : list tree) : option tree := find (fun t => String.eqb (ttag t) g) l.

Section Factory.
  Variable factory_tags : list string.        (* tags CreateComponent has a case for (recomputed fact) *)
  Definition known (t : tree) : bool := mem (ttag t) factory_tags.
  Definition created (l : list tree) : list tree := filter known l.

  (* children reached by processComponentChildren for a content component *)
  Definition comp_children (x : tree) : list tree :=
    let g := ttag x in
    if String.eqb g "mj-social" || String.eqb g "mj-navbar" || String.eqb g "mj-hero" || String.eqb g "mj-carousel" then created (tkids x)
    else if String.eqb g "mj-accordion" then
      flat_map (fun e => e :: (if String.eqb (ttag e) "mj-accordion-element" then created (tkids e) else [])) (created (tkids x))
    else [].

  Definition col_children (c : tree) : list tree := flat_map (fun x => x :: comp_children x) (created (tkids c)).

  Definition sec_children (s : tree) : list tree :=
    flat_map (fun c =>
      c :: (if String.eqb (ttag c) "mj-column" then col_children c
            else if String.eqb (ttag c) "mj-group" then
              flat_map (fun gc => gc :: (if String.eqb (ttag gc) "mj-column" then col_children gc else [])) (created (tkids c))
            else [])) (created (tkids s)).

  Definition body_child (b : tree) : list tree :=
    let g := ttag b in
    b :: (if String.eqb g "mj-section" then sec_children b
          else if String.eqb g "mj-wrapper" then
            flat_map (fun w => w :: (if String.eqb (ttag w) "mj-section" then sec_children w else [])) (created (tkids b))
          else if String.eqb g "mj-hero" || String.eqb g "mj-carousel" then created (tkids b)
          else []).

  (* every element for which a component is constructed, in construction order *)
  Definition constructed (root : tree) : list tree :=
    if negb (String.eqb (ttag root) "mjml") then (if known root then [root] else []) else
    root ::
    (match first_child "mj-head" (tkids root) with
     | Some h => h :: created (tkids h)
     | None => []
     end) ++
    (match first_child "mj-body" (tkids root) with
     | Some b => b :: flat_map body_child (created (tkids b))
     | None => []
     end).
End Factory.

Section Validate.
  Variable allowed : list (string * list string).   (* allowed-css-attributes.json (recomputed fact) *)
  Variable global_names : list string.
  Variable global_prefixes : list string.

  Definition lookup_tag (g : string) : option (list string) :=
    match find (fun p => String.eqb (fst p) g) allowed with Some p => Some (snd p) | None => None end.
  Definition has_prefix (p s : string) : bool := String.prefix p s.
  Definition globally_allowed (a : string) : bool :=
    negb (String.eqb a "") && (existsb (fun p => has_prefix p a) global_prefixes || mem a global_names).
  Definition accepted (names : list string) (a : string) : bool := globally_allowed a || mem a names.

  (* what validateComponentAttributes reports for one constructed element *)
  Definition validate_node (t : tree) : list (string * string * N) :=
    match lookup_tag (ttag t) with
    | None => []
    | Some names => map (fun kv => (ttag t, fst kv, tline t)) (filter (fun kv => negb (accepted names (fst kv))) (tattrs t))
    end.

  Variable factory_tags : list string.
  Definition report (root : tree) : list (string * string * N) := flat_map validate_node (constructed factory_tags root).

  (* an error is reported iff some constructed element whose tag has a table entry carries an
     attribute that is neither always-accepted nor in its table - each such (element, attribute)
     once, with the element's line, and nothing else *)
  Theorem report_iff : forall root g a l,
    In (g, a, l) (report root) <->
    exists t names v, In t (constructed factory_tags root) /\ ttag t = g /\ tline t = l /\
                      lookup_tag g = Some names /\ In (a, v) (tattrs t) /\ accepted names a = false.
  Proof.
    intros root g a l. unfold report. rewrite in_flat_map. split.
    - intros (t & Hin & Hv). unfold validate_node in Hv. destruct (lookup_tag (ttag t)) as [names|] eqn:E; [|destruct Hv].
      apply in_map_iff in Hv. destruct Hv as ([a' v] & Heq & Hf). apply filter_In in Hf. destruct Hf as [Hattr Hacc].
      inversion Heq; subst. cbn in *. exists t, names, v. repeat split; auto. apply negb_true_iff in Hacc. exact Hacc.
    - intros (t & names & v & Hin & Hg & Hl & Hlk & Hattr & Hacc). exists t. split; [exact Hin|].
      unfold validate_node. subst g. rewrite Hlk. apply in_map_iff. exists (a, v). split; [cbn; subst; reflexivity|].
      apply filter_In. split; [exact Hattr|]. cbn. rewrite Hacc. reflexivity.
  Qed.

  Corollary no_error_iff_all_accepted : forall root,
    report root = [] <->
    forall t names a v, In t (constructed factory_tags root) -> lookup_tag (ttag t) = Some names -> In (a, v) (tattrs t) -> accepted names a = true.
  Proof.
    intros root. split.
    - intros H t names a v Hin Hlk Hattr. destruct (accepted names a) eqn:E; [reflexivity|]. exfalso.
      assert (In (ttag t, a, tline t) (report root)) by (apply report_iff; exists t, names, v; auto 10).
      rewrite H in H0. destruct H0.
    - intros H. destruct (report root) as [|[[g a] l] r] eqn:E; [reflexivity|]. exfalso.
      assert (Hin : In (g, a, l) (report root)) by (rewrite E; now left).
      apply report_iff in Hin. destruct Hin as (t & names & v & Hin & Hg & _ & Hlk & Hattr & Hacc).
      subst g. rewrite (H t names a v Hin Hlk Hattr) in Hacc. discriminate.
  Qed.

  (* data-*, aria-*, css-class, mj-class and class are never reported *)
  Theorem always_accepted : forall names a,
    a <> "" -> (existsb (fun p => has_prefix p a) global_prefixes = true \/ mem a global_names = true) -> accepted names a = true.
  Proof.
    intros names a Hne H. unfold accepted, globally_allowed.
    assert (E : String.eqb a "" = false) by (apply String.eqb_neq; exact Hne). rewrite E. cbn.
    destruct H as [-> | ->]; cbn; [reflexivity|]. rewrite orb_true_r. reflexivity.
  Qed.
End Validate.
