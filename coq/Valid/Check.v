(* Executable comparison of observed validation reports with the model (correspondence H for C17). *)
From Coq Require Import List String Bool NArith.
From GV Require Import Valid.Model Facts.Allowed Facts.Factory.
Import ListNotations.
Open Scope string_scope.

Definition item_eqb (a b : string * string * N) : bool :=
  match a, b with (g, x, l), (g', x', l') => String.eqb g g' && String.eqb x x' && N.eqb l l' end.
Definition count_item (x : string * string * N) (l : list (string * string * N)) : nat := List.length (filter (item_eqb x) l).
Definition same_multiset (a b : list (string * string * N)) : bool :=
  Nat.eqb (List.length a) (List.length b) && forallb (fun x => Nat.eqb (count_item x a) (count_item x b)) a.

Definition vcase := (N * tree * list (string * string * N))%type.
Definition mismatches (l : list vcase) : list N :=
  flat_map (fun c => match c with (id, t, obs) =>
    if same_multiset (report allowed_table global_names global_prefixes factory_tags t) obs then [] else [id] end) l.
