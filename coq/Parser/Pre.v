(* C18 / C04 / C12: the three textual pre-passes of parser.ParseMJML (parser/parser.go):
   stripNonMSOComments, preprocessHTMLEntities (with escapeAttributeAmpersands), wrapMJTextContent
   (with findTagEnd, indexCI, normalizeSelfClosingVoidTags).  Source constants (entity names, void
   element names, the entity replacement table) are parameters instantiated from the facts
   re-extracted on every run (Facts/ParserConsts.v). *)
From Coq Require Import List Bool Arith Lia.
From Coq.Strings Require Import Byte String.
From GV Require Import Base.Bytes.
Import ListNotations.

Definition b_lt := x3c. Definition b_gt := x3e. Definition b_amp := x26. Definition b_semi := x3b.
Definition b_dq := x22. Definition b_sq := x27. Definition b_slash := x2f. Definition b_hash := x23.
Definition b_sp := x20.

(* ---- stripNonMSOComments -------------------------------------------------------------------- *)
Definition open_cmt := lit "<!--". Definition close_cmt := lit "-->".

(* prefix scanner: copies everything outside comments; an unterminated comment drops the rest *)
Fixpoint strip_comments (incmt : bool) (skip : nat) (s : bytes) : bytes :=
  match s with
  | [] => []
  | c :: r =>
      match skip with
      | S k => strip_comments incmt k r
      | 0 =>
          if incmt then (if prefix close_cmt s then strip_comments false 2 r else strip_comments true 0 r)
          else if prefix open_cmt s then
                 (if contains close_cmt (skipn 4 s) then strip_comments true 3 r else [])
               else c :: strip_comments false 0 r
      end
  end.

Definition mjml_needle := lit "<mjml".
Definition strip_non_mso_comments (s : bytes) : bytes :=
  match index_ci mjml_needle s with
  | None => s
  | Some idx =>
      let pre := firstn idx s in
      let rest := skipn idx s in
      if contains open_cmt pre then trim_left_ws (strip_comments false 0 pre) ++ rest
      else trim_left_ws pre ++ rest
  end.

(* ---- escapeAttributeAmpersands ------------------------------------------------------------------ *)
Section Entities.
  Variable named_entities : list bytes.     (* keys of namedHTMLEntities *)

  Definition is_digit (c : byte) : bool := let n := Byte.to_nat c in (48 <=? n) && (n <=? 57).
  Definition is_hex (c : byte) : bool :=
    let n := Byte.to_nat c in is_digit c || ((97 <=? n) && (n <=? 102)) || ((65 <=? n) && (n <=? 70)).
  Definition is_terminator (c : byte) : bool :=
    mem_byte c [b_semi; b_amp; b_sp; x0a; x09; b_dq; b_sq; b_lt; b_gt].

  Definition is_valid_entity (s : bytes) : bool :=
    match s with
    | [] => false
    | c :: r =>
        if beq c b_hash then
          match r with
          | [] => false
          | d :: r' => if beq d x78 || beq d x58 (* x X *) then (match r' with [] => false | _ => forallb is_hex r' end)
                       else forallb is_digit r
          end
        else existsb (bytes_eqb s) named_entities
    end.

  (* state: inTag, the open quote (if any), bytes still to skip *)
  Fixpoint esc_amp (in_tag : bool) (quote : option byte) (skip : nat) (s : bytes) : bytes :=
    match s with
    | [] => []
    | c :: r =>
        match skip with
        | S k => esc_amp in_tag quote k r
        | 0 =>
            match quote with
            | Some q =>
                if beq c q then c :: esc_amp in_tag None 0 r
                else if beq c b_amp then
                  let name := take_while (fun x => negb (beq x q) && negb (is_terminator x)) r in
                  let after := skipn (List.length name) r in
                  match after with
                  | t :: _ => if beq t b_semi && is_valid_entity name
                              then (c :: name ++ [b_semi]) ++ esc_amp in_tag quote (S (List.length name)) r
                              else lit "&amp;" ++ esc_amp in_tag quote 0 r
                  | [] => lit "&amp;" ++ esc_amp in_tag quote 0 r
                  end
                else c :: esc_amp in_tag quote 0 r
            | None =>
                if beq c b_lt then c :: esc_amp true None 0 r
                else if beq c b_gt then c :: esc_amp false None 0 r
                else if (beq c b_sq || beq c b_dq) && in_tag then c :: esc_amp in_tag (Some c) 0 r
                else c :: esc_amp in_tag None 0 r
            end
        end
    end.
  Definition escape_attribute_ampersands (s : bytes) : bytes := esc_amp false None 0 s.

  Variable entity_table : list (bytes * bytes).   (* the ReplaceAll calls of preprocessHTMLEntities, in order *)
  Definition preprocess_html_entities (s : bytes) : bytes :=
    fold_left (fun acc p => replace_all (fst p) (snd p) acc) entity_table (escape_attribute_ampersands s).
End Entities.

(* ---- wrapMJTextContent ---------------------------------------------------------------------------- *)
Definition open_needle := lit "<mj-text". Definition close_needle := lit "</mj-text>".
Definition cdata_start := lit "<![CDATA[". Definition cdata_end := lit "]]>".
Definition cdata_end_safe := lit "]]]]><![CDATA[>".

(* findTagEnd on the suffix starting at the tag: Some (length through '>', self-closing?) *)
Fixpoint find_tag_end (quote : option byte) (last_nonspace : byte) (n : nat) (s : bytes) : option (nat * bool) :=
  match s with
  | [] => None
  | c :: r =>
      let ln := if is_ws c then last_nonspace else c in
      match quote with
      | Some q => if beq c q then find_tag_end None ln (S n) r else find_tag_end quote ln (S n) r
      | None =>
          if beq c b_dq || beq c b_sq then find_tag_end (Some c) ln (S n) r
          else if beq c b_gt then Some (S n, (0 <? n) && beq last_nonspace b_slash)
          else find_tag_end None ln (S n) r
      end
  end.

Section Void.
  Variable void_names : list bytes.    (* keys of htmlVoidElements, sorted (the regexp's alternation order) *)

  (* regexp (?i)<(?:area|base|...)([^>]*?)/> at the head of s: length of the match *)
  Definition void_match (s : bytes) : option nat :=
    match s with
    | c :: r =>
        if beq c b_lt then
          match find (fun nm => prefix_ci nm r) void_names with
          | Some nm =>
              let after := skipn (List.length nm) r in
              let body := take_while (fun x => negb (beq x b_gt)) after in
              match skipn (List.length body) after with
              | g :: _ =>   (* the first '>' ; the match needs '/' right before it, inside the group *)
                  match rev body with
                  | z :: _ => if beq z b_slash then Some (1 + List.length nm + List.length body + 1) else None
                  | [] => None
                  end
              | [] => None
              end
          | None => None
          end
        else None
    | [] => None
    end.

  Fixpoint trim_right_spaces_rev (r : bytes) : bytes :=
    match r with c :: t => if beq c b_sp then trim_right_spaces_rev t else r | [] => [] end.
  Definition trim_right_spaces (s : bytes) : bytes := rev (trim_right_spaces_rev (rev s)).

  (* normalizeSelfClosingVoidTags *)
  Fixpoint normalize_void (skip : nat) (s : bytes) : bytes :=
    match s with
    | [] => []
    | c :: r =>
        match skip with
        | S k => normalize_void k r
        | 0 => match void_match s with
               | Some n => trim_right_spaces (firstn (n - 2) s) ++ lit " />" ++ normalize_void (n - 1) r
               | None => c :: normalize_void 0 r
               end
        end
    end.

  Definition wrap_inner (inner : bytes) : bytes :=
    let already := prefix cdata_start (trim_left_ws inner) in
    let inner' := normalize_void 0 inner in
    if already then inner'
    else cdata_start ++ (if contains cdata_end inner' then replace_all cdata_end cdata_end_safe inner' else inner') ++ cdata_end.

  (* None only when the fuel is exhausted (never, see wrap_total) *)
  Fixpoint wrap_fuel (fuel : nat) (s : bytes) : option bytes :=
    match fuel with
    | 0 => None
    | S f =>
        match index_ci open_needle s with
        | None => Some s
        | Some idx =>
            let before := firstn idx s in
            let at_tag := skipn idx s in
            match find_tag_end None x00 0 at_tag with
            | None => Some s
            | Some (n, selfclosing) =>
                let tag := firstn n at_tag in
                let after := skipn n at_tag in
                if selfclosing then option_map (fun w => before ++ tag ++ w) (wrap_fuel f after)
                else match index_ci close_needle after with
                     | None => Some s
                     | Some cidx =>
                         let inner := firstn cidx after in
                         let rest := skipn (cidx + List.length close_needle) after in
                         option_map (fun w => before ++ tag ++ wrap_inner inner ++ close_needle ++ w) (wrap_fuel f rest)
                     end
            end
        end
    end.
  Definition wrap_mj_text_content (s : bytes) : option bytes := wrap_fuel (S (List.length s)) s.
End Void.

(* the pipeline of ParseMJML before the XML decoder *)
Definition preprocess (named : list bytes) (table : list (bytes * bytes)) (voids : list bytes) (s : bytes) : option bytes :=
  wrap_mj_text_content voids (preprocess_html_entities named table (strip_non_mso_comments s)).
