(* C18: the recursive token loop of parser.parseNode (parser/parser.go) as a function from the XML
   token stream (produced by encoding/xml, trusted) to the tree; mj-raw capture by byte offsets is
   outside this model.  Round trip: building the flattening of a tree gives the tree back - exactly
   the elements, attributes, child order and text/child interleaving that the token stream has. *)
From Coq Require Import List Bool Arith Lia.
From Coq.Strings Require Import Byte String.
From GV Require Import Base.Bytes.
Import ListNotations.
Local Notation length := List.length.

Definition name := bytes.
Definition attrs := list (bytes * bytes).

Inductive xtok := XStart (n : name) (a : attrs) | XEnd (n : name) | XText (s : bytes) | XComment (s : bytes).

(* MJMLNode: name, attributes, MixedContent (text segments and child nodes in source order);
   Children and Text are projections of it *)
Inductive tree := Node (n : name) (a : attrs) (ps : parts)
with parts := PNil | PText (s : bytes) (r : parts) | PNode (t : tree) (r : parts).
Scheme tree_ind2 := Induction for tree Sort Prop
  with parts_ind2 := Induction for parts Sort Prop.

Fixpoint papp (a b : parts) : parts :=
  match a with PNil => b | PText s r => PText s (papp r b) | PNode t r => PNode t (papp r b) end.
Definition flush (seg : bytes) : parts := match seg with [] => PNil | _ => PText seg PNil end.

Fixpoint children (ps : parts) : list tree :=
  match ps with PNil => [] | PText _ r => children r | PNode t r => t :: children r end.
Fixpoint text_of (ps : parts) : bytes :=
  match ps with PNil => [] | PText s r => s ++ text_of r | PNode _ r => text_of r end.

Definition cmt_text (s : bytes) : bytes := lit "<!--" ++ s ++ lit "-->".

Fixpoint parse_elem (fuel : nat) (toks : list xtok) : option (tree * list xtok) :=
  match fuel with
  | 0 => None
  | S f =>
      match toks with
      | XStart n a :: r =>
          match parse_body f n [] PNil r with
          | Some (ps, r') => Some (Node n a ps, r')
          | None => None
          end
      | _ => None          (* "expected start element" *)
      end
  end
with parse_body (fuel : nat) (n : name) (seg : bytes) (acc : parts) (toks : list xtok) : option (parts * list xtok) :=
  match fuel with
  | 0 => None
  | S f =>
      match toks with
      | XStart _ _ :: _ =>
          match parse_elem f toks with
          | Some (child, r') => parse_body f n [] (papp acc (papp (flush seg) (PNode child PNil))) r'
          | None => None
          end
      | XEnd m :: r => if bytes_eqb m n then Some (papp acc (flush seg), r) else None   (* "unexpected end element" *)
      | XText s :: r => parse_body f n (seg ++ s) acc r
      | XComment s :: r => parse_body f n (seg ++ cmt_text s) acc r
      | [] => None         (* unexpected EOF *)
      end
  end.

(* the token stream of a tree *)
Fixpoint flatten (t : tree) : list xtok :=
  match t with Node n a ps => XStart n a :: flatten_parts ps ++ [XEnd n] end
with flatten_parts (ps : parts) : list xtok :=
  match ps with
  | PNil => []
  | PText s r => XText s :: flatten_parts r
  | PNode t r => flatten t ++ flatten_parts r
  end.

(* trees the builder can produce: text segments are non-empty and never adjacent *)
Fixpoint normal (t : tree) : Prop := match t with Node _ _ ps => normal_parts ps end
with normal_parts (ps : parts) : Prop :=
  match ps with
  | PNil => True
  | PText s r => s <> [] /\ (match r with PText _ _ => False | _ => True end) /\ normal_parts r
  | PNode t r => normal t /\ normal_parts r
  end.

Fixpoint size (t : tree) : nat := match t with Node _ _ ps => 2 + size_parts ps end
with size_parts (ps : parts) : nat :=
  match ps with PNil => 0 | PText _ r => 1 + size_parts r | PNode t r => size t + size_parts r end.

Lemma papp_nil a : papp a PNil = a.
Proof. induction a; cbn; congruence. Qed.
Lemma papp_assoc a b c : papp (papp a b) c = papp a (papp b c).
Proof. induction a; cbn; congruence. Qed.
Lemma bytes_eqb_refl n : bytes_eqb n n = true.
Proof. now apply bytes_eqb_eq. Qed.

Combined Scheme tree_parts_mutind from tree_ind2, parts_ind2.

Definition starts_no_text (ps : parts) : Prop := match ps with PText _ _ => False | _ => True end.

Lemma size_ge2 t : 2 <= size t. Proof. destruct t; cbn; lia. Qed.

(* Round trip, generalised for the induction: parsing the flattening of a tree (followed by any
   tokens) yields the tree and those tokens; parsing the flattening of a part list inside element n
   with pending segment seg appends the flushed segment and exactly those parts. *)
Lemma round_trip_gen :
  (forall t, normal t -> forall rest fuel, size t <= fuel -> parse_elem fuel (flatten t ++ rest) = Some (t, rest)) /\
  (forall ps, normal_parts ps -> forall n seg acc rest fuel, (seg = [] \/ starts_no_text ps) -> size_parts ps + 1 <= fuel ->
     parse_body fuel n seg acc (flatten_parts ps ++ XEnd n :: rest) = Some (papp acc (papp (flush seg) ps), rest)).
Proof.
  apply tree_parts_mutind.
  - (* Node *) intros n a ps IH Hn rest fuel Hf. cbn [size] in Hf. destruct fuel as [|f]; [lia|].
    cbn [flatten app parse_elem]. rewrite <- app_assoc. cbn [app].
    rewrite (IH Hn n [] PNil rest f) by (auto; lia). reflexivity.
  - (* PNil *) intros _ n seg acc rest fuel _ Hf. destruct fuel as [|f]; [cbn in Hf; lia|].
    cbn [flatten_parts app parse_body]. rewrite bytes_eqb_refl. now rewrite papp_nil.
  - (* PText *) intros s r IH (Hs & Hadj & Hr) n seg acc rest fuel Hseg Hf. cbn [size_parts] in Hf.
    destruct Hseg as [-> | []]. destruct fuel as [|f]; [lia|]. cbn [flatten_parts app parse_body].
    rewrite (IH Hr n s acc rest f) by (try lia; right; destruct r; cbn; auto).
    destruct s as [|c s0]; [contradiction|]. reflexivity.
  - (* PNode *) intros t IHt r IHr (Ht & Hr) n seg acc rest fuel _ Hf. cbn [size_parts] in Hf.
    pose proof (size_ge2 t) as H2. destruct fuel as [|f]; [lia|].
    cbn [flatten_parts]. rewrite <- app_assoc.
    destruct t as [tn ta tps] eqn:Et. cbn [flatten app]. cbn [parse_body].
    change (XStart tn ta :: (flatten_parts tps ++ [XEnd tn]) ++ flatten_parts r ++ XEnd n :: rest)
      with (flatten (Node tn ta tps) ++ (flatten_parts r ++ XEnd n :: rest)).
    rewrite (IHt Ht (flatten_parts r ++ XEnd n :: rest) f) by (cbn [size] in *; lia).
    rewrite (IHr Hr n [] (papp acc (papp (flush seg) (PNode (Node tn ta tps) PNil))) rest f) by (auto; cbn [size] in *; lia).
    f_equal. f_equal. cbn [flush papp]. rewrite !papp_assoc. cbn [papp]. reflexivity.
Qed.

(* build (flatten t) = t : elements, attributes, child order, character data and the interleaving
   of text and child elements are exactly those of the token stream *)
Theorem build_flatten t : normal t -> parse_elem (size t) (flatten t) = Some (t, []).
Proof.
  intros H. rewrite <- (app_nil_r (flatten t)). apply (proj1 round_trip_gen); auto.
Qed.

(* character data split over several tokens (as the decoder may deliver it) builds the same tree *)
Theorem text_split_irrelevant fuel n seg acc a b toks :
  parse_body (S (S fuel)) n seg acc (XText a :: XText b :: toks) = parse_body (S fuel) n seg acc (XText (a ++ b) :: toks).
Proof. cbn [parse_body]. now rewrite app_assoc. Qed.

Example build_nonvacuous :
  let t := Node (lit "mj-text") [(lit "color", lit "red")]
             (PText (lit "a ") (PNode (Node (lit "b") [] (PText (lit "bold") PNil)) (PText (lit " c") PNil))) in
  normal t /\ parse_elem (size t) (flatten t) = Some (t, []) /\
  children (match t with Node _ _ ps => ps end) = [Node (lit "b") [] (PText (lit "bold") PNil)] /\
  text_of (match t with Node _ _ ps => ps end) = lit "a  c".
Proof. repeat split; try discriminate; vm_compute; reflexivity. Qed.
