(* Theorems about the parser pre-passes (Parser/Pre.v). *)
From Coq Require Import List Bool Arith Lia.
From Coq.Strings Require Import Byte String.
From GV Require Import Base.Bytes Parser.Pre.
Import ListNotations.
Local Notation length := List.length.

(* ---- identity on strict documents ------------------------------------------------------------------ *)
Definition no_amp (s : bytes) : Prop := ~ In b_amp s.

Lemma prefix_head_in p s c r : p = c :: r -> prefix p s = true -> exists t, s = c :: t.
Proof. intros -> H. destruct s as [|y t]; cbn in H; [discriminate|]. apply andb_true_iff in H. destruct H as [H _]. apply beq_eq in H. subst. eauto. Qed.

Lemma contains_amp_absent old s r : old = b_amp :: r -> no_amp s -> contains old s = false.
Proof.
  intros -> H. induction s as [|y t IH]; cbn [contains prefix].
  - reflexivity.
  - destruct (beq b_amp y) eqn:E; cbn [andb orb].
    + apply beq_eq in E. subst. exfalso. apply H. now left.
    + apply IH. intros Hin. apply H. now right.
Qed.

Lemma esc_amp_no_amp named s : no_amp s -> forall in_tag quote, esc_amp named in_tag quote 0 s = s.
Proof.
  induction s as [|c r IH]; intros H in_tag quote; cbn [esc_amp]; [reflexivity|].
  assert (Hc : beq c b_amp = false).
  { apply beq_neq. intros ->. apply H. now left. }
  assert (Hr : no_amp r) by (intros Hin; apply H; now right).
  destruct quote as [q|].
  - destruct (beq c q); [now rewrite IH|]. rewrite Hc. now rewrite IH.
  - destruct (beq c b_lt); [now rewrite IH|]. destruct (beq c b_gt); [now rewrite IH|].
    destruct ((beq c b_sq || beq c b_dq) && in_tag); now rewrite IH.
Qed.

Definition table_starts_with_amp (table : list (bytes * bytes)) : bool :=
  forallb (fun p => match fst p with c :: _ => beq c b_amp | [] => false end) table.

Lemma entities_no_amp named table s : table_starts_with_amp table = true -> no_amp s ->
  preprocess_html_entities named table s = s.
Proof.
  intros Ht H. unfold preprocess_html_entities, escape_attribute_ampersands. rewrite esc_amp_no_amp by assumption.
  induction table as [|[old new] t IH]; cbn [fold_left]; [reflexivity|].
  cbn in Ht. apply andb_true_iff in Ht. destruct Ht as [Ho Ht]. cbn [fst snd].
  destruct old as [|c r]; [discriminate|]. apply beq_eq in Ho. subst c.
  rewrite replace_all_absent; [apply IH; exact Ht|]. eapply contains_amp_absent; eauto.
Qed.

Lemma contains_ci_index_none p s : contains_ci p s = false -> index_ci p s = None.
Proof.
  induction s as [|c r IH]; cbn.
  - intros H. apply orb_false_iff in H. destruct H as [-> _]. reflexivity.
  - intros H. apply orb_false_iff in H. destruct H as [H1 H2]. rewrite H1. now rewrite (IH H2).
Qed.

(* A document that is already strict XML for these passes - it starts at the root element,
   contains no ampersand and no mj-text element - is handed to the XML decoder unchanged. *)
Definition strict (s : bytes) : Prop :=
  prefix_ci mjml_needle s = true /\ no_amp s /\ contains_ci open_needle s = false.

Theorem identity_on_strict named table voids s : table_starts_with_amp table = true -> strict s ->
  preprocess named table voids s = Some s.
Proof.
  intros Ht (Hroot & Hamp & Htext). unfold preprocess.
  assert (E1 : strip_non_mso_comments s = s).
  { unfold strip_non_mso_comments. destruct s as [|c r]; [reflexivity|].
    cbn [index_ci]. rewrite Hroot. cbn. reflexivity. }
  rewrite E1, (entities_no_amp named table s Ht Hamp).
  unfold wrap_mj_text_content. cbn [wrap_fuel]. rewrite (contains_ci_index_none _ _ Htext). reflexivity.
Qed.

(* ---- a bare ampersand in an attribute value parses like &amp; ---------------------------------------- *)
Definition amp_name := lit "amp".

(* inside a quoted attribute value, an ampersand that does not start a valid entity is written out
   as &amp; ... *)
Lemma esc_amp_bare named q r in_tag : q = b_dq \/ q = b_sq ->
  (let name := take_while (fun x => negb (beq x q) && negb (is_terminator x)) r in
   match skipn (length name) r with t :: _ => beq t b_semi && is_valid_entity named name | [] => false end) = false ->
  esc_amp named in_tag (Some q) 0 (b_amp :: r) = lit "&amp;" ++ esc_amp named in_tag (Some q) 0 r.
Proof.
  intros Hq H. cbn [esc_amp].
  assert (E : beq b_amp q = false) by (destruct Hq as [-> | ->]; reflexivity). rewrite E.
  change (beq b_amp b_amp) with true. cbv iota. cbv zeta in H.
  destruct (skipn (length (take_while (fun x => negb (beq x q) && negb (is_terminator x)) r)) r) as [|t l]; [reflexivity|].
  rewrite H. reflexivity.
Qed.

(* ... and the strict spelling &amp; is kept as it is (amp is a valid entity) *)
Lemma esc_amp_strict named q r in_tag : q = b_dq \/ q = b_sq -> existsb (bytes_eqb amp_name) named = true ->
  esc_amp named in_tag (Some q) 0 (lit "&amp;" ++ r) = lit "&amp;" ++ esc_amp named in_tag (Some q) 0 r.
Proof.
  intros Hq Hn. change (lit "&amp;" ++ r) with (b_amp :: x61 :: x6d :: x70 :: b_semi :: r). cbn [esc_amp].
  assert (E : beq b_amp q = false) by (destruct Hq as [-> | ->]; reflexivity). rewrite E.
  change (beq b_amp b_amp) with true. cbv iota.
  assert (T : take_while (fun x => negb (beq x q) && negb (is_terminator x)) (x61 :: x6d :: x70 :: b_semi :: r) = amp_name).
  { destruct Hq as [-> | ->]; reflexivity. }
  rewrite T. change (length amp_name) with 3. cbn [skipn].
  change (beq b_semi b_semi) with true.
  assert (V : is_valid_entity named amp_name = true).
  { unfold is_valid_entity, amp_name. change (lit "amp") with (x61 :: x6d :: x70 :: nil).
    change (beq x61 b_hash) with false. cbv iota. exact Hn. }
  rewrite V. cbn [andb]. change (b_amp :: amp_name ++ [b_semi]) with (lit "&amp;"). cbn [esc_amp]. reflexivity.
Qed.

(* the lenient spelling is equivalent to the strict one *)
Theorem bare_ampersand_like_amp named q r in_tag : q = b_dq \/ q = b_sq -> existsb (bytes_eqb amp_name) named = true ->
  (let name := take_while (fun x => negb (beq x q) && negb (is_terminator x)) r in
   match skipn (length name) r with t :: _ => beq t b_semi && is_valid_entity named name | [] => false end) = false ->
  esc_amp named in_tag (Some q) 0 (b_amp :: r) = esc_amp named in_tag (Some q) 0 (lit "&amp;" ++ r).
Proof. intros Hq Hn H. rewrite esc_amp_bare, esc_amp_strict; auto. Qed.

(* ---- blank lines before the root are ignored ------------------------------------------------------- *)
Lemma index_ci_skip_ws ws doc : all_ws ws = true -> prefix_ci mjml_needle doc = true ->
  index_ci mjml_needle (ws ++ doc) = Some (length ws).
Proof.
  intros Hw Hd. induction ws as [|c r IH]; cbn [app length].
  - destruct doc as [|d t]; [discriminate|]. cbn [index_ci]. now rewrite Hd.
  - cbn in Hw. apply andb_true_iff in Hw. destruct Hw as [Hc Hr]. cbn [index_ci].
    assert (E : prefix_ci mjml_needle (c :: r ++ doc) = false).
    { unfold mjml_needle. cbn [lit list_byte_of_string prefix_ci].
      unfold is_ws, mem_byte in Hc. cbn in Hc.
      destruct (beq c x20) eqn:E1; [apply beq_eq in E1; subst; reflexivity|].
      destruct (beq c x09) eqn:E2; [apply beq_eq in E2; subst; reflexivity|].
      destruct (beq c x0d) eqn:E3; [apply beq_eq in E3; subst; reflexivity|].
      destruct (beq c x0a) eqn:E4; [apply beq_eq in E4; subst; reflexivity|discriminate]. }
    rewrite E. rewrite (IH Hr). reflexivity.
Qed.

Lemma contains_open_cmt_ws ws : all_ws ws = true -> contains open_cmt ws = false.
Proof.
  induction ws as [|c r IH]; [reflexivity|]. intros H. cbn [all_ws] in H. apply andb_true_iff in H. destruct H as [Hc Hr].
  cbn [contains]. rewrite (IH Hr). rewrite orb_false_r.
  unfold is_ws, mem_byte in Hc. cbn [existsb] in Hc. unfold open_cmt. change (lit "<!--") with (x3c :: x21 :: x2d :: x2d :: nil). cbn [prefix].
  destruct (beq c x20) eqn:E1; [apply beq_eq in E1; subst; reflexivity|].
  destruct (beq c x09) eqn:E2; [apply beq_eq in E2; subst; reflexivity|].
  destruct (beq c x0d) eqn:E3; [apply beq_eq in E3; subst; reflexivity|].
  destruct (beq c x0a) eqn:E4; [apply beq_eq in E4; subst; reflexivity|discriminate].
Qed.

Theorem leading_blank_lines_ignored ws doc : all_ws ws = true -> prefix_ci mjml_needle doc = true ->
  strip_non_mso_comments (ws ++ doc) = doc.
Proof.
  intros Hw Hd. unfold strip_non_mso_comments. rewrite (index_ci_skip_ws ws doc Hw Hd).
  rewrite firstn_app, firstn_all, Nat.sub_diag. cbn [firstn]. rewrite app_nil_r.
  rewrite skipn_app, skipn_all, Nat.sub_diag. cbn [skipn app].
  rewrite (contains_open_cmt_ws ws Hw).
  rewrite <- (app_nil_r ws) at 1. rewrite (trim_left_all_ws ws Hw []). reflexivity.
Qed.

(* a leading comment (whose body contains neither '-' nor '>') is ignored as well *)
Definition plain_body (b : bytes) : bool := forallb (fun c => negb (beq c x2d) && negb (beq c b_gt) && negb (beq c b_lt)) b.

Lemma strip_in_comment body r : plain_body body = true ->
  strip_comments true 0 (body ++ close_cmt ++ r) = strip_comments false 0 r.
Proof.
  induction body as [|c b IH]; intros H.
  - cbn [app]. unfold close_cmt. change (lit "-->") with (x2d :: x2d :: x3e :: nil). cbn [app strip_comments prefix].
    change (beq x2d x2d) with true. change (beq x3e x3e) with true. cbn [andb]. reflexivity.
  - cbn in H. apply andb_true_iff in H. destruct H as [Hc Hb]. apply andb_true_iff in Hc. destruct Hc as [Hc1 Hc3].
    apply andb_true_iff in Hc1. destruct Hc1 as [Hc1 Hc2].
    apply negb_true_iff in Hc1. assert (E : beq x2d c = false).
    { apply beq_neq. intros <-. rewrite beq_refl in Hc1. discriminate. }
    assert (P : prefix close_cmt (c :: b ++ close_cmt ++ r) = false).
    { unfold close_cmt at 1. change (lit "-->") with (x2d :: x2d :: x3e :: nil). cbn [prefix]. rewrite E. reflexivity. }
    cbn [app strip_comments]. rewrite P. apply IH. exact Hb.
Qed.
