(* C19: the inline-CSS rule parser of mjml/inline_styles.go (parseInlineCSSRules, parseInlineSelectors,
   parseInlineDeclarations, extractInlineClass) and the class -> declarations table built from it. *)
From Coq Require Import List Bool Arith Lia.
From Coq.Strings Require Import Byte String.
From GV Require Import Base.Bytes.
Import ListNotations.
Local Notation length := List.length.

Definition trim_space (s : bytes) : bytes := rev (drop_while is_ws (rev (drop_while is_ws s))).

Fixpoint split_byte (c : byte) (cur : bytes) (s : bytes) : list bytes :=
  match s with
  | [] => [rev cur]
  | x :: r => if beq x c then rev cur :: split_byte c [] r else split_byte c (x :: cur) r
  end.

(* strings.Fields on ASCII white space *)
Fixpoint fields_aux (cur : bytes) (s : bytes) : list bytes :=
  match s with
  | [] => match cur with [] => [] | _ => [rev cur] end
  | x :: r => if is_ws x then (match cur with [] => fields_aux [] r | _ => rev cur :: fields_aux [] r end)
              else fields_aux (x :: cur) r
  end.
Definition fields (s : bytes) : list bytes := fields_aux [] s.

Definition decl := (bytes * bytes)%type.
Record rule := { selectors : list bytes ; declarations : list decl }.

Definition parse_selectors (part : bytes) : list bytes :=
  match part with
  | [] => []
  | _ => filter (fun s => match s with [] => false | _ => true end) (map trim_space (split_byte x2c [] part))
  end.

Definition parse_declarations (part : bytes) : list decl :=
  flat_map (fun p => let t := trim_space p in
                     match t with
                     | [] => []
                     | _ => match index [x3a] t with
                            | None => []
                            | Some colon =>
                                let prop := trim_space (firstn colon t) in
                                let value := trim_space (skipn (S colon) t) in
                                match prop, value with
                                | [], _ => [] | _, [] => []
                                | _, _ => [(prop, value)]
                                end
                            end
                     end) (split_byte x3b [] part).

Fixpoint parse_rules_fuel (fuel : nat) (text : bytes) : list rule :=
  match fuel with
  | 0 => []
  | S f =>
      match text with
      | [] => []
      | _ =>
          match index [x7b] text with           (* '{' *)
          | None => []
          | Some start =>
              let selector_part := trim_space (firstn start text) in
              let rest := skipn (S start) text in
              let '(decl_part, rest') := match index [x7d] rest with       (* '}' *)
                                        | None => (rest, [])
                                        | Some e => (firstn e rest, skipn (S e) rest)
                                        end in
              let sels := parse_selectors selector_part in
              let decls := parse_declarations decl_part in
              match sels, decls with
              | [], _ => parse_rules_fuel f rest'
              | _, [] => parse_rules_fuel f rest'
              | _, _ => {| selectors := sels ; declarations := decls |} :: parse_rules_fuel f rest'
              end
          end
      end
  end.
Definition parse_rules (css : bytes) : list rule := let t := trim_space css in parse_rules_fuel (S (length t)) t.

Definition class_terminator (c : byte) : bool :=
  mem_byte c [x20; x09; x0a; x0d; x2e; x23; x3a; x3e; x2b; x7e; x5b].   (* space tab nl cr . # : > + ~ [ *)
Definition extract_class (selector : bytes) : option bytes :=
  match trim_space selector with
  | c :: r => if beq c x2e then
                match trim_space (take_while (fun x => negb (class_terminator x)) r) with
                | [] => None
                | cn => Some cn
                end
              else None
  | [] => None
  end.

(* classStyles[className] = append(classStyles[className], rule.declarations...) over rules and selectors *)
Definition class_styles (rules : list rule) (cn : bytes) : list decl :=
  flat_map (fun r => flat_map (fun s => match extract_class s with
                                        | Some c => if bytes_eqb c cn then declarations r else []
                                        | None => []
                                        end) (selectors r)) rules.
