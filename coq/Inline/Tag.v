(* C19: inlining on the token level (what inlineStylesInTag / SetClassAttribute + ApplyInlineStyles do
   to one start tag) and its lift to a whole output. *)
From Coq Require Import List Bool Arith Lia.
From Coq.Strings Require Import Byte String.
From GV Require Import Base.Bytes Base.Tok Skel.Compose Inline.Css.
Import ListNotations.
Local Notation length := List.length.

Section Inline.
  Variable styles : bytes -> list decl.    (* class name -> declarations, in rule order *)

  Definition name_is (n : string) (a : bytes * bytes) : bool := bytes_eqb (to_lower (fst a)) (lit n).

  (* BuildInlineStyleString: declarations of every class of the class list, in order, "p:v;" *)
  Definition inline_string (class_value : bytes) : bytes :=
    flat_map (fun cn => flat_map (fun d => fst d ++ [x3a] ++ snd d ++ [x3b]) (styles cn)) (fields class_value).

  Definition has_suffix_semi (s : bytes) : bool := match rev s with c :: _ => beq c x3b | [] => false end.
  (* mergeInlineStyleValues *)
  Definition merge_style (existing inline : bytes) : bytes :=
    match existing, inline with
    | [], _ => inline
    | _, [] => existing
    | _, _ =>
        let e := trim_space existing in let i := trim_space inline in
        match e, i with
        | [], _ => i
        | _, [] => e
        | _, _ => (if has_suffix_semi e then e else e ++ [x3b]) ++ i
        end
    end.

  (* last attribute with the given (case-insensitive) name *)
  Definition last_value (n : string) (attrs : list (bytes * bytes)) : option bytes :=
    fold_left (fun acc a => if name_is n a then Some (snd a) else acc) attrs None.

  (* replace the value of the LAST style attribute *)
  Fixpoint set_last_style (attrs : list (bytes * bytes)) (v : bytes) : list (bytes * bytes) :=
    match attrs with
    | [] => []
    | a :: r => if name_is "style" a && negb (existsb (name_is "style") r) then (fst a, v) :: r else a :: set_last_style r v
    end.

  Definition inline_attrs (attrs : list (bytes * bytes)) : list (bytes * bytes) :=
    match last_value "class" attrs with
    | None => attrs
    | Some cv =>
        match inline_string cv with
        | [] => attrs
        | istr =>
            match last_value "style" attrs with
            | Some ex => set_last_style attrs (merge_style ex istr)
            | None => attrs ++ [(lit "style", istr)]
            end
        end
    end.

  Definition inline_tok (t : tok) : tok :=
    match t with TOpen n a sc => TOpen n (inline_attrs a) sc | _ => t end.
  Definition inline_html (ts : list tok) : list tok := map inline_tok ts.

  (* ---- only style attributes change ---- *)
  Definition erase_style (attrs : list (bytes * bytes)) : list (bytes * bytes) := filter (fun a => negb (name_is "style" a)) attrs.
  Definition erase_tok (t : tok) : tok := match t with TOpen n a sc => TOpen n (erase_style a) sc | _ => t end.

  Lemma erase_set_last attrs v : erase_style (set_last_style attrs v) = erase_style attrs.
  Proof.
    induction attrs as [|a r IH]; cbn [set_last_style erase_style filter]; [reflexivity|].
    destruct (name_is "style" a) eqn:E; cbn [andb negb].
    - destruct (existsb (name_is "style") r); cbn [negb].
      + cbn [filter]. rewrite E. cbn [negb]. exact IH.
      + cbn [filter]. unfold name_is in *. cbn [fst]. rewrite E. reflexivity.
    - cbn [filter]. rewrite E. cbn [negb]. f_equal. exact IH.
  Qed.

  Theorem only_style_changes attrs : erase_style (inline_attrs attrs) = erase_style attrs.
  Proof.
    unfold inline_attrs. destruct (last_value "class" attrs) as [cv|]; [|reflexivity].
    destruct (inline_string cv) as [|c l]; [reflexivity|].
    destruct (last_value "style" attrs) as [ex|].
    - apply erase_set_last.
    - unfold erase_style. rewrite filter_app. cbn. rewrite app_nil_r. reflexivity.
  Qed.

  Theorem only_style_changes_tok t : erase_tok (inline_tok t) = erase_tok t.
  Proof. destruct t; cbn; try reflexivity. f_equal. apply only_style_changes. Qed.

  Theorem only_style_changes_html ts : map erase_tok (inline_html ts) = map erase_tok ts.
  Proof. unfold inline_html. rewrite map_map. apply map_ext. apply only_style_changes_tok. Qed.

  (* neither reading of the document changes: same events, same well-formedness *)
  Theorem inline_keeps_events t : tok_events (inline_tok t) = tok_events t.
  Proof. destruct t; reflexivity. Qed.

  Theorem inline_keeps_view v : forall ts st, view v st (inline_html ts) = view v st ts.
  Proof.
    induction ts as [|t r IH]; intros st; cbn [inline_html map view]; [reflexivity|].
    assert (E : vstep v st (inline_tok t) = vstep v st t) by (destruct t; reflexivity).
    rewrite E. destruct (vstep v st t) as [[e st']|]; [|reflexivity]. fold (inline_html r). now rewrite IH.
  Qed.

  (* completeness for one tag without a style attribute of its own: the result carries exactly the
     declarations of its classes, in rule order *)
  Theorem declarations_present attrs cv c l : last_value "class" attrs = Some cv -> inline_string cv = c :: l ->
    last_value "style" attrs = None ->
    last_value "style" (inline_attrs attrs) = Some (inline_string cv).
  Proof.
    intros Hc Hi Hs. unfold inline_attrs. rewrite Hc, Hi, Hs. unfold last_value. rewrite fold_left_app. cbn [fold_left].
    assert (E : name_is "style" (lit "style", c :: l) = true) by reflexivity. rewrite E. reflexivity.
  Qed.

  (* with a style attribute of its own: the author's declarations come first, then the inlined ones *)
  Theorem declarations_appended ex istr : ex <> [] -> istr <> [] -> trim_space ex <> [] -> trim_space istr <> [] ->
    exists pre, merge_style ex istr = pre ++ trim_space istr.
  Proof.
    intros H1 H2 H3 H4. unfold merge_style. destruct ex as [|e0 ex']; [contradiction|]. destruct istr as [|i0 i']; [contradiction|].
    destruct (trim_space (e0 :: ex')) as [|a b] eqn:Ea; [contradiction|].
    destruct (trim_space (i0 :: i')) as [|x y] eqn:Ei; [contradiction|].
    eexists. reflexivity.
  Qed.
End Inline.

(* relaxed comparison used for component output: the declarations of the element's classes appear as
   one contiguous block somewhere in its style attribute (components put them before their own
   declarations, the author-HTML rewriter after), everything else is identical *)
Section Relaxed.
  Variable styles : bytes -> list decl.
  Definition style_of (attrs : list (bytes * bytes)) : bytes := match last_value "style" attrs with Some v => v | None => [] end.
  Definition strip_semi (s : bytes) : bytes := match rev s with c :: r => if beq c x3b then rev r else s | [] => [] end.
  Definition relaxed_tok_ok (t0 t1 : tok) : bool :=
    match t0, t1 with
    | TOpen n0 a0 s0, TOpen n1 a1 s1 =>
        tok_eqb (erase_tok t0) (erase_tok t1) &&
        (match last_value "class" a0 with
         | None => bytes_eqb (style_of a0) (style_of a1)
         | Some cv =>
             match inline_string styles cv with
             | [] => bytes_eqb (style_of a0) (style_of a1)
             | istr =>
                 match cut istr (style_of a1) with
                 | Some (pre, post) =>
                     let rest := pre ++ post in
                     bytes_eqb rest (style_of a0) || bytes_eqb (strip_semi rest) (strip_semi (trim_space (style_of a0)))
                 | None => false
                 end
             end
         end)
    | _, _ => tok_eqb t0 t1
    end.
  (* markup inside an Outlook-only conditional comment is not part of the document a CSS inliner sees:
     there the two outputs must simply be identical *)
  Fixpoint relaxed_first_diff (st : cstate) (i : nat) (a b : list tok) : option nat :=
    match a, b with
    | [], [] => None
    | x :: a', y :: b' =>
        let st' := match st, x with
                   | Closed, TMsoOpen _ => InMso | Closed, TNotMsoOpen _ => InNotMso
                   | InMso, TMsoEnd => Closed | InNotMso, TNotMsoEnd => Closed | _, _ => st end in
        if (match st with InMso => tok_eqb x y || relaxed_tok_ok x y | _ => relaxed_tok_ok x y end)
        then relaxed_first_diff st' (S i) a' b' else Some i
    | _, _ => Some i
    end.
End Relaxed.

(* no rules: nothing changes *)
Theorem no_rules_identity ts : inline_html (fun _ => []) ts = ts.
Proof.
  unfold inline_html. rewrite <- (map_id ts) at 2. apply map_ext. intros t. destruct t; try reflexivity. cbn. f_equal.
  unfold inline_attrs. destruct (last_value "class" attrs); [|reflexivity].
  assert (E : inline_string (fun _ => []) b = []).
  { unfold inline_string. induction (fields b) as [|x r IH]; cbn; auto. }
  now rewrite E.
Qed.
