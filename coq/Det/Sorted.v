(* C05: "append in iteration order, then sort.Strings" is order independent (mathcomp). *)
From mathcomp Require Import all_ssreflect.
Set Implicit Arguments.
Unset Strict Implicit.
Unset Printing Implicit Defensive.

Section SortedAfter.
  Variables (T : eqType) (leT : rel T).
  Hypothesis leT_total : total leT.
  Hypothesis leT_tr : transitive leT.
  Hypothesis leT_asym : antisymmetric leT.

  (* collecting the keys in any two iteration orders and sorting gives the same slice *)
  Theorem sorted_after_order_independent (s1 s2 : seq T) : perm_eq s1 s2 -> sort leT s1 = sort leT s2.
  Proof. by move/(perm_sortP leT_total leT_tr leT_asym). Qed.
End SortedAfter.

(* instance used by the code: sort.Strings on byte strings, modelled as sequences of nat *)
Fixpoint lex_le (a b : seq nat) : bool :=
  match a, b with
  | [::], _ => true
  | _ :: _, [::] => false
  | x :: a', y :: b' => (x < y) || ((x == y) && lex_le a' b')
  end.

Lemma lex_total : total lex_le.
Proof.
  elim=> [|x a IH] [|y b] //=. by case: (ltngtP x y) => //= _; exact: IH.
Qed.
Lemma lex_asym : antisymmetric lex_le.
Proof.
  elim=> [|x a IH] [|y b] //=. case: (ltngtP x y) => //= -> H. by rewrite (IH b H).
Qed.
Lemma lex_tr : transitive lex_le.
Proof.
  move=> b a c; elim: b a c => [|y b IH] [|x a] [|z c] //=.
  case: (ltngtP x y) => //= Hxy; case: (ltngtP y z) => //= Hyz.
  - by rewrite (ltn_trans Hxy Hyz).
  - by rewrite -Hyz Hxy.
  - by rewrite Hxy Hyz.
  - rewrite Hxy Hyz ltnn eqxx /=. exact: IH.
Qed.

Theorem sort_strings_order_independent (s1 s2 : seq (seq nat)) : perm_eq s1 s2 -> sort lex_le s1 = sort lex_le s2.
Proof. exact: (sorted_after_order_independent lex_total lex_tr lex_asym). Qed.
