(* C05: order independence of the loop shapes that gen/nondet.go classifies as deterministic.
   A Go "for k, v := range m" visits the entries of m in an unspecified order: an arbitrary
   permutation of a duplicate-free association list. *)
From Coq Require Import List Permutation Bool Arith.
Import ListNotations.

Section KeyedStore.
  (* body: dst[k] = g k v dst[k]  (store under the iteration key; may read the old value at k) *)
  Variables (K V W : Type) (keqb : K -> K -> bool).
  Hypothesis keqb_eq : forall a b, keqb a b = true <-> a = b.
  Variable g : K -> V -> W -> W.

  Definition upd (m : K -> W) (k : K) (w : W) : K -> W := fun x => if keqb k x then w else m x.
  Definition body (m : K -> W) (kv : K * V) : K -> W := upd m (fst kv) (g (fst kv) (snd kv) (m (fst kv))).
  Definition loop (l : list (K * V)) (m : K -> W) : K -> W := fold_left body l m.

  Lemma keqb_refl k : keqb k k = true. Proof. apply keqb_eq; reflexivity. Qed.
  Lemma keqb_neq a b : a <> b -> keqb a b = false.
  Proof. intros H. destruct (keqb a b) eqn:E; [apply keqb_eq in E; contradiction|reflexivity]. Qed.

  Lemma loop_ext l : forall m m', (forall x, m x = m' x) -> forall x, loop l m x = loop l m' x.
  Proof.
    induction l as [|kv l IH]; intros m m' H x; cbn; [apply H|].
    apply IH. intros y. unfold body, upd. rewrite (H (fst kv)). destruct (keqb (fst kv) y); auto.
  Qed.

  Lemma body_swap m a b : fst a <> fst b -> forall x, body (body m a) b x = body (body m b) a x.
  Proof.
    intros Hne x. unfold body, upd.
    rewrite (keqb_neq _ _ Hne). assert (Hne' : fst b <> fst a) by congruence. rewrite (keqb_neq _ _ Hne').
    destruct (keqb (fst b) x) eqn:Eb; destruct (keqb (fst a) x) eqn:Ea; auto.
    apply keqb_eq in Eb. apply keqb_eq in Ea. congruence.
  Qed.

  Theorem keyed_store_order_independent l l' : Permutation l l' -> NoDup (map fst l) ->
    forall m x, loop l m x = loop l' m x.
  Proof.
    induction 1 as [| kv l l' HP IH | a b l | l1 l2 l3 HP1 IH1 HP2 IH2]; intros ND m x.
    - reflexivity.
    - cbn. apply IH. cbn in ND. now inversion ND.
    - cbn. apply loop_ext. intros y. apply body_swap.
      cbn in ND. inversion ND as [|? ? Hn _]; subst. intros E. apply Hn. left. congruence.
    - rewrite IH1 by assumption. apply IH2.
      apply (Permutation_NoDup (l := map fst l1)); [apply Permutation_map; assumption|assumption].
  Qed.
End KeyedStore.

(* a body that acts on an accumulator only for one constant key (if k == "css-class" {...})
   acts at most once, whatever the order *)
Section SingleKey.
  Variables (K V A : Type) (keqb : K -> K -> bool).
  Hypothesis keqb_eq : forall a b, keqb a b = true <-> a = b.
  Variable c : K.
  Variable f : V -> A -> A.
  Definition sbody (acc : A) (kv : K * V) : A := if keqb c (fst kv) then f (snd kv) acc else acc.

  Lemma sloop_notin l : ~ In c (map fst l) -> forall acc, fold_left sbody l acc = acc.
  Proof.
    induction l as [|kv l IH]; intros Hn acc; cbn; [reflexivity|].
    unfold sbody at 2. destruct (keqb c (fst kv)) eqn:E.
    - apply keqb_eq in E. exfalso. apply Hn. left. auto.
    - apply IH. intros H. apply Hn. right. exact H.
  Qed.

  Theorem single_key_order_independent l l' : Permutation l l' -> NoDup (map fst l) ->
    forall acc, fold_left sbody l acc = fold_left sbody l' acc.
  Proof.
    induction 1 as [| kv l l' HP IH | a b l | l1 l2 l3 HP1 IH1 HP2 IH2]; intros ND acc.
    - reflexivity.
    - cbn. apply IH. cbn in ND. now inversion ND.
    - cbn. f_equal. unfold sbody. cbn in ND. inversion ND as [|? ? Hn _]; subst.
      destruct (keqb c (fst a)) eqn:Ea; destruct (keqb c (fst b)) eqn:Eb; auto.
      apply keqb_eq in Ea. apply keqb_eq in Eb. exfalso. apply Hn. left. congruence.
    - rewrite IH1 by assumption. apply IH2.
      apply (Permutation_NoDup (l := map fst l1)); [apply Permutation_map; assumption|assumption].
  Qed.
End SingleKey.
