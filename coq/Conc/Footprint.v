(* C07: non-interference of concurrent compilations whose only writes go to call-local cells.
   A cell is owned by one thread (everything reachable from that call's RenderOpts, FontTracker,
   component tree, buffers) or is shared and never written after initialisation.  Under these
   two frame conditions every interleaving gives each thread exactly its solo result. *)
From Coq Require Import List Arith Bool Lia.
Import ListNotations.

Section Footprint.
  Variables (cell val : Type).
  Variable owner : cell -> option nat.        (* None: shared, immutable after init *)
  Definition store := cell -> val.

  (* thread t's i-th step as a store transformer *)
  Variable step : nat -> nat -> store -> store.

  Definition same_on (P : cell -> Prop) (s s' : store) : Prop := forall c, P c -> s c = s' c.
  Definition visible (t : nat) (c : cell) : Prop := owner c = Some t \/ owner c = None.
  Definition owned (t : nat) (c : cell) : Prop := owner c = Some t.

  (* frame conditions (what "no shared interfering cell" means) *)
  Hypothesis writes_own : forall t i s c, owner c <> Some t -> step t i s c = s c.
  Hypothesis reads_visible : forall t i s s', same_on (visible t) s s' -> same_on (owned t) (step t i s) (step t i s').

  (* a schedule is a list of thread ids; the k-th occurrence of t runs t's k-th step *)
  Fixpoint run (sched : list nat) (pc : nat -> nat) (s : store) : store :=
    match sched with
    | [] => s
    | t :: r => run r (fun u => if Nat.eqb u t then S (pc u) else pc u) (step t (pc t) s)
    end.

  Fixpoint solo (t : nat) (n : nat) (from : nat) (s : store) : store :=
    match n with 0 => s | S n' => solo t n' (S from) (step t from s) end.

  Definition count (t : nat) (sched : list nat) : nat := length (filter (Nat.eqb t) sched).

  Lemma step_visible t i s s' : same_on (visible t) s s' -> same_on (visible t) (step t i s) (step t i s').
  Proof.
    intros H c [Hc|Hc].
    - apply reads_visible; assumption.
    - rewrite !writes_own by congruence. apply H. right. exact Hc.
  Qed.

  Lemma other_step_invisible t u i s : u <> t -> same_on (visible t) (step u i s) s.
  Proof. intros Hne c [Hc|Hc]; apply writes_own; congruence. Qed.

  Theorem noninterference : forall sched pc s s' t,
    same_on (visible t) s s' ->
    same_on (visible t) (run sched pc s) (solo t (count t sched) (pc t) s').
  Proof.
    induction sched as [|u r IH]; intros pc s s' t H; cbn; [exact H|].
    unfold count. cbn [filter]. destruct (Nat.eqb t u) eqn:E.
    - apply Nat.eqb_eq in E. subst u. cbn [length solo].
      specialize (IH (fun x => if Nat.eqb x t then S (pc x) else pc x) (step t (pc t) s) (step t (pc t) s') t).
      cbn in IH. rewrite Nat.eqb_refl in IH. apply IH. apply step_visible. exact H.
    - apply Nat.eqb_neq in E.
      specialize (IH (fun x => if Nat.eqb x u then S (pc x) else pc x) (step u (pc u) s) s' t).
      cbn in IH. assert (E' : Nat.eqb t u = false) by (apply Nat.eqb_neq; exact E). rewrite E' in IH.
      apply IH. intros c Hc. rewrite (other_step_invisible t u (pc u) s); [apply H; exact Hc| congruence | exact Hc].
  Qed.

  (* each thread ends, in every schedule and for every number of threads, with exactly the
     contents of its own cells that it computes when run alone from the same initial store *)
  Corollary isolated : forall sched s t c, owner c = Some t ->
    run sched (fun _ => 0) s c = solo t (count t sched) 0 s c.
  Proof. intros sched s t c Hc. apply (noninterference sched (fun _ => 0) s s t); [intros x _; reflexivity|left; exact Hc]. Qed.
End Footprint.

(* the premise is not idle: one unguarded shared cell written by one thread and read by another
   breaks isolation (the pre-fix globals.instance) *)
Example shared_cell_breaks_isolation :
  let owner := fun c : nat => if Nat.eqb c 0 then None else Some c in   (* cell 0 shared, cell t owned by t *)
  (* thread t, step 0: shared := t ; step 1: own := shared *)
  let step := fun (t i : nat) (s : nat -> nat) (c : nat) =>
                if Nat.eqb i 0 then (if Nat.eqb c 0 then t else s c) else (if Nat.eqb c t then s 0 else s c) in
  run nat nat step [1; 2; 1; 2] (fun _ => 0) (fun _ => 0) 1 = 2 /\
  solo nat nat step 1 2 0 (fun _ => 0) 1 = 1.
Proof. vm_compute. split; reflexivity. Qed.
