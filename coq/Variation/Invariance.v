(* C12: invariance lemmas for the non-semantic rewrites. *)
From Coq Require Import List Bool Permutation.
From Coq.Strings Require Import String Byte.
From GV Require Import Base.Bytes Base.Tok Parser.Build.
Import ListNotations.
Open Scope string_scope.
Open Scope list_scope.

(* (1) attribute order.  Components copy node attributes into a map keyed by name and the parser's
   own look-up returns the first attribute of a name: with distinct names both are order-free. *)
Fixpoint assoc (k : bytes) (l : list (bytes * bytes)) : option bytes :=
  match l with [] => None | (n, v) :: r => if bytes_eqb n k then Some v else assoc k r end.

Lemma assoc_In k v l : NoDup (map fst l) -> In (k, v) l -> assoc k l = Some v.
Proof.
  induction l as [|[n w] r IH]; cbn; [tauto|]. intros ND [H|H].
  - inversion H; subst. assert (E : bytes_eqb k k = true) by (now apply bytes_eqb_eq). now rewrite E.
  - inversion ND as [|? ? Hn ND']; subst. destruct (bytes_eqb n k) eqn:E.
    + apply bytes_eqb_eq in E; subst. exfalso. apply Hn. apply (in_map fst) in H. exact H.
    + auto.
Qed.
Lemma assoc_None k l : ~ In k (map fst l) -> assoc k l = None.
Proof.
  induction l as [|[n w] r IH]; cbn; [reflexivity|]. intros H. destruct (bytes_eqb n k) eqn:E.
  - apply bytes_eqb_eq in E; subst. exfalso. apply H. now left.
  - apply IH. intros Hin. apply H. now right.
Qed.

Theorem attribute_order_irrelevant l l' : Permutation l l' -> NoDup (map fst l) -> forall k, assoc k l = assoc k l'.
Proof.
  intros HP ND k. assert (ND' : NoDup (map fst l')) by (eapply Permutation_NoDup; [apply Permutation_map; exact HP|exact ND]).
  destruct (assoc k l) as [v|] eqn:E.
  - assert (Hin : In (k, v) l).
    { clear -E. induction l as [|[n w] r IH]; cbn in E; [discriminate|]. destruct (bytes_eqb n k) eqn:En.
      - apply bytes_eqb_eq in En. inversion E; subst. now left.
      - right. auto. }
    symmetry. apply assoc_In; [exact ND'|]. eapply Permutation_in; eauto.
  - symmetry. apply assoc_None. intros Hin.
    assert (Hin' : In k (map fst l)) by (eapply Permutation_in; [apply Permutation_sym, Permutation_map; exact HP|exact Hin]).
    apply in_map_iff in Hin'. destruct Hin' as ([n v] & Hn & Hv). cbn in Hn; subst.
    rewrite (assoc_In k v l ND Hv) in E. discriminate.
Qed.

(* (2) white space between structural elements: text parts do not change the list of child
   elements (what containers iterate over); containers read their own text through TrimSpace *)
Theorem whitespace_parts_keep_children s r : children (PText s r) = children r.
Proof. reflexivity. Qed.
Theorem whitespace_text_trims_to_empty s : all_ws s = true -> trim_left_ws s = [].
Proof. induction s as [|c r IH]; cbn; [reflexivity|]. intros H. apply andb_true_iff in H. destruct H as [-> H]. auto. Qed.

(* (6) debug tags: enabling them only adds data-mj-debug-* attributes; deleting those gives back
   the normal token *)
Definition is_debug_attr (a : bytes * bytes) : bool := prefix (lit "data-mj-debug-") (fst a).
Definition strip_debug (t : tok) : tok :=
  match t with TOpen n a sc => TOpen n (filter (fun x => negb (is_debug_attr x)) a) sc | _ => t end.
Definition add_debug (kind : bytes) (pos : nat) (t : tok) : tok :=
  match t with TOpen n a sc => TOpen n (firstn pos a ++ (lit "data-mj-debug-" ++ kind, lit "true") :: skipn pos a) sc | _ => t end.

Lemma filter_id_no_debug a : forallb (fun x => negb (is_debug_attr x)) a = true -> filter (fun x => negb (is_debug_attr x)) a = a.
Proof. induction a as [|x r IH]; cbn; [reflexivity|]. intros H. apply andb_true_iff in H. destruct H as [Hx Hr]. rewrite Hx. f_equal. auto. Qed.

Theorem strip_add_debug kind pos n a sc : forallb (fun x => negb (is_debug_attr x)) a = true ->
  strip_debug (add_debug kind pos (TOpen n a sc)) = TOpen n a sc.
Proof.
  intros H. unfold add_debug, strip_debug. f_equal. rewrite filter_app. cbn [filter].
  assert (E : is_debug_attr (lit "data-mj-debug-" ++ kind, lit "true") = true) by (unfold is_debug_attr; cbn [fst]; apply prefix_app).
  rewrite E. cbn [negb].
  rewrite <- filter_app, firstn_skipn. now apply filter_id_no_debug.
Qed.
