(* Extraction of the executable models to OCaml (ExtrOcamlBasic only: bool, option, unit, list,
   prod, sumbool, sumor -> OCaml natives; nat / N / Z / byte stay extracted inductives).
   Run by bin/check in the directory ocaml/ (the facts are re-extracted first). *)
From Coq Require Import Extraction ExtrOcamlBasic List.
From Coq.Strings Require Import Byte.
From GV Require Norm.ClassOrder.
From GV Require Import Base.Bytes Base.Tok Skel.Compose Norm.Norm Inline.Css Inline.Tag Parser.Pre Facts.ParserConsts.

Definition m_strip := strip_non_mso_comments.
Definition m_escamp := escape_attribute_ampersands named_entities.
Definition m_entities := preprocess_html_entities named_entities entity_table.
Definition m_wrap := wrap_mj_text_content void_names.
Definition m_preprocess := preprocess named_entities entity_table void_names.
Definition m_byte_to_nat := Byte.to_nat.

Definition m_lex := lex.
Definition m_check_std (s : bytes) : bool := check_view Std (lex s).
Definition m_check_mso (s : bytes) : bool := check_view Mso (lex s).
Definition m_no_vml_outside (s : bytes) : bool := no_vml_outside Closed (lex s).

Definition m_merge_check (a b : bytes) : bool :=
  (* modulo the attributes of start tags: Skel.Compose.body_ok_modulo_attrs *)
  let xs := List.map strip_attrs (lex a) in let ys := List.map strip_attrs (lex b) in merge_check (S (List.length xs + List.length ys)) xs ys.

Definition m_std_texts (s : bytes) : option (list bytes) := view_texts Std (lex s).
Definition m_mso_texts (s : bytes) : option (list bytes) := view_texts Mso (lex s).

Definition m_equiv_diff (a b : bytes) : option nat := first_diff 0 (norm (lex a)) (norm (lex b)).

Definition m_norm (a : bytes) : list ntok := norm (lex a).

Fixpoint toks_first_diff (i : nat) (a b : list tok) : option nat :=
  match a, b with
  | nil, nil => None
  | cons x a', cons y b' => if tok_eqb x y then toks_first_diff (S i) a' b' else Some i
  | _, _ => Some i
  end.
(* the implementation's output for [before] under the inline rules [css] must lex to the inlined token stream *)
Definition m_inline_diff (css before after : bytes) : option nat :=
  toks_first_diff 0 (inline_html (class_styles (parse_rules css)) (lex before)) (lex after).
Definition m_inline_relaxed_diff (css before after : bytes) : option nat :=
  relaxed_first_diff (class_styles (parse_rules css)) Closed 0 (lex before) (lex after).
Definition m_parse_rules (css : bytes) : list (list bytes * list (bytes * bytes)) :=
  map (fun r => (selectors r, declarations r)) (parse_rules css).
Definition m_extract_class := extract_class.
Definition m_classorder := Norm.ClassOrder.normalize.

Extraction "model.ml" m_classorder m_inline_relaxed_diff m_inline_diff m_parse_rules m_extract_class m_norm m_equiv_diff m_std_texts m_mso_texts m_merge_check m_strip m_escamp m_entities m_wrap m_preprocess m_byte_to_nat m_lex m_check_std m_check_mso m_no_vml_outside.
