(* Extraction of the executable models to OCaml (ExtrOcamlBasic only: bool, option, unit, list,
   prod, sumbool, sumor -> OCaml natives; nat / N / Z / byte stay extracted inductives).
   Run by bin/check in the directory ocaml/ (the facts are re-extracted first). *)
From Coq Require Import Extraction ExtrOcamlBasic List.
From Coq.Strings Require Import Byte.
From GV Require Import Base.Bytes Parser.Pre Facts.ParserConsts.

Definition m_strip := strip_non_mso_comments.
Definition m_escamp := escape_attribute_ampersands named_entities.
Definition m_entities := preprocess_html_entities named_entities entity_table.
Definition m_wrap := wrap_mj_text_content void_names.
Definition m_preprocess := preprocess named_entities entity_table void_names.
Definition m_byte_to_nat := Byte.to_nat.

Extraction "model.ml" m_strip m_escamp m_entities m_wrap m_preprocess m_byte_to_nat.
