(* C08, step-by-step API: NewFromAST builds a component tree now, RenderComponentString renders it
   later — with any other compilations in between.  Operation histories over a process state that
   holds the legacy process-wide pointer and the trees built so far (each carrying the per-render
   store its RenderOpts captured).  Theorem: every output of every history equals the output of the
   same request made first in a fresh process; in particular a tree renders as its own document
   does, whatever was compiled between building and rendering it. *)
From Coq Require Import List Bool Arith Lia.
Import ListNotations.

Section Steps.
  Variables (doc glob html : Type).
  Variable collect : doc -> glob.
  Variable empty : glob.
  Variable render : glob -> doc -> html.
  Variable reorder : html -> html.

  (* a built tree: its document and the store captured in its RenderOpts (None = not installed) *)
  Record tree := { tdoc : doc ; tstore : option glob }.
  Record pstate := { inst : option glob ; trees : list tree }.
  Definition fresh : pstate := {| inst := None ; trees := [] |}.

  Inductive op :=
  | OneShot (d : doc)          (* Render *)
  | WithAST (d : doc)          (* RenderWithAST: no class-order rewrite *)
  | FromAST (d : doc)          (* parse, then RenderFromAST *)
  | New (d : doc)              (* parse, then NewFromAST: the tree is kept *)
  | RenderTree (i : nat).      (* RenderComponentString on the i-th tree built in this process *)

  Definition seen (per_call : option glob) (G : pstate) : glob :=
    match per_call with Some g => g | None => match inst G with Some g => g | None => empty end end.

  (* [installs] = recomputed fact: the entry point assigns RenderOpts.GlobalAttributes before components are built *)
  Variable installs : bool.
  Definition captured (d : doc) : option glob := if installs then Some (collect d) else None.

  Definition step (G : pstate) (o : op) : pstate * option html :=
    match o with
    | OneShot d => let G' := {| inst := Some (collect d) ; trees := trees G |} in (G', Some (reorder (render (seen (captured d) G') d)))
    | WithAST d | FromAST d =>
        let G' := {| inst := Some (collect d) ; trees := trees G |} in (G', Some (render (seen (captured d) G') d))
    | New d => ({| inst := Some (collect d) ; trees := trees G ++ [{| tdoc := d ; tstore := captured d |}] |}, None)
    | RenderTree i => (G, match nth_error (trees G) i with
                          | Some t => Some (render (seen (tstore t) G) (tdoc t))
                          | None => None end)
    end.

  Fixpoint run (G : pstate) (h : list op) : list (option html) :=
    match h with [] => [] | o :: r => let (G', out) := step G o in out :: run G' r end.

  (* the documents of the trees a history builds, in order *)
  Fixpoint built (h : list op) : list doc :=
    match h with [] => [] | New d :: r => d :: built r | _ :: r => built r end.

  (* reference: the same request made first in a fresh process (for a tree: build it, render it at once) *)
  Definition reference (ds : list doc) (o : op) : option html :=
    match o with
    | OneShot d => Some (reorder (render (collect d) d))
    | WithAST d | FromAST d => Some (render (collect d) d)
    | New _ => None
    | RenderTree i => match nth_error ds i with Some d => Some (render (collect d) d) | None => None end
    end.

  Definition trees_ok (G : pstate) (ds : list doc) : Prop :=
    map tdoc (trees G) = ds /\ Forall (fun t => tstore t = Some (collect (tdoc t))) (trees G).

  Hypothesis installs_true : installs = true.

  Lemma step_reference G ds o : trees_ok G ds ->
    snd (step G o) = reference (ds ++ built [o]) o /\ trees_ok (fst (step G o)) (ds ++ built [o]).
  Proof.
    intros [Hd Hs]. unfold step, captured. rewrite installs_true.
    destruct o as [d|d|d|d|i]; cbn [fst snd built reference seen]; rewrite ?app_nil_r.
    - split; [reflexivity|split; assumption].
    - split; [reflexivity|split; assumption].
    - split; [reflexivity|split; assumption].
    - split; [reflexivity|]. split; cbn [trees].
      + rewrite map_app. cbn. now rewrite Hd.
      + apply Forall_app. split; [assumption|]. constructor; [reflexivity|constructor].
    - split; [|split; assumption].
      rewrite <- Hd, nth_error_map. destruct (nth_error (trees G) i) as [t|] eqn:E; cbn; [|reflexivity].
      apply nth_error_In in E. rewrite Forall_forall in Hs. rewrite (Hs t E). reflexivity.
  Qed.

  Lemma reference_more ds ds' o : (forall i, o = RenderTree i -> i < length ds) -> reference (ds ++ ds') o = reference ds o.
  Proof.
    destruct o as [d|d|d|d|i]; cbn; try reflexivity. intros H. specialize (H i eq_refl).
    rewrite nth_error_app1 by exact H. reflexivity.
  Qed.

  (* outputs of every history = the reference outputs w.r.t. the trees built before each operation *)
  Fixpoint references (ds : list doc) (h : list op) : list (option html) :=
    match h with [] => [] | o :: r => reference (ds ++ built [o]) o :: references (ds ++ built [o]) r end.

  Theorem every_step_as_if_first : forall h G ds, trees_ok G ds -> run G h = references ds h.
  Proof.
    induction h as [|o r IH]; intros G ds H; cbn [run references]; [reflexivity|].
    destruct (step G o) as [G' out] eqn:E. pose proof (step_reference G ds o H) as [H1 H2].
    rewrite E in H1, H2. cbn [fst snd] in H1, H2. rewrite H1. f_equal. now apply IH.
  Qed.

  Corollary fresh_history h : run fresh h = references [] h.
  Proof. apply every_step_as_if_first. split; [reflexivity|constructor]. Qed.

  Lemma built_cons o r : built (o :: r) = built [o] ++ built r.
  Proof. destruct o; reflexivity. Qed.
  Lemma built_app h1 h2 : built (h1 ++ h2) = built h1 ++ built h2.
  Proof. induction h1 as [|o r IH]; [reflexivity|]. cbn [app]. rewrite built_cons, IH, (built_cons o r), app_assoc. reflexivity. Qed.
  Lemma references_app : forall h1 h2 ds, references ds (h1 ++ h2) = references ds h1 ++ references (ds ++ built h1) h2.
  Proof.
    induction h1 as [|o r IH]; intros h2 ds; cbn [app references].
    - cbn. now rewrite app_nil_r.
    - rewrite IH. rewrite (built_cons o r), app_assoc. reflexivity.
  Qed.

  (* the consequence stated by the property: a tree renders as its own document, whatever is compiled in between *)
  Corollary tree_renders_as_its_document d between :
    last (run fresh (New d :: between ++ [RenderTree 0])) None = Some (render (collect d) d).
  Proof.
    rewrite fresh_history. change (New d :: between ++ [RenderTree 0]) with ((New d :: between) ++ [RenderTree 0]).
    rewrite references_app. cbn [references]. rewrite last_last.
    rewrite (built_cons (New d) between). cbn [built app reference nth_error]. reflexivity.
  Qed.
End Steps.

(* without the installed store a tree renders with whatever was compiled last *)
Example tree_without_store_depends_on_history :
  let render := fun (g d : nat) => g * 10 + d in
  run nat nat nat (fun d => d) 0 render (fun h => h) false (fresh nat nat) [New nat 1; OneShot nat 7; RenderTree nat 0]
  <> run nat nat nat (fun d => d) 0 render (fun h => h) false (fresh nat nat) [New nat 1; OneShot nat 8; RenderTree nat 0].
Proof. vm_compute. intros H. discriminate. Qed.
