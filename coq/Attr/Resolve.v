(* C09: attribute resolution.  Port of mjml/components/base.go (NewBaseComponent's mj-class merge,
   GetAttributeWithDefault / GetAttributeFast / GetAttribute) and mjml/globals/attributes.go
   (GetGlobalAttribute), against the precedence rule the property states. *)
From Coq Require Import List String Bool.
Import ListNotations.
Open Scope string_scope.

Section Resolve.
  Variable norm : string -> string -> string.     (* normalizeAttributeValue name value (colour normalisation) *)
  Hypothesis norm_empty : forall a, norm a "" = "".
  Hypothesis norm_nonempty : forall a v, v <> "" -> norm a v <> "".
  Hypothesis norm_idem : forall a v, norm a (norm a v) = norm a v.

  Record sources := {
    elem    : string -> option string ;           (* the element's own attributes *)
    classes : list (string -> option string) ;    (* the mj-class definitions named by the element, in mj-class order *)
    tagdef  : string -> option string ;           (* <mj-attributes><TAG .../> *)
    alldef  : string -> option string ;           (* <mj-attributes><mj-all .../> *)
    builtin : string -> string                    (* GetDefaultAttribute of the concrete component *)
  }.

  Definition nonempty (s : string) : bool := negb (String.eqb s "").
  Fixpoint first_nonempty (l : list string) : string :=
    match l with [] => "" | x :: r => if nonempty x then x else first_nonempty r end.
  Definition oget (o : option string) : string := match o with Some v => v | None => "" end.

  (* the specification: highest-priority source that provides a (non-empty) value;
     among mj-class definitions the later class wins *)
  Definition last_class (cs : list (string -> option string)) (a : string) : option string :=
    fold_left (fun acc c => match c a with Some v => Some v | None => acc end) cs None.
  Definition spec (s : sources) (a : string) : string :=
    first_nonempty [ norm a (oget (elem s a)) ; norm a (oget (last_class (classes s) a)) ;
                     norm a (oget (tagdef s a)) ; norm a (oget (alldef s a)) ; norm a (builtin s a) ].

  (* the implementation *)
  (* NewBaseComponent: classAttrs[k] = normalize(k, v) for every class in order (later overwrites) *)
  Definition class_attrs (s : sources) (a : string) : string := norm a (oget (last_class (classes s) a)).
  (* GlobalAttributes.GetGlobalAttribute: the tag's entry if the key exists, else mj-all *)
  Definition global_attr (s : sources) (a : string) : string :=
    match tagdef s a with Some v => v | None => oget (alldef s a) end.
  Definition elem_attr (s : sources) (a : string) : string := norm a (oget (elem s a)).   (* bc.Attrs *)

  Inductive akind := Full | Fast | NoGlobal | NodeOnly.
  Definition acc (k : akind) (s : sources) (a : string) : string :=
    match k with
    | Full | Fast => first_nonempty [ elem_attr s a ; class_attrs s a ; norm a (global_attr s a) ; norm a (builtin s a) ]
    | NoGlobal => first_nonempty [ elem_attr s a ; class_attrs s a ]      (* BaseComponent.GetDefaultAttribute is "" *)
    | NodeOnly => oget (elem s a)                                         (* parser node, not normalised *)
    end.

  (* no source defines an attribute as the empty string (an empty tag default would hide mj-all,
     exactly as in MJML's own object merge; excluded from the statement, shown below) *)
  Definition no_empty_tagdef (s : sources) : Prop := forall a, tagdef s a <> Some "".

  Lemma nonempty_norm a v : nonempty (norm a v) = nonempty v.
  Proof.
    unfold nonempty. destruct (String.eqb v "") eqn:E.
    - apply String.eqb_eq in E. subst. rewrite norm_empty. reflexivity.
    - apply String.eqb_neq in E. apply norm_nonempty with (a := a) in E. apply String.eqb_neq in E. now rewrite E.
  Qed.

  Theorem resolve_full : forall s a, no_empty_tagdef s -> acc Full s a = spec s a.
  Proof.
    intros s a H. unfold acc, spec, elem_attr, class_attrs, global_attr. cbn [first_nonempty].
    destruct (nonempty (norm a (oget (elem s a)))); [reflexivity|].
    destruct (nonempty (norm a (oget (last_class (classes s) a)))); [reflexivity|].
    destruct (tagdef s a) as [v|] eqn:E; cbn [oget].
    - rewrite nonempty_norm. assert (Hv : v <> "") by (intros ->; exact (H a E)).
      unfold nonempty. apply String.eqb_neq in Hv. rewrite Hv. reflexivity.
    - rewrite norm_empty. cbn. reflexivity.
  Qed.

  Theorem resolve_fast : forall s a, acc Fast s a = acc Full s a.
  Proof. reflexivity. Qed.

  (* the output of a precedence-respecting accessor depends on the winning value only: moving a
     value between sources without changing the winner changes nothing *)
  Theorem moving_sources : forall s s' a, no_empty_tagdef s -> no_empty_tagdef s' -> spec s a = spec s' a ->
    forall k, k = Full \/ k = Fast -> acc k s a = acc k s' a.
  Proof. intros s s' a H H' E k [->| ->]; rewrite ?resolve_fast, !resolve_full; auto. Qed.

  (* the two bypassing accessor kinds do not implement the rule *)
  Theorem noglobal_ignores_tag_default : forall a v, v <> "" -> norm a v = v ->
    let s := {| elem := fun _ => None ; classes := [] ; tagdef := fun x => if String.eqb x a then Some v else None ;
                alldef := fun _ => None ; builtin := fun _ => "" |} in
    spec s a = v /\ acc NoGlobal s a = "".
  Proof.
    intros a v Hv Hn s. unfold spec, acc, elem_attr, class_attrs. cbn. rewrite String.eqb_refl. cbn.
    rewrite !norm_empty, Hn. cbn. unfold nonempty. apply String.eqb_neq in Hv. rewrite Hv. cbn. auto.
  Qed.

  Theorem nodeonly_ignores_class : forall a v, v <> "" -> norm a v = v ->
    let s := {| elem := fun _ => None ; classes := [fun x => if String.eqb x a then Some v else None] ; tagdef := fun _ => None ;
                alldef := fun _ => None ; builtin := fun _ => "" |} in
    spec s a = v /\ acc NodeOnly s a = "".
  Proof.
    intros a v Hv Hn s. unfold spec, acc. cbn. rewrite String.eqb_refl. cbn.
    rewrite !norm_empty, Hn. cbn. unfold nonempty. apply String.eqb_neq in Hv. rewrite Hv. cbn. auto.
  Qed.

  (* later class wins *)
  Theorem later_class_wins : forall c1 c2 a v, c2 a = Some v -> last_class [c1; c2] a = Some v.
  Proof. intros c1 c2 a v H. cbn. rewrite H. reflexivity. Qed.
End Resolve.
