(* C09: the value normalisation the resolver applies (mjml/components/base.go normalizeAttributeValue,
   mjml/styles/attributes.go NormalizeColor / isHexColor), byte for byte on Coq strings (= byte strings):
   a value of an attribute whose lower-cased name contains "color" is expanded from #rgb to #rrggbb when it is
   exactly '#' followed by three ASCII hex digits; everything else is returned as it is.
   The three laws Attr/Resolve.v assumes of its parameter [norm] are proved here of this function, so the
   resolver theorems hold of the concrete normalisation without hypotheses. *)
From Coq Require Import List String Ascii Bool Arith Lia.
Import ListNotations.
Open Scope string_scope.

Definition is_hex (c : ascii) : bool :=
  let n := nat_of_ascii c in
  (Nat.leb 48 n && Nat.leb n 57) || (Nat.leb 97 n && Nat.leb n 102) || (Nat.leb 65 n && Nat.leb n 70).

Definition normalize_color (v : string) : string :=
  match v with
  | String h (String r (String g (String b EmptyString))) =>
      if Ascii.eqb h "#"%char && is_hex r && is_hex g && is_hex b
      then String h (String r (String r (String g (String g (String b (String b EmptyString))))))
      else v
  | _ => v
  end.

(* strings.ToLower on ASCII letters *)
Definition lower (c : ascii) : ascii :=
  let n := nat_of_ascii c in if Nat.leb 65 n && Nat.leb n 90 then ascii_of_nat (n + 32) else c.
Fixpoint lower_string (s : string) : string :=
  match s with EmptyString => EmptyString | String c r => String (lower c) (lower_string r) end.
Fixpoint contains (needle s : string) : bool :=
  if String.prefix needle s then true else match s with EmptyString => false | String _ r => contains needle r end.

Definition norm (name value : string) : string :=
  if String.eqb value "" then value
  else if contains "color" (lower_string name) then normalize_color value else value.

Lemma normalize_color_empty : normalize_color "" = "".
Proof. reflexivity. Qed.

Lemma normalize_color_nonempty v : v <> "" -> normalize_color v <> "".
Proof.
  intros H. destruct v as [|h [|r [|g [|b [|x y]]]]]; cbn; try assumption; try discriminate.
  destruct (Ascii.eqb h "#" && is_hex r && is_hex g && is_hex b); discriminate.
Qed.

(* the expansion has seven bytes, so it is never expanded again *)
Lemma normalize_color_idem v : normalize_color (normalize_color v) = normalize_color v.
Proof.
  destruct v as [|h [|r [|g [|b [|x y]]]]]; try reflexivity.
  cbn [normalize_color]. destruct (Ascii.eqb h "#" && is_hex r && is_hex g && is_hex b) eqn:E; [reflexivity|].
  cbn [normalize_color]. rewrite E. reflexivity.
Qed.

Theorem norm_empty a : norm a "" = "".
Proof. reflexivity. Qed.

Theorem norm_nonempty a v : v <> "" -> norm a v <> "".
Proof.
  intros H. unfold norm. destruct (String.eqb v "") eqn:E; [apply String.eqb_eq in E; contradiction|].
  destruct (contains "color" (lower_string a)); [now apply normalize_color_nonempty|assumption].
Qed.

Theorem norm_idem a v : norm a (norm a v) = norm a v.
Proof.
  unfold norm. destruct (String.eqb v "") eqn:E; [rewrite E; reflexivity|].
  destruct (contains "color" (lower_string a)) eqn:C.
  - assert (N : normalize_color v <> "") by (apply normalize_color_nonempty; intros ->; discriminate).
    destruct (String.eqb (normalize_color v) "") eqn:E2; [apply String.eqb_eq in E2; contradiction|].
    apply normalize_color_idem.
  - rewrite E. reflexivity.
Qed.

(* what the expansion is: same colour, each digit doubled; case of the digits is kept *)
Theorem norm_expands r g b : is_hex r = true -> is_hex g = true -> is_hex b = true ->
  norm "background-color" (String "#" (String r (String g (String b ""))))
  = String "#" (String r (String r (String g (String g (String b (String b "")))))).
Proof. intros Hr Hg Hb. unfold norm. cbn [String.eqb Ascii.eqb]. cbn. rewrite Hr, Hg, Hb. reflexivity. Qed.

Example norm_examples :
  norm "color" "#abc" = "#aabbcc" /\ norm "Container-Background-COLOR" "#FfF" = "#FFffFF" /\ norm "color" "#abcd" = "#abcd" /\
  norm "color" "#abg" = "#abg" /\ norm "padding" "#abc" = "#abc" /\ norm "color" "red" = "red" /\ norm "color" "abc" = "abc".
Proof. vm_compute. repeat split; reflexivity. Qed.

(* correspondence: (name, value, what the implementation returned) *)
Definition norm_mismatches (cases : list (nat * string * string * string)) : list nat :=
  flat_map (fun c => match c with (i, n, v, o) => if String.eqb (norm n v) o then [] else [i] end) cases.
