(* The attribute store built from <mj-attributes> (mjml/globals/attributes.go:
   ProcessAttributesFromHead / processAttributesElement) and the mj-class merge a component performs
   (mjml/components/base.go: NewBaseComponent), as executable functions over the head's entries in
   document order — and their characterisation: every look-up yields the value of the LAST definition
   of that (tag | class | mj-all, attribute) in document order; an entry that does not mention an
   attribute leaves earlier definitions alone; the position of name= inside <mj-class> is irrelevant. *)
From Coq Require Import List String Bool Permutation.
Import ListNotations.
Open Scope string_scope.
Open Scope list_scope.

Definition attrs := list (string * string).          (* one element's attributes, in source order *)
Inductive entry :=
| EAll (a : attrs)                                   (* <mj-all .../> *)
| EClass (a : attrs)                                 (* <mj-class name=".." .../> (name anywhere) *)
| ETag (tag : string) (a : attrs).                   (* <mj-text .../> etc. *)

(* Go maps as association lists: newest binding first, look-up takes the first match *)
Definition amap := list (string * string).
Fixpoint aget (m : amap) (k : string) : option string :=
  match m with [] => None | (k', v) :: r => if String.eqb k' k then Some v else aget r k end.
Definition aset (m : amap) (k v : string) : amap := (k, v) :: m.
Definition aset_all (m : amap) (a : attrs) : amap := fold_left (fun m kv => aset m (fst kv) (snd kv)) a m.

Definition nmap := list (string * amap).
Fixpoint nget (m : nmap) (k : string) : amap :=
  match m with [] => [] | (k', v) :: r => if String.eqb k' k then v else nget r k end.
Definition nset (m : nmap) (k : string) (v : amap) : nmap := (k, v) :: m.

Record store := { s_all : amap ; s_cls : nmap ; s_tag : nmap }.
Definition empty : store := {| s_all := [] ; s_cls := [] ; s_tag := [] |}.

(* the loop that finds the class name: first attribute called "name" *)
Fixpoint class_name (a : attrs) : string :=
  match a with [] => "" | (k, v) :: r => if String.eqb k "name" then v else class_name r end.
Definition not_name (kv : string * string) : bool := negb (String.eqb (fst kv) "name").

Definition process_entry (s : store) (e : entry) : store :=
  match e with
  | EAll a => {| s_all := aset_all (s_all s) a ; s_cls := s_cls s ; s_tag := s_tag s |}
  | EClass a =>
      let n := class_name a in
      if String.eqb n "" then s
      else {| s_all := s_all s ;
              s_cls := nset (s_cls s) n (aset_all (nget (s_cls s) n) (filter not_name a)) ;
              s_tag := s_tag s |}
  | ETag t a => {| s_all := s_all s ; s_cls := s_cls s ;
                   s_tag := nset (s_tag s) t (aset_all (nget (s_tag s) t) a) |}
  end.
Definition process (es : list entry) : store := fold_left process_entry es empty.

Definition tag_get (s : store) (t a : string) : option string := aget (nget (s_tag s) t) a.
Definition all_get (s : store) (a : string) : option string := aget (s_all s) a.
Definition class_get (s : store) (c a : string) : option string := aget (nget (s_cls s) c) a.
(* GlobalAttributes.GetGlobalAttribute *)
Definition global_get (s : store) (t a : string) : string :=
  match tag_get s t a with Some v => v | None => match all_get s a with Some v => v | None => "" end end.

(* ---- specification: the last definition in document order -------------------------------- *)
Fixpoint last_assoc (l : attrs) (k : string) : option string :=
  match l with
  | [] => None
  | (k', v) :: r => match last_assoc r k with Some w => Some w | None => if String.eqb k' k then Some v else None end
  end.

Definition defs_tag (t : string) (e : entry) : attrs :=
  match e with ETag t' a => if String.eqb t' t then a else [] | _ => [] end.
Definition defs_all (e : entry) : attrs := match e with EAll a => a | _ => [] end.
Definition defs_class (c : string) (e : entry) : attrs :=
  match e with
  | EClass a => if String.eqb (class_name a) "" then [] else if String.eqb (class_name a) c then filter not_name a else []
  | _ => []
  end.

Lemma last_assoc_app l1 l2 k :
  last_assoc (l1 ++ l2) k = match last_assoc l2 k with Some w => Some w | None => last_assoc l1 k end.
Proof.
  induction l1 as [|[k' v] r IH]; cbn.
  - destruct (last_assoc l2 k); reflexivity.
  - rewrite IH. destruct (last_assoc l2 k); [reflexivity|]. reflexivity.
Qed.

Lemma aget_aset_all : forall a m k,
  aget (aset_all m a) k = match last_assoc a k with Some w => Some w | None => aget m k end.
Proof.
  induction a as [|[k' v] r IH]; intros m k; cbn [aset_all fold_left last_assoc]; [reflexivity|].
  change (fold_left _ r ?m0) with (aset_all m0 r). rewrite IH. cbn [fst snd aset aget].
  destruct (last_assoc r k); [reflexivity|]. destruct (String.eqb k' k); reflexivity.
Qed.

Lemma nget_nset m k v k' : nget (nset m k v) k' = if String.eqb k k' then v else nget m k'.
Proof. reflexivity. Qed.

(* generalised over the starting store *)
Lemma tag_get_fold : forall es s t a,
  tag_get (fold_left process_entry es s) t a =
  match last_assoc (flat_map (defs_tag t) es) a with Some w => Some w | None => tag_get s t a end.
Proof.
  induction es as [|e es IH]; intros s t a; cbn [fold_left flat_map]; [reflexivity|].
  rewrite IH, last_assoc_app. destruct (last_assoc (flat_map (defs_tag t) es) a); [reflexivity|].
  destruct e as [x|x|t' x]; cbn [process_entry defs_tag last_assoc]; try reflexivity.
  - destruct (String.eqb (class_name x) ""); reflexivity.
  - unfold tag_get. cbn [s_tag]. rewrite nget_nset. destruct (String.eqb t' t) eqn:E.
    + apply String.eqb_eq in E. subst. apply aget_aset_all.
    + reflexivity.
Qed.

Lemma all_get_fold : forall es s a,
  all_get (fold_left process_entry es s) a =
  match last_assoc (flat_map defs_all es) a with Some w => Some w | None => all_get s a end.
Proof.
  induction es as [|e es IH]; intros s a; cbn [fold_left flat_map]; [reflexivity|].
  rewrite IH, last_assoc_app. destruct (last_assoc (flat_map defs_all es) a); [reflexivity|].
  destruct e as [x|x|t' x]; cbn [process_entry defs_all last_assoc]; try reflexivity.
  - unfold all_get. cbn [s_all]. apply aget_aset_all.
  - destruct (String.eqb (class_name x) ""); reflexivity.
Qed.

Lemma class_get_fold : forall es s c a,
  class_get (fold_left process_entry es s) c a =
  match last_assoc (flat_map (defs_class c) es) a with Some w => Some w | None => class_get s c a end.
Proof.
  induction es as [|e es IH]; intros s c a; cbn [fold_left flat_map]; [reflexivity|].
  rewrite IH, last_assoc_app. destruct (last_assoc (flat_map (defs_class c) es) a); [reflexivity|].
  destruct e as [x|x|t' x]; cbn [process_entry defs_class last_assoc]; try reflexivity.
  destruct (String.eqb (class_name x) "") eqn:E0; [reflexivity|].
  unfold class_get. cbn [s_cls]. rewrite nget_nset. destruct (String.eqb (class_name x) c) eqn:E.
  - apply String.eqb_eq in E. subst. apply aget_aset_all.
  - reflexivity.
Qed.

Theorem tag_lookup_is_last_definition es t a :
  tag_get (process es) t a = last_assoc (flat_map (defs_tag t) es) a.
Proof. unfold process. rewrite tag_get_fold. destruct (last_assoc _ a); reflexivity. Qed.
Theorem all_lookup_is_last_definition es a :
  all_get (process es) a = last_assoc (flat_map defs_all es) a.
Proof. unfold process. rewrite all_get_fold. destruct (last_assoc _ a); reflexivity. Qed.
Theorem class_lookup_is_last_definition es c a :
  class_get (process es) c a = last_assoc (flat_map (defs_class c) es) a.
Proof. unfold process. rewrite class_get_fold. destruct (last_assoc _ a); reflexivity. Qed.

(* consequences the property needs *)
(* a later entry for the same tag that does not mention [a] leaves the earlier definition alone *)
Corollary later_entry_keeps_unmentioned es t x a :
  last_assoc x a = None ->
  tag_get (process (es ++ [ETag t x])) t a = tag_get (process es) t a.
Proof.
  intros H. rewrite !tag_lookup_is_last_definition, flat_map_app, last_assoc_app. cbn [flat_map defs_tag].
  rewrite String.eqb_refl, app_nil_r, H. reflexivity.
Qed.
(* and one that mentions it wins *)
Corollary later_entry_wins es t x a v :
  last_assoc x a = Some v -> tag_get (process (es ++ [ETag t x])) t a = Some v.
Proof.
  intros H. rewrite tag_lookup_is_last_definition, flat_map_app, last_assoc_app. cbn [flat_map defs_tag].
  rewrite String.eqb_refl, app_nil_r, H. reflexivity.
Qed.
(* entries for other tags never matter *)
Corollary other_tag_irrelevant es t t' x a :
  t' <> t -> tag_get (process (es ++ [ETag t' x])) t a = tag_get (process es) t a.
Proof.
  intros H. rewrite !tag_lookup_is_last_definition, flat_map_app, last_assoc_app. cbn [flat_map defs_tag].
  apply String.eqb_neq in H. rewrite H. reflexivity.
Qed.

(* attribute order inside one element is irrelevant when names are distinct (XML guarantees it) *)
Lemma last_assoc_some_in l k v : last_assoc l k = Some v -> In (k, v) l.
Proof.
  induction l as [|[k' v'] r IH]; cbn; [discriminate|].
  destruct (last_assoc r k) eqn:L.
  - intros H. inversion H; subst. right. now apply IH.
  - destruct (String.eqb k' k) eqn:E; [|discriminate]. apply String.eqb_eq in E. intros H. inversion H; subst. now left.
Qed.
Lemma last_assoc_in_nodup l k v : NoDup (map fst l) -> In (k, v) l -> last_assoc l k = Some v.
Proof.
  induction l as [|[k' v'] r IH]; cbn; intros ND HI; [contradiction|].
  inversion ND as [|? ? Hn ND']; subst. destruct HI as [E|HI].
  - inversion E; subst. destruct (last_assoc r k) eqn:L.
    + exfalso. apply Hn. apply last_assoc_some_in in L. apply in_map_iff. exists (k, s). auto.
    + now rewrite String.eqb_refl.
  - rewrite (IH ND' HI). reflexivity.
Qed.
Lemma last_assoc_none_notin l k : last_assoc l k = None -> ~ In k (map fst l).
Proof.
  induction l as [|[k' v'] r IH]; cbn; intros H; [tauto|].
  destruct (last_assoc r k); [discriminate|]. destruct (String.eqb k' k) eqn:E; [discriminate|].
  apply String.eqb_neq in E. intros [F|F]; [contradiction|]. now apply IH.
Qed.
Theorem last_assoc_perm l l' k : NoDup (map fst l) -> Permutation l l' -> last_assoc l k = last_assoc l' k.
Proof.
  intros ND P. assert (ND' : NoDup (map fst l')) by (eapply Permutation_NoDup; [apply Permutation_map; exact P|exact ND]).
  destruct (last_assoc l k) eqn:L.
  - apply last_assoc_some_in in L. symmetry. apply last_assoc_in_nodup; [exact ND'|]. eapply Permutation_in; eauto.
  - destruct (last_assoc l' k) eqn:L'; [|reflexivity]. apply last_assoc_some_in in L'.
    exfalso. apply (last_assoc_none_notin _ _ L). apply in_map_iff. exists (k, s). split; [reflexivity|].
    eapply Permutation_in; [symmetry; exact P|exact L'].
Qed.

Lemma class_name_is_last_assoc a : NoDup (map fst a) ->
  class_name a = match last_assoc a "name" with Some v => v | None => "" end.
Proof.
  induction a as [|[k v] r IH]; cbn; intros ND; [reflexivity|]. inversion ND as [|? ? Hn ND']; subst.
  destruct (String.eqb k "name") eqn:E.
  - apply String.eqb_eq in E. subst. destruct (last_assoc r "name") eqn:L; [|reflexivity].
    exfalso. apply Hn. apply last_assoc_some_in in L. apply in_map_iff. exists ("name", s). auto.
  - rewrite (IH ND'). destruct (last_assoc r "name"); reflexivity.
Qed.

Lemma filter_perm {A} (f : A -> bool) l l' : Permutation l l' -> Permutation (filter f l) (filter f l').
Proof.
  induction 1; cbn; try reflexivity.
  - destruct (f x); [now constructor|assumption].
  - destruct (f x), (f y); try reflexivity. apply perm_swap.
  - etransitivity; eassumption.
Qed.
Lemma nodup_filter_fst (f : string * string -> bool) l : NoDup (map fst l) -> NoDup (map fst (filter f l)).
Proof.
  induction l as [|x r IH]; cbn; intros ND; [constructor|]. inversion ND as [|? ? Hn ND']; subst.
  destruct (f x); cbn; [constructor|]; auto. intros HI. apply Hn. apply in_map_iff in HI. destruct HI as [y [E HI]].
  apply filter_In in HI. apply in_map_iff. exists y. tauto.
Qed.

(* the position of name= (and of every other attribute) inside <mj-class> does not matter *)
Theorem mj_class_attribute_order_irrelevant es1 es2 x x' c a :
  NoDup (map fst x) -> Permutation x x' ->
  class_get (process (es1 ++ EClass x :: es2)) c a = class_get (process (es1 ++ EClass x' :: es2)) c a.
Proof.
  intros ND P. rewrite !class_lookup_is_last_definition, !flat_map_app. cbn [flat_map].
  rewrite !last_assoc_app.
  assert (ND' : NoDup (map fst x')) by (eapply Permutation_NoDup; [apply Permutation_map; exact P|exact ND]).
  assert (N : class_name x = class_name x').
  { rewrite (class_name_is_last_assoc x ND), (class_name_is_last_assoc x' ND'). now rewrite (last_assoc_perm x x' "name" ND P). }
  assert (D : last_assoc (defs_class c (EClass x)) a = last_assoc (defs_class c (EClass x')) a).
  { cbn [defs_class]. rewrite <- N. destruct (String.eqb (class_name x) ""); [reflexivity|].
    destruct (String.eqb (class_name x) c); [|reflexivity].
    apply last_assoc_perm; [now apply nodup_filter_fst|now apply filter_perm]. }
  destruct (last_assoc (flat_map (defs_class c) es2) a); [reflexivity|]. now rewrite D.
Qed.

(* ---- the component's merge of the classes it names (NewBaseComponent) -------------------- *)
(* classAttrs[k] = v for every class in mj-class order, later overwrites; css-class values are joined *)
Definition comp_class_attr (s : store) (names : list string) (a : string) : option string :=
  fold_left (fun acc n => match class_get s n a with Some v => Some v | None => acc end) names None.
Fixpoint join_sp (l : list string) : string :=
  match l with [] => "" | [x] => x | x :: r => String.append x (String.append " " (join_sp r)) end.
Definition comp_css_class (s : store) (names : list string) : option string :=
  match flat_map (fun n => match class_get s n "css-class" with Some v => [v] | None => [] end) names with
  | [] => None | l => Some (join_sp l) end.

Theorem later_class_wins s names n a v :
  class_get s n a = Some v -> comp_class_attr s (names ++ [n]) a = Some v.
Proof. intros H. unfold comp_class_attr. rewrite fold_left_app. cbn. now rewrite H. Qed.
Theorem silent_class_keeps_earlier s names n a :
  class_get s n a = None -> comp_class_attr s (names ++ [n]) a = comp_class_attr s names a.
Proof. intros H. unfold comp_class_attr. rewrite fold_left_app. cbn. now rewrite H. Qed.

Example store_ex :
  let s := process [ ETag "mj-text" [("color", "red"); ("font-size", "10px")] ;
                     EClass [("color", "blue"); ("name", "c1")] ;
                     EAll [("color", "grey")] ;
                     ETag "mj-text" [("padding", "1px")] ;
                     EClass [("name", "c2"); ("color", "green"); ("css-class", "k2")] ;
                     EClass [("name", "c1"); ("css-class", "k1")] ] in
  tag_get s "mj-text" "color" = Some "red" /\ tag_get s "mj-text" "padding" = Some "1px" /\
  global_get s "mj-button" "color" = "grey" /\ class_get s "c1" "color" = Some "blue" /\
  comp_class_attr s ["c1"; "c2"] "color" = Some "green" /\ comp_class_attr s ["c2"; "c1"] "color" = Some "blue" /\
  comp_css_class s ["c1"; "c2"] = Some "k1 k2".
Proof. vm_compute. repeat split. Qed.

(* ---- evaluation interface of the correspondence check ------------------------------------ *)
From Coq Require Import NArith.
Inductive query := QGlobal (t a : string) | QClass (c a : string) | QComp (names : list string) (a : string).
Definition oget (o : option string) : string := match o with Some v => v | None => "" end.
Definition answer (s : store) (q : query) : string :=
  match q with
  | QGlobal t a => global_get s t a
  | QClass c a => oget (class_get s c a)
  | QComp names a => if String.eqb a "css-class" then oget (comp_css_class s names) else oget (comp_class_attr s names a)
  end.
Definition store_mismatches (cases : list (N * list entry * list (query * string))) : list N :=
  flat_map (fun c => match c with
                     | (i, es, qa) => let s := process es in
                                      if forallb (fun p => String.eqb (answer s (fst p)) (snd p)) qa then [] else [i]
                     end) cases.
