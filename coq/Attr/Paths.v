(* C08: the four public paths as functions of (process state, input).  The only state that
   survives between calls and is read while building/rendering components is the legacy
   globals pointer; after the fix every entry point installs the document's own store in the
   per-call RenderOpts before any component is built, and components read the process-wide
   pointer only when the per-call store is absent (both are recomputed facts, see C08.v). *)
From Coq Require Import List Bool.
Import ListNotations.

Section Paths.
  Variables (doc glob html : Type).
  Variable collect : doc -> glob.             (* ProcessAttributesFromHead *)
  Variable empty : glob.                      (* NewGlobalAttributes() *)
  Variable render : glob -> doc -> html.      (* CreateComponent + Render with the given store *)
  Variable reorder : html -> html.            (* normalizeGroupColumnClassOrder *)

  Record proc := { instance : option glob }.  (* globals.instance *)

  (* what a component sees: the per-call store when present, else the process-wide pointer *)
  Definition store_seen (per_call : option glob) (G : proc) : glob :=
    match per_call with Some g => g | None => match instance G with Some g => g | None => empty end end.

  (* entry_sets_store = the recomputed fact "RenderOpts.GlobalAttributes is assigned before CreateComponent" *)
  Definition path (entry_sets_store : bool) (G : proc) (d : doc) : html * proc :=
    let g := collect d in
    let G' := {| instance := Some g |} in
    (render (store_seen (if entry_sets_store then Some g else None) G') d, G').

  Definition render_with_ast := path true.
  Definition render_from_ast := path true.
  Definition new_from_ast_then_render := path true.
  Definition render_one_shot (G : proc) (d : doc) : html * proc :=
    let (h, G') := render_with_ast G d in (reorder h, G').

  (* results do not depend on the process state, i.e. on what was compiled before *)
  Theorem history_free : forall b G G' d, fst (path b G d) = fst (path b G' d).
  Proof. intros b G G' d. unfold path. destruct b; reflexivity. Qed.

  Theorem one_shot_history_free : forall G G' d, fst (render_one_shot G d) = fst (render_one_shot G' d).
  Proof. intros. unfold render_one_shot, render_with_ast, path. reflexivity. Qed.

  (* a whole call history: the k-th result equals the result of the same call made first *)
  Fixpoint run (G : proc) (calls : list doc) : list html :=
    match calls with [] => [] | d :: r => let (h, G') := render_one_shot G d in h :: run G' r end.
  Theorem every_call_as_if_first : forall calls G G0,
    run G calls = map (fun d => fst (render_one_shot G0 d)) calls.
  Proof.
    induction calls as [|d r IH]; intros G G0; cbn [run map]; [reflexivity|].
    unfold render_one_shot, render_with_ast, path. cbn [fst]. f_equal. apply (IH _ G0).
  Qed.

  (* all paths agree up to the class-order rewrite of the one-shot entry point *)
  Theorem paths_agree : forall G G' G'' d,
    fst (render_one_shot G d) = reorder (fst (render_from_ast G' d)) /\
    fst (render_one_shot G d) = reorder (fst (new_from_ast_then_render G'' d)).
  Proof. intros. unfold render_one_shot, render_with_ast, render_from_ast, new_from_ast_then_render, path. cbn. auto. Qed.
End Paths.

(* the pre-fix tree paths (store not installed, set_instance not called): the result is a function
   of the PREVIOUS document's head - kept as the witness that the facts matter *)
Example tree_path_without_store_depends_on_history :
  let render := fun (g : nat) (d : nat) => g + d in
  let old_path := fun (G : proc nat) (d : nat) => render (store_seen nat 0 None G) d in
  old_path {| instance := Some 5 |} 1 <> old_path {| instance := Some 7 |} 1.
Proof. vm_compute. discriminate. Qed.
