(* Semantics of write skeletons under a failing writer, and the fault-faithfulness theorem:
   in every execution of a program all of whose writer uses are checked, if the k-th write
   fails, exactly that error is returned, exactly the first k writes of the fault-free
   execution have been made, and nothing is written afterwards. *)
From Coq Require Import List String Bool Arith Lia.
From GV Require Import Fault.Prog.
Import ListNotations.
Local Notation length := List.length.

(* One execution with control flow and callees resolved.  Writes carry a label so that the
   prefix property is about *which* writes were made, not only how many. *)
Inductive rp :=
| RW (x : nat)          (* checked write of datum x *)
| RBadW (x : nat)       (* write whose error is dropped *)
| RCall (body : rp)     (* checked call: callee's failure is returned, its plain return is absorbed *)
| RIter (body : rp)     (* one loop iteration: absorbs continue/break *)
| RSeq (a b : rp)
| RSkip | RRet | RBrk.

Inductive status := SCont | SRet | SBrk | SFail.

(* b = number of writes that still succeed; the (b+1)-th write fails *)
Fixpoint run (r : rp) (b : nat) : list nat * status * nat :=
  match r with
  | RW x => match b with 0 => ([], SFail, 0) | S b' => ([x], SCont, b') end
  | RBadW x => match b with 0 => ([], SCont, 0) | S b' => ([x], SCont, b') end
  | RCall body => match run body b with
                  | (t, SFail, b') => (t, SFail, b')
                  | (t, _, b') => (t, SCont, b')
                  end
  | RIter body => match run body b with
                  | (t, SBrk, b') => (t, SCont, b')
                  | o => o
                  end
  | RSeq a c => match run a b with
                | (t, SCont, b') => let '(t', s, b'') := run c b' in (t ++ t', s, b'')
                | o => o
                end
  | RSkip => ([], SCont, b)
  | RRet => ([], SRet, b)
  | RBrk => ([], SBrk, b)
  end.

Fixpoint rchecked (r : rp) : bool :=
  match r with
  | RBadW _ => false
  | RCall a | RIter a => rchecked a
  | RSeq a b => rchecked a && rchecked b
  | _ => true
  end.

Fixpoint nwrites (r : rp) : nat :=   (* upper bound on the writes of the fault-free run *)
  match r with
  | RW _ | RBadW _ => 1
  | RCall a | RIter a => nwrites a
  | RSeq a b => nwrites a + nwrites b
  | _ => 0
  end.

Definition tr (o : list nat * status * nat) := fst (fst o).
Definition st (o : list nat * status * nat) := snd (fst o).
Definition rem (o : list nat * status * nat) := snd o.

Lemma run_budget r b : length (tr (run r b)) + rem (run r b) <= b /\
  (st (run r b) <> SFail -> length (tr (run r b)) + rem (run r b) = b) /\ length (tr (run r b)) <= nwrites r.
Proof.
  revert b. induction r as [x|x|a IH|a IH|a IHa c IHc| | |]; intros b; cbn [run nwrites].
  - destruct b; cbn; repeat split; try lia; congruence.
  - destruct b; cbn; repeat split; try lia.
  - specialize (IH b). destruct (run a b) as [[t s] b']. unfold tr, st, rem in *. cbn in *.
    destruct s; cbn; repeat split; try tauto; try lia; intros; apply IH; congruence.
  - specialize (IH b). destruct (run a b) as [[t s] b']. unfold tr, st, rem in *. cbn in *.
    destruct s; cbn; repeat split; try tauto; try lia; intros; apply IH; congruence.
  - specialize (IHa b). destruct (run a b) as [[t s] b'] eqn:Ea. unfold tr, st, rem in *. cbn in *.
    destruct s; cbn; try (repeat split; try tauto; try lia; intros; apply IHa; congruence).
    specialize (IHc b'). destruct (run c b') as [[t' s'] b'']. cbn in *. rewrite app_length.
    destruct IHa as (A1 & A2 & A3). destruct IHc as (C1 & C2 & C3).
    assert (length t + b' = b) by (apply A2; congruence).
    repeat split; try lia. intros H0. specialize (C2 H0). lia.
  - unfold tr, st, rem; cbn; repeat split; try lia.
  - unfold tr, st, rem; cbn; repeat split; try lia.
  - unfold tr, st, rem; cbn; repeat split; try lia.
Qed.

(* with enough budget nothing fails *)
Lemma run_no_fail r b : rchecked r = true -> nwrites r <= b -> st (run r b) <> SFail.
Proof.
  revert b. induction r as [x|x|a IH|a IH|a IHa c IHc| | |]; intros b Hc Hb; cbn [run nwrites rchecked] in *.
  - destruct b; [lia|]. cbn. congruence.
  - discriminate.
  - specialize (IH b Hc Hb). destruct (run a b) as [[t s] b']. unfold st in *. cbn in *. destruct s; cbn; congruence.
  - specialize (IH b Hc Hb). destruct (run a b) as [[t s] b']. unfold st in *. cbn in *. destruct s; cbn; congruence.
  - apply andb_true_iff in Hc. destruct Hc as [Ha Hc].
    assert (Hba : nwrites a <= b) by lia. specialize (IHa b Ha Hba).
    pose proof (run_budget a b) as (B1 & B2 & B3).
    destruct (run a b) as [[t s] b'] eqn:Ea. unfold st, tr, rem in *. cbn in *.
    destruct s; cbn; try congruence.
    assert (length t + b' = b) by (apply B2; congruence).
    assert (Hbc : nwrites c <= b') by lia. specialize (IHc b' Hc Hbc).
    destruct (run c b') as [[t' s'] b'']. cbn in *. exact IHc.
  - unfold st; cbn; congruence.
  - unfold st; cbn; congruence.
  - unfold st; cbn; congruence.
Qed.

(* The core lemma: compare a run with budget k against a run with a larger budget B. *)
Lemma run_prefix r : rchecked r = true -> forall k B, k <= B ->
  let o := run r B in let o' := run r k in
  (length (tr o) <= k -> st o <> SFail -> tr o' = tr o /\ st o' = st o /\ rem o' + (B - k) = rem o) /\
  (k < length (tr o) -> tr o' = firstn k (tr o) /\ st o' = SFail /\ rem o' = 0).
Proof.
  induction r as [x|x|a IH|a IH|a IHa c IHc| | |]; intros Hc k B Hk; cbn [rchecked] in *.
  - cbn [run]. destruct B as [|B']; destruct k as [|k']; unfold tr, st, rem; cbn; try lia.
    + split; [intros _ Hs; exfalso; apply Hs; reflexivity|intros; lia].
    + split; [intros; lia|intros _; auto].
    + split; [intros _ _; repeat split; lia|intros; lia].
  - discriminate.
  - specialize (IH Hc k B Hk). cbn zeta in IH. cbn [run].
    destruct (run a B) as [[t s] b'] eqn:EB. destruct (run a k) as [[t2 s2] b2] eqn:Ek.
    unfold tr, st, rem in *. cbn in *. destruct IH as [IH1 IH2]. split.
    + intros Hl Hs. destruct s; cbn in *; try congruence;
        (destruct IH1 as (E1 & E2 & E3); [exact Hl|congruence|]; subst; cbn; auto).
    + intros Hl. assert (length t = length t) by reflexivity.
      destruct s; cbn in *; destruct (IH2 Hl) as (E1 & E2 & E3); subst; cbn; auto.
  - specialize (IH Hc k B Hk). cbn zeta in IH. cbn [run].
    destruct (run a B) as [[t s] b'] eqn:EB. destruct (run a k) as [[t2 s2] b2] eqn:Ek.
    unfold tr, st, rem in *. cbn in *. destruct IH as [IH1 IH2]. split.
    + intros Hl Hs. destruct s; cbn in *; try congruence;
        (destruct IH1 as (E1 & E2 & E3); [exact Hl|congruence|]; subst; cbn; auto).
    + intros Hl. destruct s; cbn in *; destruct (IH2 Hl) as (E1 & E2 & E3); subst; cbn; auto.
  - apply andb_true_iff in Hc. destruct Hc as [Ha Hcc].
    specialize (IHa Ha k B Hk). cbn zeta in IHa. cbn [run].
    pose proof (run_budget a B) as (BB1 & BB2 & _).
    pose proof (run_budget a k) as (Bk1 & Bk2 & _).
    destruct (run a B) as [[t s] b'] eqn:EB. destruct (run a k) as [[t2 s2] b2] eqn:Ek.
    unfold tr, st, rem in *. cbn in *. destruct IHa as [IA1 IA2].
    destruct s.
    + (* a continues with budget B: run c *)
      assert (HtB : length t + b' = B) by (apply BB2; congruence).
      destruct (le_lt_dec (length t) k) as [Hle|Hgt].
      * destruct IA1 as (E1 & E2 & E3); [exact Hle|congruence|]. subst t2 s2.
        assert (Htk : length t + b2 = k) by (apply Bk2; congruence).
        assert (Hkb : b2 <= b') by lia.
        specialize (IHc Hcc b2 b' Hkb). cbn zeta in IHc.
        destruct (run c b') as [[t' s'] b''] eqn:EcB. destruct (run c b2) as [[t3 s3] b3] eqn:Eck.
        unfold tr, st, rem in *. cbn in *. destruct IHc as [IC1 IC2]. rewrite app_length. split.
        -- intros Hl Hs. destruct IC1 as (F1 & F2 & F3); [lia|exact Hs|]. rewrite F1, F2. repeat split; auto. lia.
        -- intros Hl. destruct IC2 as (F1 & F2 & F3); [lia|]. rewrite F1, F2, F3. repeat split; auto.
           rewrite firstn_app. replace (k - length t) with b2 by lia.
           rewrite (firstn_all2 t) by lia. reflexivity.
      * destruct (IA2 Hgt) as (E1 & E2 & E3). subst.
        destruct (run c b') as [[t' s'] b'']. cbn. rewrite app_length. split; [intros; lia|].
        intros _. repeat split; auto. rewrite firstn_app.
        replace (k - length t) with 0 by lia. cbn. now rewrite app_nil_r.
    + split.
      * intros Hl Hs. destruct IA1 as (E1 & E2 & E3); [exact Hl|congruence|]. subst. cbn. auto.
      * intros Hl. destruct (IA2 Hl) as (E1 & E2 & E3). subst. cbn. auto.
    + split.
      * intros Hl Hs. destruct IA1 as (E1 & E2 & E3); [exact Hl|congruence|]. subst. cbn. auto.
      * intros Hl. destruct (IA2 Hl) as (E1 & E2 & E3). subst. cbn. auto.
    + split.
      * intros Hl Hs. exfalso. apply Hs. reflexivity.
      * intros Hl. destruct (IA2 Hl) as (E1 & E2 & E3). subst. cbn. auto.
  - unfold tr, st, rem; cbn; split; intros; [repeat split; auto; lia|lia].
  - unfold tr, st, rem; cbn; split; intros; [repeat split; auto; lia|lia].
  - unfold tr, st, rem; cbn; split; intros; [repeat split; auto; lia|lia].
Qed.

(* Fault faithfulness of one resolved execution.  [full] is the fault-free run. *)
Theorem rchecked_fault_faithful r : rchecked r = true ->
  let full := run r (nwrites r) in
  st full <> SFail /\
  forall k,
    (k < length (tr full) -> tr (run r k) = firstn k (tr full) /\ st (run r k) = SFail) /\
    (length (tr full) <= k -> k <= nwrites r -> tr (run r k) = tr full /\ st (run r k) = st full).
Proof.
  intros Hc full. assert (Hnf : st full <> SFail) by (apply run_no_fail; auto).
  split; [exact Hnf|]. intros k. split.
  - intros Hk. pose proof (run_budget r (nwrites r)) as (_ & _ & B3). fold full in B3.
    assert (Hle : k <= nwrites r) by lia.
    destruct (run_prefix r Hc k (nwrites r) Hle) as [_ P2]. destruct (P2 Hk) as (E1 & E2 & _). auto.
  - intros Hk Hle. destruct (run_prefix r Hc k (nwrites r) Hle) as [P1 _].
    destruct (P1 Hk Hnf) as (E1 & E2 & _). auto.
Qed.

(* ---- from skeletons to executions ------------------------------------------------ *)
Section Resolve.
  (* env f body: function/method name f may dispatch to skeleton body (dynamic dispatch on
     Component.Render has many) *)
  Variable env : string -> prog -> Prop.

  Inductive resolves : prog -> rp -> Prop :=
  | R_write x : resolves PWrite (RW x)
  | R_bad w x : resolves (PBad w) (RBadW x)
  | R_call f body r : env f body -> resolves body r -> resolves (PCall f) (RCall r)
  | R_seq p q a b : resolves p a -> resolves q b -> resolves (PSeq p q) (RSeq a b)
  | R_if_l p q a : resolves p a -> resolves (PIf p q) a
  | R_if_r p q b : resolves q b -> resolves (PIf p q) b
  | R_loop_0 p : resolves (PLoop p) RSkip
  | R_loop_S p a b : resolves p a -> resolves (PLoop p) b -> resolves (PLoop p) (RSeq (RIter a) b)
  | R_skip : resolves PSkip RSkip
  | R_ret : resolves PRet RRet
  | R_brk : resolves PBrk RBrk.

  Hypothesis env_checked : forall f body, env f body -> checked body = true.

  Lemma resolves_checked p r : resolves p r -> checked p = true -> rchecked r = true.
  Proof.
    induction 1; cbn; intros Hc; try reflexivity; try discriminate.
    - apply IHresolves. eapply env_checked; eauto.
    - apply andb_true_iff in Hc. destruct Hc. rewrite IHresolves1, IHresolves2; auto.
    - apply andb_true_iff in Hc. destruct Hc. auto.
    - apply andb_true_iff in Hc. destruct Hc. auto.
    - rewrite IHresolves1, IHresolves2; auto.
  Qed.

  (* every execution of every checked skeleton, over an environment of checked skeletons, is
     fault-faithful - for every failure position k *)
  Theorem checked_fault_faithful p r : checked p = true -> resolves p r ->
    let full := run r (nwrites r) in
    st full <> SFail /\
    forall k,
      (k < length (tr full) -> tr (run r k) = firstn k (tr full) /\ st (run r k) = SFail) /\
      (length (tr full) <= k -> k <= nwrites r -> tr (run r k) = tr full /\ st (run r k) = st full).
  Proof. intros Hc Hr. apply rchecked_fault_faithful. eapply resolves_checked; eauto. Qed.
End Resolve.

(* the environment given by an extracted table: a call of name f may reach any skeleton whose
   qualified name ends in ".f" - an over-approximation of Go's static and dynamic dispatch *)
Definition ends_with (suffix s : string) : bool :=
  let n := String.length s in let m := String.length suffix in
  if Nat.leb m n then String.eqb (substring (n - m) m s) suffix else false.

Definition table_env (tbl : list (string * prog)) (f : string) (body : prog) : Prop :=
  exists name, In (name, body) tbl /\ ends_with ("." ++ f) name = true.

Lemma table_env_checked tbl : forallb (fun nb => checked (snd nb)) tbl = true ->
  forall f body, table_env tbl f body -> checked body = true.
Proof.
  intros H f body (name & Hin & _). rewrite forallb_forall in H. exact (H _ Hin).
Qed.
