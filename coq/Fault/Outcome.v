(* Return paths of mjml.RenderWithAST / mjml.Render (mjml/render.go): which of
   (html, nil) | (html, validation error) | ("", error) comes out. *)
From Coq Require Import List.

Inductive parse_result := ParseOk | ParseErr.
Inductive create_result := CreateOk | CreateNoBody | CreateErr.   (* CreateNoBody: "MJML badly formatted" sentinel *)
Inductive render_result (html err : Type) := RenderOk (h : html) | RenderErr (e : err).
Arguments RenderOk {html err}. Arguments RenderErr {html err}.

Inductive result (html err : Type) :=
| OutHtml (h : option html)                        (* HTML (None = the fixed sentinel text), no error *)
| OutHtmlWithValidation (h : html) (n : nat)       (* HTML together with a validation error of n details *)
| OutError (e : option err).                       (* no HTML; an ordinary error *)
Arguments OutHtml {html err}. Arguments OutHtmlWithValidation {html err}. Arguments OutError {html err}.

(* v = Some n: the invalid-attribute reporter was called n+1 times while building the tree *)
Definition outcome (html err : Type) (pr : parse_result) (cr : create_result) (rr : render_result html err)
                   (v : option nat) : result html err :=
  match pr with
  | ParseErr => OutError None
  | ParseOk =>
      match cr with
      | CreateErr => OutError None
      | CreateNoBody => OutHtml None
      | CreateOk =>
          match rr with
          | RenderErr e => OutError (Some e)
          | RenderOk h => match v with Some n => OutHtmlWithValidation h (S n) | None => OutHtml (Some h) end
          end
      end
  end.

Theorem outcome_exclusive : forall (html err : Type) (pr : parse_result) (cr : create_result) (rr : render_result html err) v,
  match outcome html err pr cr rr v with
  | OutHtml _ | OutHtmlWithValidation _ _ | OutError _ => True
  end /\
  (forall h, outcome html err pr cr rr v = OutHtml h -> pr = ParseOk /\ cr <> CreateErr /\ v = None \/ cr = CreateNoBody) /\
  (forall e, outcome html err pr cr rr v = OutError e -> pr = ParseErr \/ cr = CreateErr \/ exists x, rr = RenderErr x).
Proof.
  intros. destruct pr, cr, rr, v; cbn; repeat split; try exact I; intros; try discriminate; eauto;
    try (left; repeat split; congruence).
Qed.
