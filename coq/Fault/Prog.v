(* Write skeletons (C06a): the abstraction of a function that receives the caller's
   io.StringWriter, as extracted by gen/gomjml-facts (gen/writeskel.go). *)
From Coq Require Import List String Bool.
Import ListNotations.

Inductive prog :=
| PWrite                 (* w.WriteString(..) whose error is tested at once and returned unchanged *)
| PBad (why : string)    (* any other use of the writer: result dropped, error wrapped/swallowed, defer, ... *)
| PCall (f : string)     (* call passing w on; its error is tested at once and returned unchanged *)
| PSeq (p q : prog)
| PIf (p q : prog)       (* either branch; the choice does not depend on the writer *)
| PLoop (p : prog)       (* any number of iterations *)
| PSkip                  (* statements that do not touch the writer *)
| PRet                   (* return (of nil or of an error that is not a write error) *)
| PBrk.                  (* continue / break: leaves the current loop iteration *)

Definition PSeqs (l : list prog) : prog := fold_right PSeq PSkip l.

(* no unchecked use of the writer anywhere *)
Fixpoint checked (p : prog) : bool :=
  match p with
  | PBad _ => false
  | PSeq a b | PIf a b => checked a && checked b
  | PLoop a => checked a
  | _ => true
  end.

Fixpoint count_writes (p : prog) : nat :=
  match p with
  | PWrite => 1
  | PSeq a b | PIf a b => count_writes a + count_writes b
  | PLoop a => count_writes a
  | _ => 0
  end.
