(* Byte-level port of normalizeGroupColumnClassOrder (mjml/render.go): the rewrite that Render /
   RenderWithAST apply to the finished HTML and the step-by-step API does not.  Theorems: on input
   whose matched class attributes are closed by a quote, the output is a permutation of the input's
   bytes of the same length (the rewrite only moves the 21 bytes "mj-outlook-group-fix " behind the
   first class name), it is the identity when the trigger does not occur, and the fuel is adequate. *)
From Coq Require Import List Bool Arith Lia Permutation.
From Coq.Strings Require Import Byte String.
From GV Require Import Base.Bytes.
Import ListNotations.
Open Scope string_scope.
Open Scope list_scope.
Local Notation length := List.length.

Definition dq : byte := x22.
Definition sp : byte := x20.
Definition needle : bytes := lit "class=""mj-outlook-group-fix ".
Definition cprefix : bytes := lit "class=""".
Definition fix_sp : bytes := lit "mj-outlook-group-fix ".
Definition sp_fix : bytes := lit " mj-outlook-group-fix".
Definition col_prefix : bytes := lit "mj-column-".
Definition trigger : bytes := lit "mj-outlook-group-fix mj-column-".

(* strings.IndexByte + slicing: text before the first c, text after it *)
Fixpoint split_at (c : byte) (s : bytes) : option (bytes * bytes) :=
  match s with
  | [] => None
  | x :: r => if beq x c then Some ([], r)
              else match split_at c r with Some (a, b) => Some (x :: a, b) | None => None end
  end.

Lemma split_at_spec c s a b : split_at c s = Some (a, b) -> s = a ++ c :: b.
Proof.
  revert a b. induction s as [|x r IH]; cbn; intros a b H; [discriminate|].
  destruct (beq x c) eqn:E.
  - apply beq_eq in E. inversion H; subst. reflexivity.
  - destruct (split_at c r) as [[a' b']|]; [|discriminate]. inversion H; subst. cbn. f_equal. now apply IH.
Qed.

Lemma split_at_shorter c s a b : split_at c s = Some (a, b) -> length b < length s.
Proof. intros H. apply split_at_spec in H. subst. rewrite app_length. cbn. lia. Qed.

Lemma index_spec p s i : index p s = Some i -> s = firstn i s ++ p ++ skipn (i + length p) s.
Proof.
  revert i. induction s as [|c r IH]; intros i; cbn [index].
  - destruct (prefix p []) eqn:E; [|discriminate]. intros H. inversion H; subst.
    apply prefix_spec in E. destruct E as [q E]. destruct p; [|discriminate]. reflexivity.
  - destruct (prefix p (c :: r)) eqn:E.
    + intros H. inversion H; subst. apply prefix_spec in E. destruct E as [q E]. rewrite E. cbn [firstn app plus].
      rewrite skipn_app, skipn_all, Nat.sub_diag. reflexivity.
    + destruct (index p r) as [j|] eqn:J; cbn; [|discriminate]. intros H. inversion H; subst.
      cbn [firstn plus skipn app]. f_equal. now apply IH.
Qed.

Definition rewrite_value (value : bytes) : bytes :=
  if prefix col_prefix value then
    match split_at sp value with
    | None => value ++ sp_fix
    | Some (first, more) => first ++ sp_fix ++ sp :: more
    end
  else fix_sp ++ value.

Fixpoint rewrite_ (fuel : nat) (s : bytes) : bytes :=
  match fuel with
  | 0 => s
  | S f =>
    match index needle s with
    | None => s
    | Some i =>
      let before := firstn i s in
      let rest := skipn (i + length needle) s in
      match split_at dq rest with
      | None => before ++ cprefix ++ rest                 (* "malformed attribute": remainder verbatim *)
      | Some (value, after) => before ++ cprefix ++ rewrite_value value ++ dq :: rewrite_ f after
      end
    end
  end.

Definition normalize (s : bytes) : bytes :=
  if contains trigger s then rewrite_ (length s) s else s.

(* every class attribute the loop visits is closed by a quote *)
Fixpoint closed (fuel : nat) (s : bytes) : bool :=
  match fuel with
  | 0 => true
  | S f =>
    match index needle s with
    | None => true
    | Some i =>
      match split_at dq (skipn (i + length needle) s) with
      | None => false
      | Some (_, after) => closed f after
      end
    end
  end.

Lemma needle_split : needle = cprefix ++ fix_sp.
Proof. reflexivity. Qed.

Lemma fix_sp_perm : Permutation sp_fix fix_sp.
Proof.
  unfold sp_fix, fix_sp. change (lit " mj-outlook-group-fix") with (sp :: lit "mj-outlook-group-fix").
  change (lit "mj-outlook-group-fix ") with (lit "mj-outlook-group-fix" ++ [sp]).
  apply Permutation_cons_append.
Qed.

Lemma rewrite_value_perm v : Permutation (rewrite_value v) (fix_sp ++ v).
Proof.
  unfold rewrite_value. destruct (prefix col_prefix v); [|reflexivity].
  destruct (split_at sp v) as [[first more]|] eqn:E.
  - apply split_at_spec in E. subst v.
    rewrite (app_assoc first sp_fix). rewrite (app_assoc fix_sp first).
    apply Permutation_app_tail. rewrite Permutation_app_comm. apply Permutation_app_tail. apply fix_sp_perm.
  - rewrite Permutation_app_comm. apply Permutation_app_tail. apply fix_sp_perm.
Qed.

Theorem rewrite_perm : forall f s, closed f s = true -> Permutation (rewrite_ f s) s.
Proof.
  induction f as [|f IH]; intros s H; cbn [rewrite_]; [reflexivity|].
  cbn [closed] in H. destruct (index needle s) as [i|] eqn:I; [|reflexivity].
  destruct (split_at dq (skipn (i + length needle) s)) as [[value after]|] eqn:S; [|discriminate].
  pose proof (index_spec _ _ _ I) as Es. pose proof (split_at_spec _ _ _ _ S) as Er.
  rewrite Es at 2. rewrite Er. rewrite needle_split, <- !app_assoc.
  apply Permutation_app_head. apply Permutation_app_head.
  rewrite (app_assoc fix_sp value). apply Permutation_app; [apply rewrite_value_perm|].
  apply perm_skip. now apply IH.
Qed.

Theorem rewrite_length f s : closed f s = true -> length (rewrite_ f s) = length s.
Proof. intros H. apply Permutation_length. now apply rewrite_perm. Qed.

(* fuel: every iteration continues on a strictly shorter suffix *)
Lemma rewrite_fuel : forall f g s, length s <= f -> length s <= g -> rewrite_ f s = rewrite_ g s.
Proof.
  induction f as [|f IH]; intros g s Hf Hg.
  - destruct s; [|cbn in Hf; lia]. destruct g; reflexivity.
  - destruct g as [|g].
    + destruct s; [|cbn in Hg; lia]. reflexivity.
    + cbn [rewrite_]. destruct (index needle s) as [i|] eqn:I; [|reflexivity].
      destruct (split_at dq (skipn (i + length needle) s)) as [[value after]|] eqn:S; [|reflexivity].
      f_equal. f_equal. f_equal. f_equal.
      pose proof (split_at_shorter _ _ _ _ S) as L. rewrite skipn_length in L.
      pose proof (index_spec _ _ _ I) as Es. assert (0 < length needle) by (cbn; lia).
      apply IH; lia.
Qed.

Theorem normalize_perm s : closed (length s) s = true -> Permutation (normalize s) s.
Proof. intros H. unfold normalize. destruct (contains trigger s); [now apply rewrite_perm|reflexivity]. Qed.

Theorem normalize_id_without_trigger s : contains trigger s = false -> normalize s = s.
Proof. intros H. unfold normalize. now rewrite H. Qed.

(* the rewritten value keeps the same class names: as a list of space-separated words it is the
   input's with the first two exchanged *)
Example normalize_ex :
  normalize (lit "<div class=""mj-outlook-group-fix mj-column-per-50 x"" style=""a""><p class=""mj-outlook-group-fix mj-column-px-10"">")
  = lit "<div class=""mj-column-per-50 mj-outlook-group-fix x"" style=""a""><p class=""mj-column-px-10 mj-outlook-group-fix"">".
Proof. vm_compute. reflexivity. Qed.
Example normalize_other_order_kept :
  normalize (lit "<i class=""mj-outlook-group-fix zz""><b class=""mj-outlook-group-fix mj-column-per-5"">")
  = lit "<i class=""mj-outlook-group-fix zz""><b class=""mj-column-per-5 mj-outlook-group-fix"">".
Proof. vm_compute. reflexivity. Qed.
(* the malformed branch loses the 21 bytes: the closedness premise is necessary *)
Example malformed_loses_bytes :
  let s := lit "mj-outlook-group-fix mj-column- <a class=""mj-outlook-group-fix mj-column-per-5" in
  closed (length s) s = false /\ length (normalize s) + 21 = length s.
Proof. vm_compute. split; reflexivity. Qed.
