(* C01: the equivalence the property names, as an executable normal form of a token stream:
   attributes sorted by name, the style value split into declarations and stably sorted by property
   name (independent declarations commute, repeated properties keep their order), class kept in
   authored order, whitespace-only text between tags dropped, other text whitespace-collapsed. *)
From Coq Require Import List Bool Arith Lia NArith.
From Coq.Strings Require Import Byte String.
From GV Require Import Base.Bytes Base.Tok.
Import ListNotations.
Local Notation length := List.length.

(* lexicographic order on byte strings *)
Fixpoint bytes_leb (a b : bytes) : bool :=
  match a, b with
  | [], _ => true
  | _ :: _, [] => false
  | x :: a', y :: b' => let nx := Byte.to_nat x in let ny := Byte.to_nat y in
                       if nx <? ny then true else if ny <? nx then false else bytes_leb a' b'
  end.

(* stable insertion sort by key *)
Section Sort.
  Variable A : Type.
  Variable key : A -> bytes.
  Fixpoint insert (x : A) (l : list A) : list A :=
    match l with
    | [] => [x]
    | y :: r => if bytes_leb (key y) (key x) then y :: insert x r else x :: l     (* after equal keys: stable *)
    end.
  Fixpoint isort (l : list A) : list A := match l with [] => [] | x :: r => insert x (isort r) end.
  (* to keep stability with a right fold, sort the reversed list and insert before equal keys *)
  Fixpoint insert_front (x : A) (l : list A) : list A :=
    match l with
    | [] => [x]
    | y :: r => if bytes_leb (key x) (key y) then x :: l else y :: insert_front x r
    end.
  Definition stable_sort (l : list A) : list A := fold_right insert_front [] l.
End Sort.

Definition b_colon := x3a. Definition b_semi := x3b.

Fixpoint split_on (c : byte) (cur : bytes) (s : bytes) : list bytes :=
  match s with
  | [] => [rev cur]
  | x :: r => if beq x c then rev cur :: split_on c [] r else split_on c (x :: cur) r
  end.

Definition trim (s : bytes) : bytes := rev (drop_while is_ws (rev (drop_while is_ws s))).

(* collapse runs of white space to one space *)
Fixpoint collapse_ws (prev_ws : bool) (s : bytes) : bytes :=
  match s with
  | [] => []
  | c :: r => if is_ws c then (if prev_ws then collapse_ws true r else x20 :: collapse_ws true r)
              else c :: collapse_ws false r
  end.
(* character references: the same character data whether written as a reference or literally *)
Definition byte_of_N (n : N) : byte := match Byte.of_N n with Some b => b | None => x3f end.
Definition utf8 (n : N) : bytes :=
  (if n <? 128 then [byte_of_N n]
   else if n <? 2048 then [byte_of_N (192 + n / 64); byte_of_N (128 + n mod 64)]
   else if n <? 65536 then [byte_of_N (224 + n / 4096); byte_of_N (128 + (n / 64) mod 64); byte_of_N (128 + n mod 64)]
   else [byte_of_N (240 + n / 262144); byte_of_N (128 + (n / 4096) mod 64); byte_of_N (128 + (n / 64) mod 64); byte_of_N (128 + n mod 64)])%N.

Definition digit_val (c : byte) : option N :=
  let n := Byte.to_N c in
  (if (48 <=? n) && (n <=? 57) then Some (n - 48) else None)%N.
Definition hex_val (c : byte) : option N :=
  let n := Byte.to_N c in
  (if (48 <=? n) && (n <=? 57) then Some (n - 48)
   else if (97 <=? n) && (n <=? 102) then Some (n - 87)
   else if (65 <=? n) && (n <=? 70) then Some (n - 55) else None)%N.
Fixpoint parse_num (base : N) (val : byte -> option N) (acc : N) (s : bytes) : option N :=
  match s with
  | [] => Some acc
  | c :: r => match val c with Some d => parse_num base val (acc * base + d)%N r | None => None end
  end.

Definition named_refs : list (bytes * bytes) :=
  [ (lit "amp", [x26]); (lit "lt", [x3c]); (lit "gt", [x3e]); (lit "quot", [x22]); (lit "apos", [x27]);
    (lit "nbsp", utf8 160); (lit "copy", utf8 169); (lit "reg", utf8 174); (lit "trade", utf8 8482);
    (lit "ndash", utf8 8211); (lit "mdash", utf8 8212); (lit "hellip", utf8 8230) ].

Definition decode_ref (name : bytes) : option bytes :=
  match name with
  | c :: r =>
      if beq c x23 then
        match r with
        | d :: r' => if beq d x78 || beq d x58
                     then (match r' with [] => None | _ => option_map utf8 (parse_num 16 hex_val 0%N r') end)
                     else option_map utf8 (parse_num 10 digit_val 0%N r)
        | [] => None
        end
      else match find (fun p => bytes_eqb (fst p) name) named_refs with Some p => Some (snd p) | None => None end
  | [] => None
  end.

Fixpoint decode_refs (skip : nat) (s : bytes) : bytes :=
  match s with
  | [] => []
  | c :: r =>
      match skip with
      | S k => decode_refs k r
      | 0 =>
          if beq c x26 then
            let name := take_while (fun x => negb (beq x x3b) && negb (is_ws x) && negb (beq x x26)) r in
            match skipn (length name) r with
            | t :: _ => if beq t x3b then
                          match decode_ref name with
                          | Some d => d ++ decode_refs (S (length name)) r
                          | None => c :: decode_refs 0 r
                          end
                        else c :: decode_refs 0 r
            | [] => c :: decode_refs 0 r
            end
          else c :: decode_refs 0 r
      end
  end.

Definition norm_text (s : bytes) : bytes := trim (collapse_ws false (decode_refs 0 s)).

Definition decl := (bytes * bytes)%type.
Definition parse_style (v : bytes) : list decl :=
  flat_map (fun d => let d := trim d in
                     match d with
                     | [] => []
                     | _ => let p := take_while (fun c => negb (beq c b_colon)) d in
                            [(to_lower (trim p), norm_text (skipn (S (length p)) d))]
                     end) (split_on b_semi [] v).
(* The relative order of two declarations matters when one is a shorthand of the other
   (padding / padding-top, border / border-left-color, ...): the later one wins in a browser.
   The sorted declaration list forgets order, so each such ordered pair is recorded as a
   pseudo-declaration ("<", earlier ++ "<" ++ later); unrelated declarations may be permuted freely. *)
Definition b_dash := x2d.
Definition overlaps (p q : bytes) : bool :=
  negb (bytes_eqb p q) && (prefix (p ++ [b_dash]) q || prefix (q ++ [b_dash]) p).
Fixpoint order_marks (l : list decl) : list decl :=
  match l with
  | [] => []
  | d :: r => map (fun e => ([b_lt], fst d ++ [b_lt] ++ fst e)) (filter (fun e => overlaps (fst d) (fst e)) r) ++ order_marks r
  end.
Definition norm_style (v : bytes) : list decl :=
  let ds := parse_style v in stable_sort decl fst ds ++ stable_sort decl snd (order_marks ds).

Inductive nattr := NAttr (name : bytes) (value : bytes) | NStyle (decls : list decl).
Definition nattr_key (a : nattr) : bytes := match a with NAttr n _ => n | NStyle _ => lit "style" end.

Definition norm_attr (kv : bytes * bytes) : nattr :=
  let n := to_lower (fst kv) in
  if bytes_eqb n (lit "style") then NStyle (norm_style (snd kv)) else NAttr n (norm_text (snd kv)).

Inductive ntok :=
| NOpen (name : bytes) (attrs : list nattr) (selfclosed : bool)
| NClose (name : bytes)
| NText (s : bytes)
| NMsoOpen (cond : bytes) | NMsoEnd | NNotMsoOpen (cond : bytes) | NNotMsoEnd
| NCmt (s : bytes) | NDoctype (s : bytes).

Definition norm_tok (t : tok) : list ntok :=
  match t with
  | TOpen n a sc => [NOpen n (stable_sort nattr nattr_key (map norm_attr a)) (sc || is_void n)]
  | TClose n => [NClose n]
  | TText s => match norm_text s with [] => [] | s' => [NText s'] end
  | TMsoOpen c => [NMsoOpen (norm_text c)]
  | TMsoEnd => [NMsoEnd]
  | TNotMsoOpen c => [NNotMsoOpen (norm_text c)]
  | TNotMsoEnd => [NNotMsoEnd]
  | TCmt s => [NCmt (norm_text s)]
  | TDoctype s => [NDoctype (to_lower (norm_text s))]
  end.

(* CSS text (content of a style element): white space is insignificant *)
Definition strip_ws (s : bytes) : bytes := filter (fun c => negb (is_ws c)) s.

Fixpoint norm_go (in_style : bool) (ts : list tok) : list ntok :=
  match ts with
  | [] => []
  | TText s :: r => (if in_style then (match strip_ws s with [] => [] | s' => [NText s'] end) else norm_tok (TText s)) ++ norm_go in_style r
  | TOpen n a sc :: r => norm_tok (TOpen n a sc) ++ norm_go (bytes_eqb n (lit "style")) r
  | t :: r => norm_tok t ++ norm_go false r
  end.
Definition norm (ts : list tok) : list ntok := norm_go false ts.
Definition html_equiv (a b : list tok) : Prop := norm a = norm b.

(* ---- algebra ---- *)
(* fragments that do not end inside a style element and do not start with style text compose *)
Lemma norm_go_app_closed a : forall st b, (forall st', norm_go st' b = norm_go false b) ->
  norm_go st (a ++ b) = norm_go st a ++ norm_go false b.
Proof.
  induction a as [|t a IH]; intros st b Hb; cbn [app norm_go].
  - apply Hb.
  - destruct t; cbn [norm_go]; rewrite ?IH by exact Hb; rewrite ?app_assoc; reflexivity.
Qed.

(* a fragment whose first token is not text normalises the same whatever came before *)
Definition starts_closed (b : list tok) : Prop := match b with TText _ :: _ => False | _ => True end.
Lemma starts_closed_indep b : starts_closed b -> forall st', norm_go st' b = norm_go false b.
Proof. destruct b as [|t r]; intros H st'; [reflexivity|]. destruct t; try contradiction; reflexivity. Qed.

Theorem norm_app a b : starts_closed b -> norm (a ++ b) = norm a ++ norm b.
Proof. intros H. unfold norm. apply norm_go_app_closed. now apply starts_closed_indep. Qed.

Theorem html_equiv_refl a : html_equiv a a. Proof. reflexivity. Qed.
Theorem html_equiv_sym a b : html_equiv a b -> html_equiv b a. Proof. unfold html_equiv; auto. Qed.
Theorem html_equiv_trans a b c : html_equiv a b -> html_equiv b c -> html_equiv a c.
Proof. unfold html_equiv; congruence. Qed.

(* the comparator is a congruence for putting fragments next to each other (block fragments start
   with a tag or a conditional comment, never with text) *)
Theorem html_equiv_app a a' b b' : starts_closed b -> starts_closed b' ->
  html_equiv a a' -> html_equiv b b' -> html_equiv (a ++ b) (a' ++ b').
Proof. unfold html_equiv. intros Hb Hb' H1 H2. now rewrite !norm_app, H1, H2 by assumption. Qed.

(* whitespace-only text between tags is insignificant *)
Lemma decode_refs_ws s : all_space s = true -> decode_refs 0 s = s.
Proof.
  induction s as [|c r IH]; cbn [decode_refs all_space forallb]; [reflexivity|]. intros H.
  apply andb_true_iff in H. destruct H as [Hc Hr].
  assert (E : beq c x26 = false).
  { apply beq_neq. intros ->. vm_compute in Hc. discriminate. }
  rewrite E. f_equal. apply IH. exact Hr.
Qed.

Theorem ws_text_dropped s : all_space s = true -> norm_tok (TText s) = [].
Proof.
  intros H. cbn [norm_tok]. assert (E : norm_text s = []).
  { unfold norm_text. rewrite (decode_refs_ws s H).
    assert (G : forall p, collapse_ws p s = (if p then [] else match s with [] => [] | _ => [x20] end)).
    { clear -H. induction s as [|c r IH]; intros p; cbn [collapse_ws]; [destruct p; reflexivity|].
      cbn [all_space forallb] in H. apply andb_true_iff in H. destruct H as [Hc Hr]. rewrite Hc. rewrite (IH Hr true). destruct p; reflexivity. }
    rewrite G. destruct s; reflexivity. }
  now rewrite E.
Qed.

(* executable comparison *)
Fixpoint decls_eqb (a b : list decl) : bool :=
  match a, b with
  | [], [] => true
  | (p, v) :: a', (p', v') :: b' => bytes_eqb p p' && bytes_eqb v v' && decls_eqb a' b'
  | _, _ => false
  end.
Definition nattr_eqb (x y : nattr) : bool :=
  match x, y with
  | NAttr n v, NAttr n' v' => bytes_eqb n n' && bytes_eqb v v'
  | NStyle d, NStyle d' => decls_eqb d d'
  | _, _ => false
  end.
Fixpoint nattrs_eqb (a b : list nattr) : bool :=
  match a, b with [], [] => true | x :: a', y :: b' => nattr_eqb x y && nattrs_eqb a' b' | _, _ => false end.
Definition ntok_eqb (x y : ntok) : bool :=
  match x, y with
  | NOpen n a s, NOpen n' a' s' => bytes_eqb n n' && nattrs_eqb a a' && Bool.eqb s s'
  | NClose n, NClose n' => bytes_eqb n n'
  | NText s, NText s' => bytes_eqb s s'
  | NMsoOpen c, NMsoOpen c' => bytes_eqb c c'
  | NMsoEnd, NMsoEnd => true
  | NNotMsoOpen c, NNotMsoOpen c' => bytes_eqb c c'
  | NNotMsoEnd, NNotMsoEnd => true
  | NCmt s, NCmt s' => bytes_eqb s s'
  | NDoctype s, NDoctype s' => bytes_eqb s s'
  | _, _ => false
  end.
(* index of the first differing normal token, or None when equal *)
Fixpoint first_diff (i : nat) (a b : list ntok) : option nat :=
  match a, b with
  | [], [] => None
  | x :: a', y :: b' => if ntok_eqb x y then first_diff (S i) a' b' else Some i
  | _, _ => Some i
  end.
