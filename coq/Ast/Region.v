(* C16: a program none of whose write sites targets the parsed tree leaves the tree unchanged
   on every trace.  Region typing: in Go without unsafe/reflect an object can only be written
   through an lvalue of its own type, so a write site whose lvalue does not designate tree
   memory (as classified by gen/astwrites.go) writes an address outside the tree region. *)
From Coq Require Import List Arith Bool.
Import ListNotations.

Inductive region := RTree | ROther.
Definition region_eqb (a b : region) := match a, b with RTree, RTree | ROther, ROther => true | _, _ => false end.

Section Region.
  Variable addr val : Type.
  Variable addr_eqb : addr -> addr -> bool.
  Hypothesis addr_eqb_eq : forall a b, addr_eqb a b = true <-> a = b.
  Variable reg : addr -> region.            (* every address lies in exactly one region *)

  Definition store := addr -> val.
  Definition upd (s : store) (a : addr) (v : val) : store := fun b => if addr_eqb a b then v else s b.

  (* an executed write: the static site it comes from (by its target region) and what it did *)
  Record event := { ev_site_region : region ; ev_addr : addr ; ev_val : val }.
  Definition well_typed (e : event) : Prop := reg (ev_addr e) = ev_site_region e.

  Definition exec (t : list event) (s : store) : store := fold_left (fun s e => upd s (ev_addr e) (ev_val e)) t s.

  Theorem tree_preserved : forall t s,
    Forall well_typed t -> Forall (fun e => ev_site_region e = ROther) t ->
    forall a, reg a = RTree -> exec t s a = s a.
  Proof.
    induction t as [|e t IH]; intros s Hwt Hno a Ha; cbn; [reflexivity|].
    inversion Hwt as [|? ? Hw Hwt']; inversion Hno as [|? ? Hn Hno']; subst.
    unfold exec in IH. rewrite (IH _ Hwt' Hno' a Ha). unfold upd.
    destruct (addr_eqb (ev_addr e) a) eqn:E; [|reflexivity].
    apply addr_eqb_eq in E. unfold well_typed in Hw. rewrite E in Hw. congruence.
  Qed.

  (* and a single tree-targeting write can change the tree: the premise is not idle *)
  Theorem tree_write_changes : forall s a v, reg a = RTree -> s a <> v ->
    exec [{| ev_site_region := RTree ; ev_addr := a ; ev_val := v |}] s a <> s a.
  Proof.
    intros s a v _ Hne. cbn. unfold upd. assert (E : addr_eqb a a = true) by (apply addr_eqb_eq; reflexivity).
    rewrite E. congruence.
  Qed.
End Region.
