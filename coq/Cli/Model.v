(* Decision model of the compile command: cmd/gomjml/command/compile.go, Run closure.
   File system and library are parameters (oracle inputs): [rd] is the result of
   os.ReadFile, [lib] is mjml.Render on the given options and bytes, [wr] says whether
   os.WriteFile succeeds. *)
From Coq Require Import List ZArith Bool Lia.
From GV Require Import Cache.Model Cache.Proofs.
Import ListNotations.
Open Scope Z_scope.

Section Cli.
  Variable bytes : Type.
  Variable empty : bytes.

  Record flags := { f_out : bool       (* -o <path> given (non-empty) *) ;
                    f_s : bool         (* -s / --stdout: declared but never read by the code *) ;
                    f_debug : bool ; f_cache : bool ;
                    f_ttl : Z          (* --cache-ttl, nanoseconds, default 0 *) ;
                    f_interval : Z     (* --cache-cleanup-interval, default 0 *) }.
  Record libopts := { o_debug : bool ; o_cache : bool }.
  Inductive setter := CallSetTTL (d : Z) | CallSetInterval (d : Z).

  Record actions := { exit : Z ; stdout : bytes ; stderr : bool (* something written to stderr *) ;
                      file : option bytes (* bytes written to the -o path, None = path untouched *) ;
                      setters : list setter ; called : option libopts }.

  Variable lib : libopts -> bytes -> bytes * bool.   (* (html, err <> nil) *)

  Definition setters_of (f : flags) : list setter :=
    (if 0 <? f_ttl f then [CallSetTTL (f_ttl f)] else []) ++
    (if 0 <? f_interval f then [CallSetInterval (f_interval f)] else []).

  Definition opts_of (f : flags) : libopts := {| o_debug := f_debug f ; o_cache := f_cache f |}.

  Definition cli (rd : option bytes) (f : flags) (wr : bool) : actions :=
    match rd with
    | None => {| exit := 1 ; stdout := empty ; stderr := true ; file := None ; setters := [] ; called := None |}
    | Some content =>
        let r := lib (opts_of f) content in
        if snd r then
          {| exit := 1 ; stdout := empty ; stderr := true ; file := None ;
             setters := setters_of f ; called := Some (opts_of f) |}
        else if f_out f then
          if wr then {| exit := 0 ; stdout := empty ; stderr := false ; file := Some (fst r) ;
                        setters := setters_of f ; called := Some (opts_of f) |}
          else {| exit := 1 ; stdout := empty ; stderr := true ; file := None ;
                  setters := setters_of f ; called := Some (opts_of f) |}
        else {| exit := 0 ; stdout := fst r ; stderr := false ; file := None ;
                setters := setters_of f ; called := Some (opts_of f) |}
    end.

  (* --- theorems ------------------------------------------------------------------- *)

  (* exit 0 exactly when reading, compiling and (if asked) writing all succeeded *)
  Theorem exit_zero_iff rd f wr :
    exit (cli rd f wr) = 0 <->
    exists content, rd = Some content /\ snd (lib (opts_of f) content) = false /\ (f_out f = true -> wr = true).
  Proof.
    unfold cli. destruct rd as [content|]; cbn.
    - destruct (snd (lib (opts_of f) content)) eqn:E; cbn.
      + split; [discriminate|]. intros (c & H & H1 & _). inversion H; subst. congruence.
      + destruct (f_out f); [destruct wr|]; cbn; split; intros H; try discriminate; eauto.
        * destruct H as (c & _ & _ & H). specialize (H eq_refl). discriminate.
        * exists content. repeat split; auto. discriminate.
    - split; [discriminate|]. intros (c & H & _). discriminate.
  Qed.

  (* on success exactly the library's bytes go to the output file when one is given and
     otherwise to standard output, and nowhere else *)
  Theorem exact_bytes rd f wr : exit (cli rd f wr) = 0 ->
    exists content, rd = Some content /\
      let html := fst (lib (opts_of f) content) in
      stderr (cli rd f wr) = false /\
      (if f_out f then file (cli rd f wr) = Some html /\ stdout (cli rd f wr) = empty
       else stdout (cli rd f wr) = html /\ file (cli rd f wr) = None).
  Proof.
    unfold cli. destruct rd as [content|]; cbn; [|discriminate].
    destruct (snd (lib (opts_of f) content)); cbn; [discriminate|].
    destruct (f_out f) eqn:Eo; [destruct wr|]; cbn; try discriminate; intros _;
      exists content; rewrite ?Eo; auto.
  Qed.

  (* any error (unreadable input, parse error, validation error, failed write): non-zero exit,
     a message on stderr, nothing on stdout, output path neither created nor overwritten *)
  Theorem error_no_output rd f wr :
    (rd = None \/ (exists c, rd = Some c /\ snd (lib (opts_of f) c) = true) \/ (f_out f = true /\ wr = false)) ->
    exit (cli rd f wr) <> 0 /\ stderr (cli rd f wr) = true /\
    stdout (cli rd f wr) = empty /\ file (cli rd f wr) = None.
  Proof.
    unfold cli. intros [->|[(c & -> & E)|[Eo ->]]]; cbn.
    - repeat split; auto; discriminate.
    - rewrite E. cbn. repeat split; auto; discriminate.
    - destruct rd as [c|]; cbn; [|repeat split; auto; discriminate].
      destruct (snd (lib (opts_of f) c)); cbn; [repeat split; auto; discriminate|].
      rewrite Eo. cbn. repeat split; auto; discriminate.
  Qed.

  (* flags correspond to library options; durations are forwarded iff positive, TTL first *)
  Theorem flags_map c f wr :
    called (cli (Some c) f wr) = Some {| o_debug := f_debug f ; o_cache := f_cache f |} /\
    setters (cli (Some c) f wr) =
      (if 0 <? f_ttl f then [CallSetTTL (f_ttl f)] else []) ++
      (if 0 <? f_interval f then [CallSetInterval (f_interval f)] else []).
  Proof.
    unfold cli. destruct (snd (lib (opts_of f) c)); [cbn; auto|].
    destruct (f_out f); [destruct wr|]; cbn; auto.
  Qed.

  (* the -s flag has no influence on anything *)
  Theorem stdout_flag_inert rd f wr b :
    cli rd f wr = cli rd {| f_out := f_out f ; f_s := b ; f_debug := f_debug f ; f_cache := f_cache f ;
                            f_ttl := f_ttl f ; f_interval := f_interval f |} wr.
  Proof. reflexivity. Qed.
End Cli.

(* composition with the cache model: whatever durations the flags carry, the configuration
   they produce is safe and is the one asked for *)
Section CliCache.
  Variables (doc ast err : Type) (hash : doc -> Z) (parse : doc -> ast + err).

  Definition op_of (s : setter) : op doc :=
    match s with CallSetTTL d => SetTTL d | CallSetInterval d => SetInterval d end.

  Definition config_ops (f : flags) : list (op doc) := map op_of (setters_of f).

  Theorem any_duration_safe t0 f d h c :
    cl ast (exec doc ast err hash parse (init ast t0) (config_ops f ++ Render d true :: h)) = Some c ->
    0 < every c.
  Proof. apply safe_config. Qed.

  Theorem flags_configure t0 f :
    let s := exec doc ast err hash parse (init ast t0) (config_ops f) in
    ttl ast s = (if 0 <? f_ttl f then f_ttl f else default_ttl) /\
    interval ast s = (if 0 <? f_interval f then f_interval f
                      else if 0 <? f_ttl f then Z.quot (f_ttl f) 2 else Z.quot default_ttl 2).
  Proof.
    unfold config_ops, setters_of.
    destruct (0 <? f_ttl f); destruct (0 <? f_interval f); cbn; auto.
  Qed.
End CliCache.
