(* Executable comparison of observed CLI runs with the decision model (correspondence H). *)
From Coq Require Import List ZArith Bool.
From GV Require Import Cache.Model Cli.Model.
Import ListNotations.
Open Scope Z_scope.

(* bytes are abstracted to tokens: 0 = nothing, 1 = exactly the library's HTML, 2 = anything else *)
Record obs := { ob_id : Z ; ob_rd_ok : bool ; ob_lib_err : bool ; ob_wr_ok : bool ;
                ob_flags : flags ;
                ob_exit : Z ; ob_stdout : Z ; ob_stderr : bool ;
                ob_file : Z  (* 0 = path untouched (absent or old content), 1 = library HTML, 2 = other *) ;
                ob_cfg : option (Z * Z * Z * bool)  (* in-process run returned: ttl, interval, cache len (-1 = not compared: TTL too short to observe reliably), cleaner running *) ;
                ob_inproc : bool  (* the in-process run was made *) ;
                ob_parsable : bool }.

Definition predicted (o : obs) : actions Z :=
  cli Z 0 (fun _ _ => (1, ob_lib_err o)) (if ob_rd_ok o then Some 1 else None) (ob_flags o) (ob_wr_ok o).

Definition cfg_pred (o : obs) : Z * Z * Z * bool :=
  let f := ob_flags o in
  let ops := config_ops Z f ++ (if f_cache f then [Render 1 true] else []) in
  let parse := fun d : Z => if ob_parsable o then inl d else inr tt : Z + unit in
  let s := exec Z Z unit (fun d => d) parse (init Z 0) ops in
  (ttl Z s, interval Z s, Z.of_nat (length (cache Z s)), running Z s).

Definition cfg_eqb (a b : Z * Z * Z * bool) : bool :=
  match a, b with (t1, i1, n1, r1), (t2, i2, n2, r2) => (t1 =? t2) && (i1 =? i2) && ((n1 =? -1) || (n1 =? n2)) && Bool.eqb r1 r2 end.

Definition case_ok (o : obs) : bool :=
  let p := predicted o in
  (exit Z p =? ob_exit o) && (stdout Z p =? ob_stdout o) && Bool.eqb (stderr Z p) (ob_stderr o) &&
  (match file Z p with None => ob_file o =? 0 | Some b => ob_file o =? b end) &&
  (if ob_inproc o then
     match ob_cfg o with
     | Some c => (exit Z p =? 0) && cfg_eqb c (cfg_pred o)
     | None => negb (exit Z p =? 0)
     end
   else true).

Definition mismatches (l : list obs) : list Z := map ob_id (filter (fun o => negb (case_ok o)) l).
