(* C02 / C03 (and the composition law of C01): well-formedness of both readings is closed under
   everything the renderer does with fragments - concatenation of blocks, merging adjacent Outlook
   conditionals at block seams (any subset of them), and insertion of child fragments at points
   where no conditional comment is open.  Unbounded in the number of blocks, the number of merged
   seams and the nesting depth. *)
From Coq Require Import List Bool Arith Lia.
From Coq.Strings Require Import Byte String.
From GV Require Import Base.Bytes Base.Tok.
Import ListNotations.
Local Notation length := List.length.

(* ---- strict nesting ---- *)
Definition wb (es : list ev) : Prop := forall st, run st es = Some st.

Lemma run_app st a b : run st (a ++ b) = match run st a with Some st' => run st' b | None => None end.
Proof.
  revert st. induction a as [|e a IH]; intros st; cbn; [reflexivity|].
  destruct e as [n|n|s]; cbn; auto. destruct st as [|m st']; [reflexivity|]. destruct (bytes_eqb m n); auto.
Qed.

Lemma run_frame es : forall st st' base, run st es = Some st' -> run (st ++ base) es = Some (st' ++ base).
Proof.
  induction es as [|e es IH]; intros st st' base H; cbn in *.
  - inversion H; reflexivity.
  - destruct e as [n|n|s].
    + apply (IH (n :: st)). exact H.
    + destruct st as [|m st0]; [discriminate|]. cbn. destruct (bytes_eqb m n); [apply IH; exact H|discriminate].
    + apply IH. exact H.
Qed.

Lemma balanced_wb es : balanced es = true -> wb es.
Proof.
  unfold balanced. destruct (run [] es) as [[|x l]|] eqn:E; try discriminate. intros _ st.
  apply (run_frame es [] [] st E).
Qed.
Lemma wb_balanced es : wb es -> balanced es = true.
Proof. intros H. unfold balanced. now rewrite (H []). Qed.

Lemma wb_nil : wb []. Proof. intros st; reflexivity. Qed.
Lemma wb_app a b : wb a -> wb b -> wb (a ++ b).
Proof. intros Ha Hb st. rewrite run_app, Ha. apply Hb. Qed.
Lemma wb_wrap n es : wb es -> wb (EOpen n :: es ++ [EClose n]).
Proof. intros H st. cbn. rewrite run_app, H. cbn. assert (E : bytes_eqb n n = true) by (now apply bytes_eqb_eq). now rewrite E. Qed.
Lemma wb_insert a h b : wb h -> forall st, run st (a ++ h ++ b) = run st (a ++ b).
Proof. intros Hh st. rewrite run_app, (run_app st a b). destruct (run st a) as [st'|]; [|reflexivity]. rewrite run_app, Hh. reflexivity. Qed.

(* ---- views ---- *)
Lemma view_app v : forall a st b, view v st (a ++ b) =
  match view v st a with
  | Some (ea, st') => match view v st' b with Some (eb, st'') => Some (ea ++ eb, st'') | None => None end
  | None => None
  end.
Proof.
  induction a as [|t a IH]; intros st b; cbn [app view].
  - destruct (view v st b) as [[eb st'']|]; reflexivity.
  - destruct (vstep v st t) as [[e st1]|]; [|reflexivity]. rewrite IH.
    destruct (view v st1 a) as [[ea st']|]; [|reflexivity].
    destruct (view v st' b) as [[eb st'']|]; [|reflexivity]. now rewrite app_assoc.
Qed.

(* a fragment that is well-formed on its own in reading v *)
Definition ok_frag (v : view_kind) (ts : list tok) : Prop :=
  exists es, view v Closed ts = Some (es, Closed) /\ wb es.

Lemma check_view_ok v ts : check_view v ts = true -> ok_frag v ts.
Proof.
  unfold check_view, ok_frag. destruct (view v Closed ts) as [[es st]|] eqn:E; [|discriminate]. destruct st; try discriminate.
  intros H. apply andb_true_iff in H. destruct H as [H _]. exists es. split; [reflexivity|now apply balanced_wb].
Qed.

Lemma ok_frag_nil v : ok_frag v [].
Proof. exists []. split; [reflexivity|apply wb_nil]. Qed.

(* any number of well-formed blocks next to each other *)
Theorem ok_frag_app v a b : ok_frag v a -> ok_frag v b -> ok_frag v (a ++ b).
Proof.
  intros (ea & Ha & Wa) (eb & Hb & Wb). exists (ea ++ eb). split; [|now apply wb_app].
  rewrite view_app, Ha, Hb. reflexivity.
Qed.
Theorem ok_frag_concat v bs : Forall (ok_frag v) bs -> ok_frag v (List.concat bs).
Proof. induction 1; cbn; [apply ok_frag_nil|now apply ok_frag_app]. Qed.

(* merging adjacent Outlook conditionals: "<![endif]--><!--[if mso | IE]>" removed at a seam *)
Inductive merges : list tok -> list tok -> Prop :=
| merges_refl ts : merges ts ts
| merges_step a c b ts' : merges (a ++ b) ts' -> merges (a ++ TMsoEnd :: TMsoOpen c :: b) ts'.

Lemma seam_removed v a c b : forall st r, view v st (a ++ TMsoEnd :: TMsoOpen c :: b) = Some r -> view v st (a ++ b) = Some r.
Proof.
  intros st r. rewrite !view_app. destruct (view v st a) as [[ea st']|]; [|discriminate].
  cbn [view]. destruct st'; cbn [vstep]; try discriminate.
  (* the seam is only legal inside an Outlook block: end it, reopen it, no events *)
  destruct (view v InMso b) as [[eb st'']|]; cbn; auto.
Qed.

Theorem merges_preserve_view v ts ts' : merges ts ts' -> forall st r, view v st ts = Some r -> view v st ts' = Some r.
Proof. induction 1 as [ts|a c b ts0 Hm IH]; intros st r Hv; [exact Hv|]. apply IH. eapply seam_removed; eauto. Qed.

(* the body of a document: blocks that are well-formed on their own, concatenated, with any
   subset of their seams merged, are well-formed in both readings - for every number of blocks *)
Theorem body_ok v bs ts : Forall (ok_frag v) bs -> merges (List.concat bs) ts -> ok_frag v ts.
Proof.
  intros Hb Hm. destruct (ok_frag_concat v bs Hb) as (es & Hv & Hw). exists es. split; [|exact Hw].
  eapply merges_preserve_view; eauto.
Qed.

(* Neither reading looks at attributes, so the seam-merge premise is only needed modulo the attributes of
   start tags: a block may write its Outlook table with other attributes (or in another attribute order)
   depending on its neighbours without affecting well-formedness. *)
Definition strip_attrs (t : tok) : tok := match t with TOpen n _ s => TOpen n [] s | _ => t end.
Lemma vstep_strip v st t : vstep v st (strip_attrs t) = vstep v st t.
Proof. destruct t; reflexivity. Qed.
Lemma view_strip v : forall ts st, view v st (map strip_attrs ts) = view v st ts.
Proof.
  induction ts as [|t r IH]; intros st; cbn [map view]; [reflexivity|].
  rewrite vstep_strip. destruct (vstep v st t) as [[e st']|]; [|reflexivity]. rewrite IH. reflexivity.
Qed.
Lemma ok_frag_strip v ts : ok_frag v (map strip_attrs ts) <-> ok_frag v ts.
Proof. unfold ok_frag. split; intros (es & Hv & Hw); exists es; (split; [|exact Hw]); [rewrite <- view_strip|rewrite view_strip]; exact Hv. Qed.
Lemma strip_concat bs : map strip_attrs (List.concat bs) = List.concat (map (map strip_attrs) bs).
Proof. induction bs as [|b r IH]; cbn; [reflexivity|]. rewrite map_app, IH. reflexivity. Qed.

Theorem body_ok_modulo_attrs v bs ts : Forall (ok_frag v) bs ->
  merges (map strip_attrs (List.concat bs)) (map strip_attrs ts) -> ok_frag v ts.
Proof.
  intros Hb Hm. apply ok_frag_strip. rewrite strip_concat in Hm.
  apply (body_ok v (map (map strip_attrs) bs)); [|exact Hm].
  apply Forall_forall. intros b Hin. apply in_map_iff in Hin. destruct Hin as (b0 & <- & Hin0).
  apply ok_frag_strip. rewrite Forall_forall in Hb. auto.
Qed.
Theorem merges_preserve_view_modulo_attrs v ts ts' : merges (map strip_attrs ts) (map strip_attrs ts') ->
  forall st r, view v st ts = Some r -> view v st ts' = Some r.
Proof.
  intros Hm st r Hv. rewrite <- view_strip. eapply merges_preserve_view; [exact Hm|]. rewrite view_strip. exact Hv.
Qed.

(* a container: a frame a ++ b that is well-formed when its hole is empty, comment state Closed at
   the hole; filling the hole with a well-formed child fragment keeps it well-formed.  Applied
   repeatedly this covers every number of children and every nesting depth. *)
Theorem fill_hole v a h b : ok_frag v (a ++ b) -> (exists ea, view v Closed a = Some (ea, Closed)) -> ok_frag v h ->
  ok_frag v (a ++ h ++ b).
Proof.
  intros (es & Hab & Wab) (ea & Ha) (eh & Hh & Wh).
  rewrite view_app, Ha in Hab. destruct (view v Closed b) as [[eb stb]|] eqn:Hb; [|discriminate].
  inversion Hab; subst; clear Hab.
  exists (ea ++ eh ++ eb). split.
  - rewrite view_app, Ha, view_app, Hh, Hb. reflexivity.
  - intros st. rewrite wb_insert by exact Wh. apply Wab.
Qed.

(* wrapping a fragment in an element, or in an Outlook-only / not-Outlook block *)
Lemma tok_events_open n at_ : is_void n = false -> tok_events (TOpen n at_ false) = [EOpen n].
Proof. intros H. cbn [tok_events orb]. now rewrite H. Qed.

Theorem wrap_element v n at_ ts : is_void n = false -> ok_frag v ts -> ok_frag v (TOpen n at_ false :: ts ++ [TClose n]).
Proof.
  intros Hn (es & Hv & Hw). exists (EOpen n :: es ++ [EClose n]). split; [|now apply wb_wrap].
  change (TOpen n at_ false :: ts ++ [TClose n]) with ([TOpen n at_ false] ++ ts ++ [TClose n]).
  assert (E1 : view v Closed [TOpen n at_ false] = Some ([EOpen n], Closed)) by (cbn [view vstep tok_events orb]; rewrite Hn; reflexivity).
  assert (E2 : view v Closed [TClose n] = Some ([EClose n], Closed)) by (cbn [view vstep tok_events]; rewrite Hn; reflexivity).
  rewrite view_app, E1, view_app, Hv, E2. reflexivity.
Qed.

(* an Outlook-only block contributes nothing to the standard reading *)
Theorem mso_block_invisible_std c inner : (forall t, In t inner -> match t with TMsoOpen _ | TMsoEnd | TNotMsoOpen _ | TNotMsoEnd | TCmt _ => False | _ => True end) ->
  view Std Closed (TMsoOpen c :: inner ++ [TMsoEnd]) = Some ([], Closed).
Proof.
  intros H. cbn [view vstep].
  assert (G : forall l, (forall t, In t l -> match t with TMsoOpen _ | TMsoEnd | TNotMsoOpen _ | TNotMsoEnd | TCmt _ => False | _ => True end) ->
                        view Std InMso (l ++ [TMsoEnd]) = Some ([], Closed)).
  { induction l as [|t l IH]; intros Hl; cbn [app view vstep]; [reflexivity|].
    assert (Ht := Hl t (or_introl eq_refl)). destruct t; try contradiction; cbn; rewrite IH; auto; intros t' Ht'; apply Hl; now right. }
  rewrite (G inner H). reflexivity.
Qed.

(* ---- executable check that an observed token stream is a seam-merge of given fragments ---- *)
Fixpoint attrs_eqb (a b : list (bytes * bytes)) : bool :=
  match a, b with
  | [], [] => true
  | (k, v) :: a', (k', v') :: b' => bytes_eqb k k' && bytes_eqb v v' && attrs_eqb a' b'
  | _, _ => false
  end.
Lemma attrs_eqb_eq a : forall b, attrs_eqb a b = true -> a = b.
Proof.
  induction a as [|[k v] a IH]; destruct b as [|[k' v'] b]; cbn; try discriminate; auto.
  intros H. apply andb_true_iff in H. destruct H as [H H3]. apply andb_true_iff in H. destruct H as [H1 H2].
  apply bytes_eqb_eq in H1. apply bytes_eqb_eq in H2. subst. f_equal. auto.
Qed.

Definition tok_eqb (x y : tok) : bool :=
  match x, y with
  | TOpen n a s, TOpen n' a' s' => bytes_eqb n n' && attrs_eqb a a' && Bool.eqb s s'
  | TClose n, TClose n' => bytes_eqb n n'
  | TText s, TText s' => bytes_eqb s s'
  | TMsoOpen c, TMsoOpen c' => bytes_eqb c c'
  | TMsoEnd, TMsoEnd => true
  | TNotMsoOpen c, TNotMsoOpen c' => bytes_eqb c c'
  | TNotMsoEnd, TNotMsoEnd => true
  | TCmt s, TCmt s' => bytes_eqb s s'
  | TDoctype s, TDoctype s' => bytes_eqb s s'
  | _, _ => false
  end.
Lemma tok_eqb_eq x y : tok_eqb x y = true -> x = y.
Proof.
  destruct x, y; cbn; try discriminate; intros H;
    repeat match goal with
    | H : _ && _ = true |- _ => apply andb_true_iff in H; destruct H
    | H : bytes_eqb _ _ = true |- _ => apply bytes_eqb_eq in H; subst
    | H : attrs_eqb _ _ = true |- _ => apply attrs_eqb_eq in H; subst
    | H : Bool.eqb _ _ = true |- _ => apply Bool.eqb_prop in H; subst
    end; reflexivity.
Qed.

(* xs: the fragments concatenated; ys: what was observed. Greedy: tokens must agree, except that a
   seam "<![endif]--><!--[if ...]>" of xs may be absent from ys. *)
Fixpoint merge_check (fuel : nat) (xs ys : list tok) : bool :=
  match fuel with
  | 0 => false
  | S f =>
      match xs, ys with
      | [], [] => true
      | TMsoEnd :: TMsoOpen c :: xs', y :: ys' =>
          if tok_eqb TMsoEnd y then merge_check f (TMsoOpen c :: xs') ys' else merge_check f xs' ys
      | TMsoEnd :: TMsoOpen c :: xs', [] => merge_check f xs' []
      | x :: xs', y :: ys' => tok_eqb x y && merge_check f xs' ys'
      | _, _ => false
      end
  end.

Lemma merges_cons t a b : merges a b -> merges (t :: a) (t :: b).
Proof.
  induction 1 as [ts|a c b ts' Hm IH]; [constructor|].
  change (t :: a ++ TMsoEnd :: TMsoOpen c :: b) with ((t :: a) ++ TMsoEnd :: TMsoOpen c :: b). constructor. exact IH.
Qed.

Theorem merge_check_sound fuel : forall xs ys, merge_check fuel xs ys = true -> merges xs ys.
Proof.
  induction fuel as [|f IH]; intros xs ys H; [discriminate|]. cbn [merge_check] in H.
  destruct xs as [|x xs'].
  - destruct ys; [constructor|discriminate].
  - destruct x; try (destruct ys as [|y ys']; [discriminate|]; apply andb_true_iff in H; destruct H as [E H];
                     apply tok_eqb_eq in E; subst; apply merges_cons; apply IH; exact H).
    (* x = TMsoEnd *)
    destruct xs' as [|x2 xs''].
    + destruct ys as [|y ys']; [discriminate|]. apply andb_true_iff in H. destruct H as [E H].
      apply tok_eqb_eq in E; subst. apply merges_cons. apply IH. exact H.
    + destruct x2; try (destruct ys as [|y ys']; [discriminate|]; apply andb_true_iff in H; destruct H as [E H];
                        apply tok_eqb_eq in E; subst; apply merges_cons; apply IH; exact H).
      (* TMsoEnd :: TMsoOpen c :: xs'' *)
      destruct ys as [|y ys'].
      * apply (merges_step [] cond xs''). cbn. apply IH. exact H.
      * destruct (tok_eqb TMsoEnd y) eqn:E.
        -- apply tok_eqb_eq in E; subst. apply merges_cons. apply IH. exact H.
        -- apply (merges_step [] cond xs''). cbn. apply IH. exact H.
Qed.
