(* Skeleton emission model for the core of the component grammar:

       body   ::= block*
       block  ::= section | full-width section | wrapper of section* | hero of leaf* ;   sections with or without background-url; wrappers not full-width
       section::= column* | group+ ;   a section holds columns only or groups only
       group  ::= column*
       column ::= leaf* ;   with or without padding (gutter table)
       leaf   ::= text | divider | spacer | image | image-with-link | button | button-with-link | raw | table
                | social (horizontal / vertical) of elements | navbar (plain / hamburger) of links
                | accordion of elements (title?, text?) | carousel of n >= 1 images (thumbnails shown / hidden)
       mj-raw ::= balanced author HTML; also allowed between the blocks of the body, between the sections of a
                  wrapper and among the columns of a section or group

   [emit_body] is a hand port of the tag / conditional-comment structure written by
   mjml/components/{body,section,column,text,divider,spacer,image,button}.go (attributes and text
   erased).  It is tied to the code by comparing it token for token with the erased lexing of real
   outputs (checks/c02.py), and it is PROVED well-formed in both readings for every document of the
   grammar - any number of sections, columns and leaves: no premise about observed outputs. *)
From Coq Require Import List Bool Arith Lia.
From Coq.Strings Require Import Byte String.
From GV Require Import Base.Bytes Base.Tok Skel.Compose.
Import ListNotations.
Open Scope string_scope.
Open Scope list_scope.
Local Notation length := List.length.

(* leaves that carry author content carry it as a parameter; divider and spacer write generated text *)
Inductive leaf := KText (s : bytes) | KDivider | KSpacer | KImage | KImageLink | KButton (s : bytes) | KButtonLink (s : bytes)
                | KRaw (ts : list tok)                  (* mj-raw: the author's own markup *)
                | KTable (ts : list tok)                (* mj-table: author's rows inside the component's table *)
                | KSocial (vertical : bool) (els : list (bool * option bytes)) (* elements: has href?, label *)
                | KNavbar (hamburger : bool) (links : list bytes)
                | KAccordion (els : list (option bytes * option bytes))       (* title, text *)
                | KCarousel (thumbnails : bool) (more : nat).                 (* 1 + more images *)
Definition column := (bool * list leaf)%type.          (* true = the column has padding: its rows sit in a gutter table *)
Inductive item := CI (cl : column) | RI (ts : list tok).   (* what a section or group holds: columns and mj-raw *)
Inductive mitem := MC (cl : column) | MR (ts : list tok) | MG (g : list item).   (* a section holding columns AND groups *)
Inductive section := Cols (l : list item) | Groups (gs : list (list item)) | Mixed (l : list mitem).
Definition sect := (bool * section)%type.               (* true = background-url: the section is wrapped in a VML rectangle for Outlook *)
Inductive witem := WS (s : sect) | WR (ts : list tok).     (* what a wrapper holds: sections and mj-raw *)
Inductive block := Plain (s : sect) | FullWidth (s : sect) | Wrap (ws : list witem) | FullWrap (ws : list witem) | Hero (ks : list leaf) | Raw (ts : list tok).
Definition body := list block.

(* a segment of output: plain markup, the inside of one <!--[if mso | IE]> ... <![endif]--> (Outlook only),
   or the inside of one <!--[if !mso | IE]><!--> ... <!--<![endif]--> (everyone but Outlook) *)
Inductive seg := P (ts : list tok) | M (ts : list tok) | N (ts : list tok).

Definition o (n : string) : tok := TOpen (lit n) [] false.
Definition c (n : string) : tok := TClose (lit n).
Definition txt : tok := TText (lit "~").      (* generated text (non-breaking / hair space) and, after erasure, any text *)
Definition tx (s : bytes) : tok := TText s.
Definition cond : bytes := lit "mso | IE".

(* Author HTML is emitted verbatim.  The model covers documents whose mj-raw content is plain, balanced
   markup (the property's premise on author HTML); for anything else it emits nothing, and the
   correspondence with the implementation is claimed - and checked - only for such documents. *)
Definition plain (t : tok) : bool :=
  match t with TOpen _ _ _ | TClose _ | TText _ | TDoctype _ => true | _ => false end.
Definition raw_okb (ts : list tok) : bool := forallb plain ts && balanced (flat_map tok_events ts).
Definition raw_toks (ts : list tok) : list tok := if raw_okb ts then ts else [].
Definition raw_seg (ts : list tok) : seg := P (raw_toks ts).

(* pieces of the composite leaves *)
Definition icon : list tok := [o "table"; o "tbody"; o "tr"; o "td"; o "img"; c "td"; c "tr"; c "tbody"; c "table"].
Definition icon_a : list tok := [o "table"; o "tbody"; o "tr"; o "td"; o "a"; o "img"; c "a"; c "td"; c "tr"; c "tbody"; c "table"].
Definition label (e : option bytes) : list tok := match e with Some s => [o "td"; o "span"; tx s; c "span"; c "td"] | None => [] end.
Definition label_a (e : option bytes) : list tok := match e with Some s => [o "td"; o "a"; tx s; c "a"; c "td"] | None => [] end.
(* horizontal mode wraps icon and label of an element with href in a link; vertical mode writes no link at all *)
Definition sel_h (e : bool * option bytes) : seg :=
  P ([o "table"; o "tbody"; o "tr"; o "td"] ++ (if fst e then icon_a else icon) ++ [c "td"] ++ (if fst e then label_a (snd e) else label (snd e)) ++ [c "tr"; c "tbody"; c "table"]).
Definition sel_v (e : bool * option bytes) : seg := P ([o "tr"; o "td"] ++ icon ++ [c "td"] ++ label (snd e) ++ [c "tr"]).
Definition nav_link (s : bytes) : list seg := [M [o "td"]; P [o "a"; tx s; c "a"]; M [c "td"]].
Definition acc_el (e : option bytes * option bytes) : list seg :=
  P [o "tr"; o "td"; o "label"] :: N [o "input"] :: P [o "div"] ::
  (match fst e with Some s => [P [o "div"; o "table"; o "tbody"; o "tr"; o "td"; tx s; c "td"]; N [o "td"; o "img"; o "img"; c "td"]; P [c "tr"; c "tbody"; c "table"; c "div"]] | None => [] end) ++
  (match snd e with Some s => [P [o "div"; o "table"; o "tbody"; o "tr"; o "td"; tx s; c "td"; c "tr"; c "tbody"; c "table"; c "div"]] | None => [] end) ++
  [P [c "div"; c "label"; c "td"; c "tr"]].

Definition times {A} (n : nat) (l : list A) : list A := List.concat (repeat l n).
Definition carousel_toks (thumbs : bool) (n : nat) : list tok :=
  [o "div"] ++ times n [o "input"] ++ [o "div"] ++ (if thumbs then times n [o "a"; o "label"; o "img"; c "label"; c "a"] else []) ++
  [o "table"; o "tbody"; o "tr"; o "td"; o "div"] ++ times n [o "label"; o "img"; c "label"] ++ [c "div"; c "td"; o "td"; o "div"] ++
  times n [o "div"; o "img"; c "div"] ++ [c "div"; c "td"; o "td"; o "div"] ++ times n [o "label"; o "img"; c "label"] ++
  [c "div"; c "td"; c "tr"; c "tbody"; c "table"; c "div"; c "div"].

Definition leaf_segs (k : leaf) : list seg :=
  match k with
  | KText s => [P [o "div"; tx s; c "div"]]
  | KDivider => [P [o "p"; c "p"]; M [o "table"; o "tr"; o "td"; txt; c "td"; c "tr"; c "table"]]
  | KSpacer => [P [o "div"; txt; c "div"]]
  | KImage => [P [o "table"; o "tbody"; o "tr"; o "td"; o "img"; c "td"; c "tr"; c "tbody"; c "table"]]
  | KImageLink => [P [o "table"; o "tbody"; o "tr"; o "td"; o "a"; o "img"; c "a"; c "td"; c "tr"; c "tbody"; c "table"]]
  | KButton s => [P [o "table"; o "tbody"; o "tr"; o "td"; o "p"; tx s; c "p"; c "td"; c "tr"; c "tbody"; c "table"]]
  | KButtonLink s => [P [o "table"; o "tbody"; o "tr"; o "td"; o "a"; tx s; c "a"; c "td"; c "tr"; c "tbody"; c "table"]]
  | KRaw ts => [raw_seg ts]
  | KTable ts => [P [o "table"]; raw_seg ts; P [c "table"]]
  | KSocial false [] => [M [o "table"; o "tr"]; M [c "tr"; c "table"]]
  | KSocial false (e1 :: r) => M [o "table"; o "tr"; o "td"] :: sel_h e1 :: flat_map (fun e => [M [c "td"; o "td"]; sel_h e]) r ++ [M [c "td"; c "tr"; c "table"]]
  | KSocial true els => P [o "table"; o "tbody"] :: map sel_v els ++ [P [c "tbody"; c "table"]]
  | KNavbar ham links =>
      (if ham then [N [o "input"]; P [o "div"; o "label"; o "span"; txt; c "span"; o "span"; txt; c "span"; c "label"; c "div"]] else []) ++
      P [o "div"] :: M [o "table"; o "tr"] :: flat_map nav_link links ++ [M [c "tr"; c "table"]; P [c "div"]]
  | KAccordion els => P [o "table"; o "tbody"] :: flat_map acc_el els ++ [P [c "tbody"; c "table"]]
  | KCarousel thumbs m => [N (carousel_toks thumbs (S m)); M [o "div"; o "img"; c "div"]]
  end.

(* every component sits in its own row of the column's table; mj-raw is written as it is *)
Definition row_segs (k : leaf) : list seg :=
  match k with KRaw ts => [raw_seg ts] | _ => P [o "tr"; o "td"] :: leaf_segs k ++ [P [c "td"; c "tr"]] end.
Definition col_segs (cl : column) : list seg :=
  if fst cl
  then P [o "div"; o "table"; o "tbody"; o "tr"; o "td"; o "table"; o "tbody"] :: flat_map row_segs (snd cl) ++
       [P [c "tbody"; c "table"; c "td"; c "tr"; c "tbody"; c "table"; c "div"]]
  else P [o "div"; o "table"; o "tbody"] :: flat_map row_segs (snd cl) ++ [P [c "tbody"; c "table"; c "div"]].

(* the Outlook table row of a section: one cell per column, the cell hand-over inside one conditional;
   mj-raw before the first column precedes the table, afterwards it sits inside the current cell *)
Fixpoint items_segs (opened : bool) (l : list item) : list seg :=
  match l with
  | [] => if opened then [M [c "td"; c "tr"; c "table"]] else []
  | RI ts :: r => raw_seg ts :: items_segs opened r
  | CI cl :: r => (if opened then M [c "td"; o "td"] else M [o "table"; o "tr"; o "td"]) :: col_segs cl ++ items_segs true r
  end.
Definition is_col (i : item) : bool := match i with CI _ => true | RI _ => false end.
Definition has_col (l : list item) : bool := existsb is_col l.
Definition raws_only (l : list item) : list seg := flat_map (fun i => match i with RI ts => [raw_seg ts] | CI _ => [] end) l.
Definition cols_segs (l : list item) : list seg :=
  if has_col l then items_segs false l else M [o "table"; o "tr"] :: raws_only l ++ [M [c "tr"; c "table"]].
(* in a group, mj-raw behind the last column follows the closed Outlook table *)
Fixpoint split_trail (l : list item) : list item * list item :=      (* (up to the last column, trailing mj-raw) *)
  match l with
  | [] => ([], [])
  | i :: r => let (f, t) := split_trail r in
              match f, i with
              | [], RI _ => ([], i :: t)
              | _, _ => (i :: f, t)
              end
  end.
Definition group_inner (l : list item) : list seg :=
  if has_col l then items_segs false (fst (split_trail l)) ++ raws_only (snd (split_trail l)) else raws_only l.
Definition group_segs (l : list item) : list seg :=
  M [o "table"; o "tr"; o "td"] :: P [o "div"] :: group_inner l ++ [P [c "div"]; M [c "td"; c "tr"; c "table"]].
(* columns and groups side by side. The section opens ONE shared Outlook table row when it holds two or more columns or any mj-raw:
   the columns then share that row as before and every group brings its own table, which - when a column's cell is open - simply sits
   inside that cell; with no column at all the shared row is opened and closed around the children. Otherwise (at most one column, no
   mj-raw) nothing is shared: the single column's table is closed right behind it, before the groups that follow. *)
Fixpoint mitems_segs (opened : bool) (l : list mitem) : list seg :=
  match l with
  | [] => if opened then [M [c "td"; c "tr"; c "table"]] else []
  | MR ts :: r => raw_seg ts :: mitems_segs opened r
  | MC cl :: r => (if opened then M [c "td"; o "td"] else M [o "table"; o "tr"; o "td"]) :: col_segs cl ++ mitems_segs true r
  | MG g :: r => group_segs g ++ mitems_segs opened r
  end.
Definition is_mcol (i : mitem) : bool := match i with MC _ => true | _ => false end.
Definition is_mraw (i : mitem) : bool := match i with MR _ => true | _ => false end.
Definition mitem_alone (i : mitem) : list seg :=
  match i with
  | MC cl => M [o "table"; o "tr"; o "td"] :: col_segs cl ++ [M [c "td"; c "tr"; c "table"]]
  | MR ts => [raw_seg ts]
  | MG g => group_segs g
  end.
Definition mixed_segs (l : list mitem) : list seg :=
  match l with
  | [] => cols_segs []
  | _ => if Nat.ltb 1 (length (filter is_mcol l)) || existsb is_mraw l
         then if existsb is_mcol l then mitems_segs false l
              else M [o "table"; o "tr"] :: flat_map mitem_alone l ++ [M [c "tr"; c "table"]]
         else flat_map mitem_alone l
  end.
Definition children_segs (s : section) : list seg :=
  match s with
  | Cols l => cols_segs l
  | Groups [] => cols_segs []
  | Groups gs => flat_map group_segs gs
  | Mixed l => mixed_segs l
  end.
Definition sec_segs (s : section) : list seg :=
  P [o "div"; o "table"; o "tbody"; o "tr"; o "td"] :: children_segs s ++ [P [c "td"; c "tr"; c "tbody"; c "table"; c "div"]].

(* a section with a background image: VML rectangle + text box for Outlook, one more div for the others *)
Definition vml_open : seg := M [o "v:rect"; TOpen (lit "v:fill") [] true; o "v:textbox"].
Definition vml_close : seg := M [c "v:textbox"; c "v:rect"].
Definition sect_segs (s : sect) : list seg :=
  if fst s then vml_open :: P [o "div"] :: sec_segs (snd s) ++ [P [c "div"]; vml_close] else sec_segs (snd s).

(* inside a wrapper every section sits in its own row of the wrapper's Outlook table; mj-raw sits between two rows *)
Definition open5 : list tok := [o "tr"; o "td"; o "table"; o "tr"; o "td"].
Definition close5 : list tok := [c "td"; c "tr"; c "table"; c "td"; c "tr"].
Fixpoint witems_segs (used : bool) (l : list witem) : list seg :=
  match l with
  | [] => [M (close5 ++ [c "table"])]
  | WS s :: r => (if used then [M (close5 ++ open5)] else []) ++ sect_segs s ++ witems_segs true r
  | WR ts :: r => M close5 :: raw_seg ts :: M open5 :: witems_segs false r
  end.
Definition wrap_inner (l : list witem) : list seg :=
  match l with
  | [] => [M [o "table"; c "table"]]
  | _ => M (o "table" :: open5) :: witems_segs false l
  end.
Definition wrap_segs (ss : list witem) : list seg :=
  P [o "div"; o "table"; o "tbody"; o "tr"; o "td"] :: wrap_inner ss ++ [P [c "td"; c "tr"; c "tbody"; c "table"; c "div"]].

(* Body: a plain section leaves its Outlook wrapper table open for a following plain section or
   wrapper, which then closes and reopens it inside ONE conditional ([pend] = such a hand-over is pending). *)
Definition close3 : seg := M [c "td"; c "tr"; c "table"].
Definition open_seg (pend : bool) : seg :=
  if pend then M [c "td"; c "tr"; c "table"; o "table"; o "tr"; o "td"] else M [o "table"; o "tr"; o "td"].
Definition continues (b : block) : bool := match b with Plain _ | Wrap _ => true | FullWidth _ | FullWrap _ | Hero _ | Raw _ => false end.
(* full-width: the VML rectangle encloses the Outlook table, not the other way round *)
Definition fw_segs (s : sect) : list seg :=
  if fst s
  then P [o "table"; o "tbody"; o "tr"; o "td"] :: vml_open :: M [o "table"; o "tr"; o "td"] :: P [o "div"] :: sec_segs (snd s) ++
       [P [c "div"]; close3; vml_close; P [c "td"; c "tr"; c "tbody"; c "table"]]
  else P [o "table"; o "tbody"; o "tr"; o "td"] :: M [o "table"; o "tr"; o "td"] :: sec_segs (snd s) ++
       [close3; P [c "td"; c "tr"; c "tbody"; c "table"]].
Definition fwrap_segs (ws : list witem) : list seg :=
  P [o "table"; o "tbody"; o "tr"; o "td"] :: M [o "table"; o "tr"; o "td"] :: wrap_segs ws ++ [close3; P [c "td"; c "tr"; c "tbody"; c "table"]].
Definition hero_segs (ks : list leaf) : list seg :=
  M [o "table"; o "tr"; o "td"; TOpen (lit "v:image") [] true] :: P [o "div"; o "table"; o "tbody"; o "tr"; o "td"] ::
  M [o "table"; o "tr"; o "td"] :: P [o "div"; o "table"; o "tbody"; o "tr"; o "td"; o "table"; o "tbody"] :: flat_map row_segs ks ++
  [P [c "tbody"; c "table"; c "td"; c "tr"; c "tbody"; c "table"; c "div"]; close3; P [c "td"; c "tr"; c "tbody"; c "table"; c "div"]; close3].
Fixpoint blocks_segs (pend : bool) (bs : list block) : list seg :=
  match bs with
  | [] => if pend then [close3] else []
  | Plain s :: r =>
      open_seg pend :: sect_segs s ++
      (match r with
       | b' :: _ => if continues b' && negb (fst s) then blocks_segs true r else close3 :: blocks_segs false r
       | [] => [close3]
       end)
  | Wrap ss :: r => open_seg pend :: wrap_segs ss ++ close3 :: blocks_segs false r
  | FullWidth s :: r => (if pend then [close3] else []) ++ fw_segs s ++ blocks_segs false r
  | FullWrap ws :: r => (if pend then [close3] else []) ++ fwrap_segs ws ++ blocks_segs false r
  | Hero ks :: r => (if pend then [close3] else []) ++ hero_segs ks ++ blocks_segs false r
  | Raw ts :: r => (if pend then [close3] else []) ++ raw_seg ts :: blocks_segs false r
  end.
Definition body_segs (b : body) : list seg := P [o "div"] :: blocks_segs false b ++ [P [c "div"]].

Definition ncond : bytes := lit "!mso | IE".
Definition seg_toks (s : seg) : list tok :=
  match s with
  | P ts => ts
  | M ts => TMsoOpen cond :: ts ++ [TMsoEnd]
  | N ts => TNotMsoOpen ncond :: ts ++ [TNotMsoEnd]
  end.
Definition flat (l : list seg) : list tok := flat_map seg_toks l.
Definition emit_body (b : body) : list tok := flat (body_segs b).

(* ---- from tokens to events -------------------------------------------------------------- *)
Definition seg_plain (s : seg) : bool := match s with P ts | M ts | N ts => forallb plain ts end.
Definition seg_events (v : view_kind) (s : seg) : list ev :=
  match s, v with
  | P ts, _ => flat_map tok_events ts
  | M ts, Mso => flat_map tok_events ts
  | M _, Std => []
  | N ts, Std => flat_map tok_events ts
  | N _, Mso => []
  end.
Definition events (v : view_kind) (l : list seg) : list ev := flat_map (seg_events v) l.

Lemma view_plain_closed v : forall ts, forallb plain ts = true -> view v Closed ts = Some (flat_map tok_events ts, Closed).
Proof.
  induction ts as [|t r IH]; cbn [forallb flat_map]; intros H; [reflexivity|].
  apply andb_true_iff in H. destruct H as [Ht Hr].
  destruct t; try discriminate; cbn [view vstep]; rewrite (IH Hr); reflexivity.
Qed.
Lemma view_plain_inmso v : forall ts, forallb plain ts = true ->
  view v InMso (ts ++ [TMsoEnd]) = Some (match v with Mso => flat_map tok_events ts | Std => [] end, Closed).
Proof.
  induction ts as [|t r IH]; cbn [forallb app flat_map]; intros H.
  - cbn. destruct v; reflexivity.
  - apply andb_true_iff in H. destruct H as [Ht Hr].
    destruct t; try discriminate; cbn [view vstep]; rewrite (IH Hr); destruct v; reflexivity.
Qed.
Lemma view_plain_innotmso v : forall ts, forallb plain ts = true ->
  view v InNotMso (ts ++ [TNotMsoEnd]) = Some (match v with Std => flat_map tok_events ts | Mso => [] end, Closed).
Proof.
  induction ts as [|t r IH]; cbn [forallb app flat_map]; intros H.
  - cbn. destruct v; reflexivity.
  - apply andb_true_iff in H. destruct H as [Ht Hr].
    destruct t; try discriminate; cbn [view vstep]; rewrite (IH Hr); destruct v; reflexivity.
Qed.
Lemma view_seg v s : seg_plain s = true -> view v Closed (seg_toks s) = Some (seg_events v s, Closed).
Proof.
  destruct s as [ts|ts|ts]; cbn [seg_plain seg_toks]; intros H.
  - rewrite (view_plain_closed v ts H). destruct v; reflexivity.
  - cbn [view vstep]. rewrite (view_plain_inmso v ts H). destruct v; reflexivity.
  - cbn [view vstep]. rewrite (view_plain_innotmso v ts H). destruct v; reflexivity.
Qed.
Theorem view_flat v : forall l, forallb seg_plain l = true -> view v Closed (flat l) = Some (events v l, Closed).
Proof.
  induction l as [|s r IH]; cbn [forallb flat events flat_map]; intros H; [reflexivity|].
  apply andb_true_iff in H. destruct H as [Hs Hr]. rewrite view_app, (view_seg v s Hs).
  change (flat_map seg_toks r) with (flat r). rewrite (IH Hr). reflexivity.
Qed.

Lemma events_app v a b : events v (a ++ b) = events v a ++ events v b.
Proof. unfold events. apply flat_map_app. Qed.
Lemma events_cons v s l : events v (s :: l) = seg_events v s ++ events v l.
Proof. reflexivity. Qed.
Lemma forallb_flat_map {A B} (f : A -> list B) (p : B -> bool) l : (forall x, forallb p (f x) = true) -> forallb p (flat_map f l) = true.
Proof. intros H. induction l as [|x r IH]; cbn; [reflexivity|]. rewrite forallb_app, H, IH. reflexivity. Qed.

(* every emitted segment is plain markup *)
Lemma raw_plain ts : forallb plain (raw_toks ts) = true.
Proof. unfold raw_toks, raw_okb. destruct (forallb plain ts) eqn:E; cbn [andb]; [destruct (balanced _); [exact E|reflexivity]|reflexivity]. Qed.
Lemma raw_seg_plain ts : seg_plain (raw_seg ts) = true. Proof. apply raw_plain. Qed.
Lemma label_plain e : forallb plain (label e) = true. Proof. destruct e; reflexivity. Qed.
Lemma sel_h_plain e : seg_plain (sel_h e) = true.
Proof. destruct e as [[|] [s|]]; reflexivity. Qed.
Lemma sel_v_plain e : seg_plain (sel_v e) = true.
Proof. unfold sel_v. cbn [seg_plain]. rewrite !forallb_app, label_plain. reflexivity. Qed.
Lemma acc_el_plain e : forallb seg_plain (acc_el e) = true.
Proof. destruct e as [[t|] [x|]]; reflexivity. Qed.
Lemma forallb_map {A B} (f : A -> B) (p : B -> bool) l : (forall x, p (f x) = true) -> forallb p (map f l) = true.
Proof. intros H. induction l as [|x r IH]; cbn; [reflexivity|]. now rewrite H, IH. Qed.
Lemma times_plain n l : forallb plain l = true -> forallb plain (times n l) = true.
Proof. intros H. unfold times. induction n as [|n IH]; cbn [repeat List.concat]; [reflexivity|]. now rewrite forallb_app, H, IH. Qed.
Lemma carousel_plain thumbs m : forallb seg_plain (leaf_segs (KCarousel thumbs m)) = true.
Proof.
  cbn [leaf_segs forallb seg_plain]. unfold carousel_toks. rewrite !forallb_app, !times_plain by reflexivity.
  destruct thumbs; [rewrite times_plain by reflexivity|]; reflexivity.
Qed.
Lemma leaf_plain k : forallb seg_plain (leaf_segs k) = true.
Proof.
  destruct k as [s| | | | |s|s|ts|ts|vert els|ham links|els|thumbs m]; try reflexivity; [| | | | |apply carousel_plain].
  - cbn [leaf_segs forallb]. now rewrite raw_seg_plain.
  - cbn [leaf_segs forallb]. now rewrite raw_seg_plain.
  - destruct vert.
    + cbn [leaf_segs forallb]. rewrite forallb_app, (forallb_map sel_v seg_plain els sel_v_plain). reflexivity.
    + destruct els as [|e1 r]; [reflexivity|]. cbn [leaf_segs forallb]. rewrite sel_h_plain, forallb_app.
      rewrite forallb_flat_map; [reflexivity|]. intros e. cbn [forallb]. now rewrite sel_h_plain.
  - cbn [leaf_segs]. rewrite forallb_app. destruct ham; cbn [forallb]; rewrite forallb_app, forallb_flat_map; try reflexivity; intros x; reflexivity.
  - cbn [leaf_segs forallb]. rewrite forallb_app, (forallb_flat_map acc_el seg_plain els acc_el_plain). reflexivity.
Qed.
Lemma row_plain k : forallb seg_plain (row_segs k) = true.
Proof.
  destruct k; try (unfold row_segs; cbn [forallb]; rewrite forallb_app, leaf_plain; reflexivity).
  cbn [row_segs forallb]. now rewrite raw_seg_plain.
Qed.
Lemma col_plain ks : forallb seg_plain (col_segs ks) = true.
Proof. destruct ks as [g ks]. unfold col_segs. destruct g; cbn [fst snd forallb]; rewrite forallb_app, (forallb_flat_map row_segs seg_plain ks row_plain); reflexivity. Qed.
Lemma items_plain : forall l opened, forallb seg_plain (items_segs opened l) = true.
Proof.
  induction l as [|i r IH]; intros opened; [destruct opened; reflexivity|].
  destruct i as [cl|ts]; cbn [items_segs forallb].
  - rewrite forallb_app, col_plain, IH. destruct opened; reflexivity.
  - now rewrite raw_seg_plain, IH.
Qed.
Lemma raws_only_plain l : forallb seg_plain (raws_only l) = true.
Proof. unfold raws_only. apply forallb_flat_map. intros i. destruct i; [reflexivity|]. cbn [forallb]. now rewrite raw_seg_plain. Qed.
Lemma cols_plain l : forallb seg_plain (cols_segs l) = true.
Proof. unfold cols_segs. destruct (has_col l); [apply items_plain|]. cbn [forallb]. rewrite forallb_app, raws_only_plain. reflexivity. Qed.
Lemma group_inner_plain l : forallb seg_plain (group_inner l) = true.
Proof. unfold group_inner. destruct (has_col l); [rewrite forallb_app, items_plain, raws_only_plain|rewrite raws_only_plain]; reflexivity. Qed.
Lemma group_plain l : forallb seg_plain (group_segs l) = true.
Proof. unfold group_segs. cbn [forallb]. rewrite forallb_app, group_inner_plain. reflexivity. Qed.
Lemma mitems_plain : forall l opened, forallb seg_plain (mitems_segs opened l) = true.
Proof.
  induction l as [|i r IH]; intros opened; [destruct opened; reflexivity|].
  destruct i as [cl|ts|g]; cbn [mitems_segs forallb].
  - rewrite forallb_app, col_plain, IH. destruct opened; reflexivity.
  - now rewrite raw_seg_plain, IH.
  - now rewrite forallb_app, group_plain, IH.
Qed.
Lemma mitem_alone_plain i : forallb seg_plain (mitem_alone i) = true.
Proof.
  destruct i as [cl|ts|g]; cbn [mitem_alone forallb].
  - now rewrite forallb_app, col_plain.
  - now rewrite raw_seg_plain.
  - apply group_plain.
Qed.
Lemma mixed_plain l : forallb seg_plain (mixed_segs l) = true.
Proof.
  unfold mixed_segs. destruct l as [|i r]; [apply cols_plain|].
  destruct (_ || _); [destruct (existsb is_mcol (i :: r)); [apply mitems_plain|]|].
  - cbn [forallb]. rewrite forallb_app, (forallb_flat_map _ _ _ mitem_alone_plain). reflexivity.
  - apply forallb_flat_map. apply mitem_alone_plain.
Qed.
Lemma children_plain s : forallb seg_plain (children_segs s) = true.
Proof.
  destruct s as [cs|gs|ms]; cbn [children_segs]; [apply cols_plain| |apply mixed_plain]. destruct gs as [|g gs]; [reflexivity|].
  apply forallb_flat_map. apply group_plain.
Qed.
Lemma sec_plain s : forallb seg_plain (sec_segs s) = true.
Proof. unfold sec_segs. cbn [forallb]. rewrite forallb_app, children_plain. reflexivity. Qed.
Lemma sect_plain s : forallb seg_plain (sect_segs s) = true.
Proof. destruct s as [bg s]. unfold sect_segs. destruct bg; cbn [fst snd]; [|apply sec_plain]. cbn [forallb]. rewrite forallb_app, sec_plain. reflexivity. Qed.
Lemma witems_plain : forall l used, forallb seg_plain (witems_segs used l) = true.
Proof.
  induction l as [|i r IH]; intros used; [reflexivity|].
  destruct i as [s|ts]; cbn [witems_segs].
  - rewrite !forallb_app, sect_plain, IH. destruct used; reflexivity.
  - cbn [forallb]. now rewrite raw_seg_plain, IH.
Qed.
Lemma wrap_plain ss : forallb seg_plain (wrap_segs ss) = true.
Proof.
  unfold wrap_segs. cbn [forallb]. rewrite forallb_app. destruct ss as [|s1 rest]; [reflexivity|].
  unfold wrap_inner. cbn [forallb]. rewrite witems_plain. reflexivity.
Qed.
Lemma fw_plain s : forallb seg_plain (fw_segs s) = true.
Proof. destruct s as [bg s]. unfold fw_segs. destruct bg; cbn [fst snd forallb]; rewrite forallb_app, sec_plain; reflexivity. Qed.
Lemma fwrap_plain ws : forallb seg_plain (fwrap_segs ws) = true.
Proof. unfold fwrap_segs. cbn [forallb]. rewrite forallb_app, wrap_plain. reflexivity. Qed.
Lemma hero_plain ks : forallb seg_plain (hero_segs ks) = true.
Proof. unfold hero_segs. cbn [forallb]. rewrite forallb_app, (forallb_flat_map row_segs seg_plain ks row_plain). reflexivity. Qed.
Lemma blocks_plain : forall bs pend, forallb seg_plain (blocks_segs pend bs) = true.
Proof.
  induction bs as [|b r IH]; intros pend; [destruct pend; reflexivity|].
  assert (E : forallb seg_plain (if pend then [close3] else []) = true) by (destruct pend; reflexivity).
  assert (O : seg_plain (open_seg pend) = true) by (destruct pend; reflexivity).
  destruct b as [s|s|ss|ss|ks|ts]; cbn [blocks_segs].
  - cbn [forallb]. rewrite forallb_app, sect_plain, O.
    destruct r as [|b' r']; [reflexivity|]. destruct (continues b' && negb (fst s)); [apply IH|]. cbn [forallb]. now rewrite IH.
  - rewrite !forallb_app, E, fw_plain, IH. reflexivity.
  - cbn [forallb]. rewrite forallb_app, wrap_plain, O. cbn [forallb]. now rewrite IH.
  - rewrite !forallb_app, E, fwrap_plain, IH. reflexivity.
  - rewrite !forallb_app, E, hero_plain, IH. reflexivity.
  - rewrite forallb_app, E. cbn [forallb]. now rewrite raw_seg_plain, IH.
Qed.
Lemma body_plain b : forallb seg_plain (body_segs b) = true.
Proof. unfold body_segs. cbn [forallb]. rewrite forallb_app, blocks_plain. reflexivity. Qed.

(* ---- strict nesting of the event lists --------------------------------------------------- *)
Definition eo (n : string) := EOpen (lit n).
Definition ec (n : string) := EClose (lit n).

Lemma run_ec n st r : run (lit n :: st) (ec n :: r) = run st r.
Proof. cbn [run ec]. assert (E : bytes_eqb (lit n) (lit n) = true) by (now apply bytes_eqb_eq). now rewrite E. Qed.
Lemma run_eo n st r : run st (eo n :: r) = run (lit n :: st) r.
Proof. reflexivity. Qed.

Lemma wb_concat_map {A} (f : A -> list ev) l : (forall x, wb (f x)) -> wb (flat_map f l).
Proof. intros H. induction l as [|x r IH]; cbn; [apply wb_nil|]. apply wb_app; auto. Qed.

(* character data never affects nesting *)
Definition te (s : bytes) : list ev := tok_events (TText s).
Lemma run_te st s r : run st (te s ++ r) = run st r.
Proof. unfold te. cbn [tok_events]. destruct (all_space s); reflexivity. Qed.

Lemma raw_wb v ts : wb (events v [raw_seg ts]).
Proof.
  unfold events. cbn [flat_map raw_seg seg_events]. rewrite app_nil_r.
  replace (match v with Std => flat_map tok_events (raw_toks ts) | Mso => flat_map tok_events (raw_toks ts) end) with (flat_map tok_events (raw_toks ts)) by (destruct v; reflexivity).
  unfold raw_toks, raw_okb. destruct (forallb plain ts); cbn [andb]; [|apply wb_nil].
  destruct (balanced (flat_map tok_events ts)) eqn:B; [now apply balanced_wb|apply wb_nil].
Qed.
Lemma raw_seg_std ts : seg_events Std (raw_seg ts) = seg_events Mso (raw_seg ts). Proof. reflexivity. Qed.
Lemma raw_run v ts st r : run st (seg_events v (raw_seg ts) ++ r) = run st r.
Proof.
  pose proof (raw_wb v ts) as H. unfold events in H. cbn [flat_map] in H. rewrite app_nil_r in H.
  rewrite run_app, H. reflexivity.
Qed.
Lemma events1 v sg : events v [sg] = seg_events v sg.
Proof. unfold events. cbn [flat_map]. apply app_nil_r. Qed.
Ltac runs := repeat (first [rewrite run_eo | rewrite run_ec | rewrite run_te | progress (cbn [app])]).
Lemma sel_h_some v l s : seg_events v (sel_h (l, Some s)) =
  eo "table" :: eo "tbody" :: eo "tr" :: eo "td" :: eo "table" :: eo "tbody" :: eo "tr" :: eo "td" ::
  (if l then [eo "a"; ec "a"] else []) ++ ec "td" :: ec "tr" :: ec "tbody" :: ec "table" :: ec "td" ::
  eo "td" :: (if l then eo "a" else eo "span") :: te s ++ [(if l then ec "a" else ec "span"); ec "td"; ec "tr"; ec "tbody"; ec "table"].
Proof. destruct v, l; reflexivity. Qed.
Lemma sel_h_wb v e : wb (seg_events v (sel_h e)).
Proof.
  destruct e as [l [s|]]; [|apply balanced_wb; destruct v, l; vm_compute; reflexivity].
  rewrite sel_h_some. destruct l; intros st; now runs.
Qed.
Lemma sel_v_some v l s : seg_events v (sel_v (l, Some s)) =
  eo "tr" :: eo "td" :: eo "table" :: eo "tbody" :: eo "tr" :: eo "td" :: ec "td" :: ec "tr" :: ec "tbody" :: ec "table" :: ec "td" ::
  eo "td" :: eo "span" :: te s ++ [ec "span"; ec "td"; ec "tr"].
Proof. destruct v; reflexivity. Qed.
Lemma sel_v_wb v e : wb (seg_events v (sel_v e)).
Proof. destruct e as [l [s|]]; [rewrite sel_v_some; intros st; now runs|apply balanced_wb; destruct v; vm_compute; reflexivity]. Qed.
Lemma events_flat_map {A} v (f : A -> list seg) l : events v (flat_map f l) = flat_map (fun x => events v (f x)) l.
Proof. induction l as [|x r IH]; cbn [flat_map]; [reflexivity|]. now rewrite events_app, IH. Qed.
Lemma events_map {A} v (f : A -> seg) l : events v (map f l) = flat_map (fun x => seg_events v (f x)) l.
Proof. induction l as [|x r IH]; cbn [map flat_map]; [reflexivity|]. now rewrite events_cons, IH. Qed.
Lemma social_h_more_std r : wb (events Std (flat_map (fun e => [M [c "td"; o "td"]; sel_h e]) r)).
Proof. rewrite events_flat_map. apply wb_concat_map. intros e. rewrite !events_cons. cbn [events flat_map app]. rewrite app_nil_r. change (seg_events Std (M [c "td"; o "td"])) with (@nil ev). apply sel_h_wb. Qed.
Lemma social_h_more_mso : forall r st, run (lit "td" :: st) (events Mso (flat_map (fun e => [M [c "td"; o "td"]; sel_h e]) r)) = Some (lit "td" :: st).
Proof.
  induction r as [|e r IH]; intros st; [reflexivity|]. cbn [flat_map]. rewrite events_app, !events_cons.
  change (seg_events Mso (M [c "td"; o "td"])) with [ec "td"; eo "td"]. change (events Mso []) with (@nil ev). rewrite app_nil_r, <- !app_assoc.
  cbn [app]. rewrite run_ec, run_eo, run_app, (sel_h_wb Mso e). apply IH.
Qed.
Lemma nav_link_wb v s : wb (events v (nav_link s)).
Proof.
  unfold nav_link. rewrite !events_cons. change (events v []) with (@nil ev). rewrite app_nil_r.
  replace (seg_events v (P [o "a"; tx s; c "a"])) with (eo "a" :: te s ++ [ec "a"]) by (destruct v; reflexivity).
  destruct v.
  - change (seg_events Std (M [o "td"])) with (@nil ev). change (seg_events Std (M [c "td"])) with (@nil ev). rewrite app_nil_r. intros st. now runs.
  - change (seg_events Mso (M [o "td"])) with [eo "td"]. change (seg_events Mso (M [c "td"])) with [ec "td"]. intros st. runs. rewrite <- app_assoc. now runs.
Qed.
Lemma acc_el_wb v e : wb (events v (acc_el e)).
Proof.
  destruct e as [t x]. unfold acc_el. cbn [fst snd].
  assert (T : wb (events v (match t with Some s => [P [o "div"; o "table"; o "tbody"; o "tr"; o "td"; tx s; c "td"]; N [o "td"; o "img"; o "img"; c "td"]; P [c "tr"; c "tbody"; c "table"; c "div"]] | None => [] end))).
  { destruct t as [s|]; [|apply wb_nil]. rewrite !events_cons. change (events v []) with (@nil ev). rewrite app_nil_r.
    replace (seg_events v (P [o "div"; o "table"; o "tbody"; o "tr"; o "td"; tx s; c "td"])) with (eo "div" :: eo "table" :: eo "tbody" :: eo "tr" :: eo "td" :: te s ++ [ec "td"]) by (destruct v; reflexivity).
    replace (seg_events v (P [c "tr"; c "tbody"; c "table"; c "div"])) with [ec "tr"; ec "tbody"; ec "table"; ec "div"] by (destruct v; reflexivity).
    destruct v.
    - change (seg_events Std (N [o "td"; o "img"; o "img"; c "td"])) with [eo "td"; ec "td"]. intros st. runs. rewrite <- app_assoc. now runs.
    - change (seg_events Mso (N [o "td"; o "img"; o "img"; c "td"])) with (@nil ev). intros st. runs. rewrite <- app_assoc. now runs. }
  assert (X : wb (events v (match x with Some s => [P [o "div"; o "table"; o "tbody"; o "tr"; o "td"; tx s; c "td"; c "tr"; c "tbody"; c "table"; c "div"]] | None => [] end))).
  { destruct x as [s|]; [|apply wb_nil]. rewrite events1.
    replace (seg_events v (P [o "div"; o "table"; o "tbody"; o "tr"; o "td"; tx s; c "td"; c "tr"; c "tbody"; c "table"; c "div"]))
      with (eo "div" :: eo "table" :: eo "tbody" :: eo "tr" :: eo "td" :: te s ++ [ec "td"; ec "tr"; ec "tbody"; ec "table"; ec "div"]) by (destruct v; reflexivity).
    intros st. now runs. }
  rewrite !events_cons, !events_app.
  replace (seg_events v (P [o "tr"; o "td"; o "label"])) with [eo "tr"; eo "td"; eo "label"] by (destruct v; reflexivity).
  replace (seg_events v (N [o "input"])) with (@nil ev) by (destruct v; reflexivity).
  replace (seg_events v (P [o "div"])) with [eo "div"] by (destruct v; reflexivity).
  replace (events v [P [c "div"; c "label"; c "td"; c "tr"]]) with [ec "div"; ec "label"; ec "td"; ec "tr"] by (destruct v; reflexivity).
  intros st. runs. rewrite run_app, T, run_app, X. now runs.
Qed.

Lemma wrap2 a b es : wb es -> wb (eo a :: eo b :: es ++ [ec b; ec a]).
Proof.
  intros H. change (eo a :: eo b :: es ++ [ec b; ec a]) with (eo a :: (eo b :: es ++ [ec b; ec a])).
  replace (eo b :: es ++ [ec b; ec a]) with ((eo b :: es ++ [ec b]) ++ [ec a]) by (cbn; now rewrite <- app_assoc).
  apply wb_wrap. apply wb_wrap. exact H.
Qed.
Lemma times_events n l : flat_map tok_events (times n l) = List.concat (repeat (flat_map tok_events l) n).
Proof. unfold times. induction n as [|n IH]; cbn [repeat List.concat flat_map]; [reflexivity|]. now rewrite flat_map_app, IH. Qed.
Lemma run_times n es st r : wb es -> run st (List.concat (repeat es n) ++ r) = run st r.
Proof. intros H. induction n as [|n IH]; cbn [repeat List.concat app]; [reflexivity|]. now rewrite <- app_assoc, run_app, H. Qed.
Lemma carousel_wb v thumbs m : wb (events v (leaf_segs (KCarousel thumbs m))).
Proof.
  cbn [leaf_segs]. rewrite !events_cons. change (events v []) with (@nil ev). rewrite app_nil_r. destruct v.
  - change (seg_events Std (M [o "div"; o "img"; c "div"])) with (@nil ev). rewrite app_nil_r. cbn [seg_events].
    unfold carousel_toks. rewrite !flat_map_app, !times_events.
    assert (T : flat_map tok_events (if thumbs then times (S m) [o "a"; o "label"; o "img"; c "label"; c "a"] else []) =
                List.concat (repeat (if thumbs then [eo "a"; eo "label"; ec "label"; ec "a"] else []) (S m))).
    { destruct thumbs; [apply times_events|]. clear. induction (S m) as [|n IH]; [reflexivity|]. cbn [repeat List.concat app]. exact IH. }
    rewrite T.
    change (flat_map tok_events [o "div"]) with [eo "div"]. change (flat_map tok_events [o "input"]) with (@nil ev).
    change (flat_map tok_events [o "table"; o "tbody"; o "tr"; o "td"; o "div"]) with [eo "table"; eo "tbody"; eo "tr"; eo "td"; eo "div"].
    change (flat_map tok_events [o "label"; o "img"; c "label"]) with [eo "label"; ec "label"].
    change (flat_map tok_events [c "div"; c "td"; o "td"; o "div"]) with [ec "div"; ec "td"; eo "td"; eo "div"].
    change (flat_map tok_events [o "div"; o "img"; c "div"]) with [eo "div"; ec "div"].
    change (flat_map tok_events [c "div"; c "td"; c "tr"; c "tbody"; c "table"; c "div"; c "div"]) with [ec "div"; ec "td"; ec "tr"; ec "tbody"; ec "table"; ec "div"; ec "div"].
    assert (W0 : wb (@nil ev)) by apply wb_nil.
    assert (W1 : wb (if thumbs then [eo "a"; eo "label"; ec "label"; ec "a"] else [])) by (destruct thumbs; apply balanced_wb; reflexivity).
    assert (W2 : wb [eo "label"; ec "label"]) by (apply balanced_wb; reflexivity).
    assert (W3 : wb [eo "div"; ec "div"]) by (apply balanced_wb; reflexivity).
    intros st. runs. rewrite (run_times _ _ _ _ W0). runs. rewrite (run_times _ _ _ _ W1). runs. rewrite (run_times _ _ _ _ W2). runs.
    rewrite (run_times _ _ _ _ W3). runs. rewrite (run_times _ _ _ _ W2). now runs.
  - change (seg_events Mso (N (carousel_toks thumbs (S m)))) with (@nil ev). apply balanced_wb. reflexivity.
Qed.
Lemma leaf_wb v k : wb (events v (leaf_segs k)).
Proof.
  destruct k as [s| | | | |s|s|ts|ts|vert els|ham links|els|thumbs m]; try (apply balanced_wb; destruct v; vm_compute; reflexivity); [| | |apply raw_wb| | | | |apply carousel_wb].
  4: { (* table *) cbn [leaf_segs]. rewrite !events_cons. change (events v []) with (@nil ev). rewrite app_nil_r.
       replace (seg_events v (P [o "table"])) with [eo "table"] by (destruct v; reflexivity).
       replace (seg_events v (P [c "table"])) with [ec "table"] by (destruct v; reflexivity).
       intros st. runs. rewrite raw_run. now runs. }
  4: { (* social *) destruct vert.
       - cbn [leaf_segs]. rewrite events_cons, events_app, events_map.
         replace (seg_events v (P [o "table"; o "tbody"])) with [eo "table"; eo "tbody"] by (destruct v; reflexivity).
         replace (events v [P [c "tbody"; c "table"]]) with [ec "tbody"; ec "table"] by (destruct v; reflexivity).
         cbn [app]. apply wrap2. apply wb_concat_map. intros e. apply sel_v_wb.
       - destruct els as [|e1 r]; [apply balanced_wb; destruct v; vm_compute; reflexivity|].
         cbn [leaf_segs]. rewrite !events_cons, events_app. destruct v.
         + change (seg_events Std (M [o "table"; o "tr"; o "td"])) with (@nil ev). change (events Std [M [c "td"; c "tr"; c "table"]]) with (@nil ev).
           cbn [app]. rewrite app_nil_r. apply wb_app; [apply sel_h_wb|apply social_h_more_std].
         + change (seg_events Mso (M [o "table"; o "tr"; o "td"])) with [eo "table"; eo "tr"; eo "td"]. change (events Mso [M [c "td"; c "tr"; c "table"]]) with [ec "td"; ec "tr"; ec "table"].
           intros st. runs. rewrite run_app, (sel_h_wb Mso e1), run_app, social_h_more_mso. now runs. }
  4: { (* navbar *) cbn [leaf_segs]. rewrite events_app.
       assert (H : wb (events v (if ham then [N [o "input"]; P [o "div"; o "label"; o "span"; txt; c "span"; o "span"; txt; c "span"; c "label"; c "div"]] else [])))
         by (destruct ham; apply balanced_wb; destruct v; vm_compute; reflexivity).
       apply wb_app; [exact H|]. rewrite !events_cons, events_app, events_flat_map.
       replace (seg_events v (P [o "div"])) with [eo "div"] by (destruct v; reflexivity).
       assert (L : wb (flat_map (fun x => events v (nav_link x)) links)) by (apply wb_concat_map; intros x; apply nav_link_wb).
       destruct v.
       - change (seg_events Std (M [o "table"; o "tr"])) with (@nil ev). change (events Std [M [c "tr"; c "table"]; P [c "div"]]) with [ec "div"].
         cbn [app]. apply (wb_wrap (lit "div")). exact L.
       - change (seg_events Mso (M [o "table"; o "tr"])) with [eo "table"; eo "tr"]. change (events Mso [M [c "tr"; c "table"]; P [c "div"]]) with [ec "tr"; ec "table"; ec "div"].
         intros st. runs. rewrite run_app, L. now runs. }
  4: { (* accordion *) cbn [leaf_segs]. rewrite events_cons, events_app, events_flat_map.
       replace (seg_events v (P [o "table"; o "tbody"])) with [eo "table"; eo "tbody"] by (destruct v; reflexivity).
       replace (events v [P [c "tbody"; c "table"]]) with [ec "tbody"; ec "table"] by (destruct v; reflexivity).
       cbn [app]. apply wrap2. apply wb_concat_map. intros e. apply acc_el_wb. }
  - assert (E : events v (leaf_segs (KText s)) = eo "div" :: te s ++ [ec "div"])
      by (unfold events; cbn [leaf_segs flat_map]; rewrite app_nil_r; destruct v; reflexivity).
    rewrite E. intros st. now rewrite run_eo, run_te, run_ec.
  - assert (E : events v (leaf_segs (KButton s)) = eo "table" :: eo "tbody" :: eo "tr" :: eo "td" :: eo "p" :: te s ++ [ec "p"; ec "td"; ec "tr"; ec "tbody"; ec "table"])
      by (unfold events; cbn [leaf_segs flat_map]; rewrite app_nil_r; destruct v; reflexivity).
    rewrite E. intros st. now rewrite !run_eo, run_te, !run_ec.
  - assert (E : events v (leaf_segs (KButtonLink s)) = eo "table" :: eo "tbody" :: eo "tr" :: eo "td" :: eo "a" :: te s ++ [ec "a"; ec "td"; ec "tr"; ec "tbody"; ec "table"])
      by (unfold events; cbn [leaf_segs flat_map]; rewrite app_nil_r; destruct v; reflexivity).
    rewrite E. intros st. now rewrite !run_eo, run_te, !run_ec.
Qed.


Lemma row_wb v k : wb (events v (row_segs k)).
Proof.
  assert (G : wb (events v (P [o "tr"; o "td"] :: leaf_segs k ++ [P [c "td"; c "tr"]]))).
  { rewrite events_cons, events_app.
    replace (seg_events v (P [o "tr"; o "td"])) with [eo "tr"; eo "td"] by (destruct v; reflexivity).
    replace (events v [P [c "td"; c "tr"]]) with [ec "td"; ec "tr"] by (destruct v; reflexivity).
    cbn [app]. apply wrap2. apply leaf_wb. }
  destruct k; try exact G. apply raw_wb.
Qed.


Lemma wrap3 a b d es : wb es -> wb (eo a :: eo b :: eo d :: es ++ [ec d; ec b; ec a]).
Proof.
  intros H. replace (eo a :: eo b :: eo d :: es ++ [ec d; ec b; ec a]) with (eo a :: (eo b :: eo d :: es ++ [ec d; ec b]) ++ [ec a])
    by (cbn; rewrite <- app_assoc; reflexivity).
  apply wb_wrap. apply wrap2. exact H.
Qed.
Lemma wrap5 a b d e f es : wb es -> wb (eo a :: eo b :: eo d :: eo e :: eo f :: es ++ [ec f; ec e; ec d; ec b; ec a]).
Proof.
  intros H. replace (eo a :: eo b :: eo d :: eo e :: eo f :: es ++ [ec f; ec e; ec d; ec b; ec a])
    with (eo a :: eo b :: (eo d :: eo e :: eo f :: es ++ [ec f; ec e; ec d]) ++ [ec b; ec a]) by (cbn; rewrite <- app_assoc; reflexivity).
  apply wrap2. apply wrap3. exact H.
Qed.
Lemma wrap7 a b d e f g h es : wb es ->
  wb (eo a :: eo b :: eo d :: eo e :: eo f :: eo g :: eo h :: es ++ [ec h; ec g; ec f; ec e; ec d; ec b; ec a]).
Proof.
  intros H. replace (eo a :: eo b :: eo d :: eo e :: eo f :: eo g :: eo h :: es ++ [ec h; ec g; ec f; ec e; ec d; ec b; ec a])
    with (eo a :: eo b :: (eo d :: eo e :: eo f :: eo g :: eo h :: es ++ [ec h; ec g; ec f; ec e; ec d]) ++ [ec b; ec a]) by (cbn; rewrite <- app_assoc; reflexivity).
  apply wrap2. apply wrap5. exact H.
Qed.
Lemma col_events v (cl : column) : events v (col_segs cl) =
  if fst cl
  then eo "div" :: eo "table" :: eo "tbody" :: eo "tr" :: eo "td" :: eo "table" :: eo "tbody" :: flat_map (fun k => events v (row_segs k)) (snd cl)
       ++ [ec "tbody"; ec "table"; ec "td"; ec "tr"; ec "tbody"; ec "table"; ec "div"]
  else eo "div" :: eo "table" :: eo "tbody" :: flat_map (fun k => events v (row_segs k)) (snd cl) ++ [ec "tbody"; ec "table"; ec "div"].
Proof. destruct cl as [g ks]. unfold col_segs. destruct g; cbn [fst snd]; rewrite events_cons, events_app, events_flat_map; destruct v; reflexivity. Qed.
Lemma col_wb v ks : wb (events v (col_segs ks)).
Proof.
  rewrite col_events. destruct ks as [g ks]. destruct g; cbn [fst snd].
  - apply wrap7. apply wb_concat_map. intros k. apply row_wb.
  - apply wrap3. apply wb_concat_map. intros k. apply row_wb.
Qed.

Lemma items_std : forall l opened, wb (events Std (items_segs opened l)).
Proof.
  induction l as [|i r IH]; intros opened; [destruct opened; apply balanced_wb; reflexivity|].
  destruct i as [cl|ts]; cbn [items_segs].
  - rewrite events_cons, events_app. replace (seg_events Std (if opened then M [c "td"; o "td"] else M [o "table"; o "tr"; o "td"])) with (@nil ev) by (destruct opened; reflexivity).
    cbn [app]. apply wb_app; [apply col_wb|apply IH].
  - rewrite events_cons. intros st. rewrite raw_run. apply IH.
Qed.
Definition ostack (opened : bool) (st : list bytes) : list bytes := if opened then lit "td" :: lit "tr" :: lit "table" :: st else st.
Lemma items_mso : forall l opened st, run (ostack opened st) (events Mso (items_segs opened l)) = Some st.
Proof.
  induction l as [|i r IH]; intros opened st.
  - destruct opened; [|reflexivity]. cbn [items_segs ostack]. change (events Mso [M [c "td"; c "tr"; c "table"]]) with [ec "td"; ec "tr"; ec "table"]. now rewrite !run_ec.
  - destruct i as [cl|ts]; cbn [items_segs].
    + rewrite events_cons, events_app. destruct opened; cbn [ostack].
      * change (seg_events Mso (M [c "td"; o "td"])) with [ec "td"; eo "td"]. cbn [app]. rewrite run_ec, run_eo, run_app, (col_wb Mso cl). apply (IH true st).
      * change (seg_events Mso (M [o "table"; o "tr"; o "td"])) with [eo "table"; eo "tr"; eo "td"]. cbn [app]. rewrite !run_eo, run_app, (col_wb Mso cl). apply (IH true st).
    + rewrite events_cons, raw_run. apply IH.
Qed.
Lemma raws_only_wb v l : wb (events v (raws_only l)).
Proof.
  unfold raws_only. rewrite events_flat_map. apply wb_concat_map. intros i. destruct i as [cl|ts]; [apply wb_nil|apply raw_wb].
Qed.
Lemma items_wb v l : wb (events v (items_segs false l)).
Proof. destruct v; [apply items_std|]. intros st. apply (items_mso l false st). Qed.
Lemma cols_wb v l : wb (events v (cols_segs l)).
Proof.
  unfold cols_segs. destruct (has_col l); [apply items_wb|].
  rewrite events_cons, events_app. destruct v.
  - change (seg_events Std (M [o "table"; o "tr"])) with (@nil ev). change (events Std [M [c "tr"; c "table"]]) with (@nil ev).
    cbn [app]. rewrite app_nil_r. apply raws_only_wb.
  - change (seg_events Mso (M [o "table"; o "tr"])) with [eo "table"; eo "tr"]. change (events Mso [M [c "tr"; c "table"]]) with [ec "tr"; ec "table"].
    cbn [app]. apply wrap2. apply raws_only_wb.
Qed.

Lemma group_wb v l : wb (events v (group_segs l)).
Proof.
  unfold group_segs. rewrite !events_cons, events_app.
  assert (I : wb (events v (group_inner l))).
  { unfold group_inner. destruct (has_col l); [|apply raws_only_wb]. rewrite events_app. apply wb_app; [apply items_wb|apply raws_only_wb]. }
  destruct v.
  - change (seg_events Std (M [o "table"; o "tr"; o "td"])) with (@nil ev). change (seg_events Std (P [o "div"])) with [eo "div"].
    change (events Std [P [c "div"]; M [c "td"; c "tr"; c "table"]]) with [ec "div"]. cbn [app]. apply (wb_wrap (lit "div")). exact I.
  - change (seg_events Mso (M [o "table"; o "tr"; o "td"])) with [eo "table"; eo "tr"; eo "td"]. change (seg_events Mso (P [o "div"])) with [eo "div"].
    change (events Mso [P [c "div"]; M [c "td"; c "tr"; c "table"]]) with [ec "div"; ec "td"; ec "tr"; ec "table"].
    intros st. cbn [app]. rewrite !run_eo, run_app, I, !run_ec. reflexivity.
Qed.
Lemma mitems_std : forall l opened, wb (events Std (mitems_segs opened l)).
Proof.
  induction l as [|i r IH]; intros opened; [destruct opened; apply balanced_wb; reflexivity|].
  destruct i as [cl|ts|g]; cbn [mitems_segs].
  - rewrite events_cons, events_app. replace (seg_events Std (if opened then M [c "td"; o "td"] else M [o "table"; o "tr"; o "td"])) with (@nil ev) by (destruct opened; reflexivity).
    cbn [app]. apply wb_app; [apply col_wb|apply IH].
  - rewrite events_cons. intros st. rewrite raw_run. apply IH.
  - rewrite events_app. apply wb_app; [apply group_wb|apply IH].
Qed.
Lemma mitems_mso : forall l opened st, run (ostack opened st) (events Mso (mitems_segs opened l)) = Some st.
Proof.
  induction l as [|i r IH]; intros opened st.
  - destruct opened; [|reflexivity]. cbn [mitems_segs ostack]. change (events Mso [M [c "td"; c "tr"; c "table"]]) with [ec "td"; ec "tr"; ec "table"]. now rewrite !run_ec.
  - destruct i as [cl|ts|g]; cbn [mitems_segs].
    + rewrite events_cons, events_app. destruct opened; cbn [ostack].
      * change (seg_events Mso (M [c "td"; o "td"])) with [ec "td"; eo "td"]. cbn [app]. rewrite run_ec, run_eo, run_app, (col_wb Mso cl). apply (IH true st).
      * change (seg_events Mso (M [o "table"; o "tr"; o "td"])) with [eo "table"; eo "tr"; eo "td"]. cbn [app]. rewrite !run_eo, run_app, (col_wb Mso cl). apply (IH true st).
    + rewrite events_cons, raw_run. apply IH.
    + rewrite events_app, run_app, (group_wb Mso g). apply IH.
Qed.
Lemma mitem_alone_wb v i : wb (events v (mitem_alone i)).
Proof.
  destruct i as [cl|ts|g]; cbn [mitem_alone]; [|apply raw_wb|apply group_wb].
  rewrite events_cons, events_app. destruct v.
  - change (seg_events Std (M [o "table"; o "tr"; o "td"])) with (@nil ev). change (events Std [M [c "td"; c "tr"; c "table"]]) with (@nil ev).
    cbn [app]. rewrite app_nil_r. apply col_wb.
  - change (seg_events Mso (M [o "table"; o "tr"; o "td"])) with [eo "table"; eo "tr"; eo "td"].
    change (events Mso [M [c "td"; c "tr"; c "table"]]) with [ec "td"; ec "tr"; ec "table"]. cbn [app]. apply wrap3. apply col_wb.
Qed.
Lemma mixed_wb v l : wb (events v (mixed_segs l)).
Proof.
  unfold mixed_segs. destruct l as [|i r]; [apply cols_wb|].
  destruct (_ || _); [destruct (existsb is_mcol (i :: r))|].
  - destruct v; [apply mitems_std|]. intros st. apply (mitems_mso (i :: r) false st).
  - rewrite events_cons, events_app, events_flat_map.
    assert (I : wb (flat_map (fun x => events v (mitem_alone x)) (i :: r))) by (apply wb_concat_map; intros x; apply mitem_alone_wb).
    destruct v.
    + change (seg_events Std (M [o "table"; o "tr"])) with (@nil ev). change (events Std [M [c "tr"; c "table"]]) with (@nil ev).
      cbn [app]. rewrite app_nil_r. exact I.
    + change (seg_events Mso (M [o "table"; o "tr"])) with [eo "table"; eo "tr"]. change (events Mso [M [c "tr"; c "table"]]) with [ec "tr"; ec "table"].
      cbn [app]. apply wrap2. exact I.
  - rewrite events_flat_map. apply wb_concat_map. intros x. apply mitem_alone_wb.
Qed.
Lemma children_wb v s : wb (events v (children_segs s)).
Proof.
  destruct s as [cs|gs|ms]; cbn [children_segs]; [apply cols_wb| |].
  - destruct gs as [|g gs]; [apply cols_wb|]. rewrite events_flat_map. apply wb_concat_map. intros x. apply group_wb.
  - apply mixed_wb.
Qed.

Lemma sec_events v s : events v (sec_segs s) =
  eo "div" :: eo "table" :: eo "tbody" :: eo "tr" :: eo "td" :: events v (children_segs s) ++ [ec "td"; ec "tr"; ec "tbody"; ec "table"; ec "div"].
Proof. unfold sec_segs. rewrite events_cons, events_app. destruct v; reflexivity. Qed.
Lemma sec_wb v s : wb (events v (sec_segs s)).
Proof. rewrite sec_events. apply wrap5. apply children_wb. Qed.

Lemma sect_wb v s : wb (events v (sect_segs s)).
Proof.
  destruct s as [bg s]. unfold sect_segs. destruct bg; cbn [fst snd]; [|apply sec_wb].
  rewrite !events_cons, events_app. destruct v.
  - change (seg_events Std vml_open) with (@nil ev). change (seg_events Std (P [o "div"])) with [eo "div"].
    change (events Std [P [c "div"]; vml_close]) with [ec "div"]. cbn [app]. apply (wb_wrap (lit "div")). apply sec_wb.
  - change (seg_events Mso vml_open) with [eo "v:rect"; eo "v:textbox"]. change (seg_events Mso (P [o "div"])) with [eo "div"].
    change (events Mso [P [c "div"]; vml_close]) with [ec "div"; ec "v:textbox"; ec "v:rect"]. cbn [app]. apply wrap3. apply sec_wb.
Qed.

(* wrapper: one row per section in the wrapper's Outlook table *)
Definition wstack (st : list bytes) : list bytes :=
  lit "td" :: lit "tr" :: lit "table" :: lit "td" :: lit "tr" :: lit "table" :: st.
Lemma witems_std : forall l used, wb (events Std (witems_segs used l)).
Proof.
  induction l as [|i r IH]; intros used; [apply balanced_wb; reflexivity|].
  destruct i as [s|ts]; cbn [witems_segs].
  - rewrite !events_app. replace (events Std (if used then [M (close5 ++ open5)] else [])) with (@nil ev) by (destruct used; reflexivity).
    cbn [app]. apply wb_app; [apply sect_wb|apply IH].
  - rewrite !events_cons. change (seg_events Std (M close5)) with (@nil ev). change (seg_events Std (M open5)) with (@nil ev).
    cbn [app]. intros st. rewrite raw_run. apply IH.
Qed.
Lemma witems_mso : forall l used st, run (wstack st) (events Mso (witems_segs used l)) = Some st.
Proof.
  induction l as [|i r IH]; intros used st.
  - cbn [witems_segs]. change (events Mso [M (close5 ++ [c "table"])]) with [ec "td"; ec "tr"; ec "table"; ec "td"; ec "tr"; ec "table"].
    unfold wstack. now rewrite !run_ec.
  - destruct i as [s|ts]; cbn [witems_segs].
    + rewrite !events_app, run_app.
      assert (E : run (wstack st) (events Mso (if used then [M (close5 ++ open5)] else [])) = Some (wstack st)).
      { destruct used; [|reflexivity].
        change (events Mso [M (close5 ++ open5)]) with [ec "td"; ec "tr"; ec "table"; ec "td"; ec "tr"; eo "tr"; eo "td"; eo "table"; eo "tr"; eo "td"].
        unfold wstack. now rewrite !run_ec, !run_eo. }
      rewrite E, run_app, (sect_wb Mso s). apply IH.
    + rewrite !events_cons.
      change (seg_events Mso (M close5)) with [ec "td"; ec "tr"; ec "table"; ec "td"; ec "tr"].
      change (seg_events Mso (M open5)) with [eo "tr"; eo "td"; eo "table"; eo "tr"; eo "td"].
      unfold wstack. cbn [app]. rewrite !run_ec, raw_run. cbn [app]. rewrite !run_eo. apply (IH false st).
Qed.
Lemma wrap_inner_wb v ss : wb (events v (wrap_inner ss)).
Proof.
  destruct ss as [|s1 rest]; [apply balanced_wb; destruct v; vm_compute; reflexivity|].
  unfold wrap_inner. rewrite events_cons. destruct v.
  - change (seg_events Std (M (o "table" :: open5))) with (@nil ev). cbn [app]. apply witems_std.
  - change (seg_events Mso (M (o "table" :: open5))) with [eo "table"; eo "tr"; eo "td"; eo "table"; eo "tr"; eo "td"].
    intros st. cbn [app]. rewrite !run_eo. apply (witems_mso (s1 :: rest) false st).
Qed.
Lemma wrap_wb v ss : wb (events v (wrap_segs ss)).
Proof.
  unfold wrap_segs. rewrite events_cons, events_app.
  replace (seg_events v (P [o "div"; o "table"; o "tbody"; o "tr"; o "td"])) with [eo "div"; eo "table"; eo "tbody"; eo "tr"; eo "td"] by (destruct v; reflexivity).
  replace (events v [P [c "td"; c "tr"; c "tbody"; c "table"; c "div"]]) with [ec "td"; ec "tr"; ec "tbody"; ec "table"; ec "div"] by (destruct v; reflexivity).
  apply wrap5. apply wrap_inner_wb.
Qed.

Lemma wrap4 a b d e es : wb es -> wb (eo a :: eo b :: eo d :: eo e :: es ++ [ec e; ec d; ec b; ec a]).
Proof.
  intros H. replace (eo a :: eo b :: eo d :: eo e :: es ++ [ec e; ec d; ec b; ec a])
    with (eo a :: eo b :: (eo d :: eo e :: es ++ [ec e; ec d]) ++ [ec b; ec a]) by (cbn; rewrite <- app_assoc; reflexivity).
  apply wrap2. apply wrap2. exact H.
Qed.
Lemma fw_wb v s : wb (events v (fw_segs s)).
Proof.
  destruct s as [bg s]. unfold fw_segs. destruct bg; cbn [fst snd]; rewrite !events_cons, events_app; destruct v.
  - change (seg_events Std (P [o "table"; o "tbody"; o "tr"; o "td"])) with [eo "table"; eo "tbody"; eo "tr"; eo "td"].
    change (seg_events Std vml_open) with (@nil ev). change (seg_events Std (M [o "table"; o "tr"; o "td"])) with (@nil ev).
    change (seg_events Std (P [o "div"])) with [eo "div"].
    change (events Std [P [c "div"]; close3; vml_close; P [c "td"; c "tr"; c "tbody"; c "table"]]) with [ec "div"; ec "td"; ec "tr"; ec "tbody"; ec "table"].
    cbn [app]. apply wrap5. apply sec_wb.
  - change (seg_events Mso (P [o "table"; o "tbody"; o "tr"; o "td"])) with [eo "table"; eo "tbody"; eo "tr"; eo "td"].
    change (seg_events Mso vml_open) with [eo "v:rect"; eo "v:textbox"]. change (seg_events Mso (M [o "table"; o "tr"; o "td"])) with [eo "table"; eo "tr"; eo "td"].
    change (seg_events Mso (P [o "div"])) with [eo "div"].
    change (events Mso [P [c "div"]; close3; vml_close; P [c "td"; c "tr"; c "tbody"; c "table"]])
      with [ec "div"; ec "td"; ec "tr"; ec "table"; ec "v:textbox"; ec "v:rect"; ec "td"; ec "tr"; ec "tbody"; ec "table"].
    cbn [app]. intros st. rewrite !run_eo, run_app, (sec_wb Mso s). cbn [app]. rewrite !run_ec. reflexivity.
  - change (seg_events Std (P [o "table"; o "tbody"; o "tr"; o "td"])) with [eo "table"; eo "tbody"; eo "tr"; eo "td"].
    change (seg_events Std (M [o "table"; o "tr"; o "td"])) with (@nil ev).
    change (events Std [close3; P [c "td"; c "tr"; c "tbody"; c "table"]]) with [ec "td"; ec "tr"; ec "tbody"; ec "table"].
    cbn [app]. apply wrap4. apply sec_wb.
  - change (seg_events Mso (P [o "table"; o "tbody"; o "tr"; o "td"])) with [eo "table"; eo "tbody"; eo "tr"; eo "td"].
    change (seg_events Mso (M [o "table"; o "tr"; o "td"])) with [eo "table"; eo "tr"; eo "td"].
    change (events Mso [close3; P [c "td"; c "tr"; c "tbody"; c "table"]]) with [ec "td"; ec "tr"; ec "table"; ec "td"; ec "tr"; ec "tbody"; ec "table"].
    cbn [app]. intros st. rewrite !run_eo, run_app, (sec_wb Mso s). cbn [app]. rewrite !run_ec. reflexivity.
Qed.
Lemma fwrap_wb v ws : wb (events v (fwrap_segs ws)).
Proof.
  unfold fwrap_segs. rewrite !events_cons, events_app. destruct v.
  - change (seg_events Std (P [o "table"; o "tbody"; o "tr"; o "td"])) with [eo "table"; eo "tbody"; eo "tr"; eo "td"].
    change (seg_events Std (M [o "table"; o "tr"; o "td"])) with (@nil ev).
    change (events Std [close3; P [c "td"; c "tr"; c "tbody"; c "table"]]) with [ec "td"; ec "tr"; ec "tbody"; ec "table"].
    cbn [app]. apply wrap4. apply wrap_wb.
  - change (seg_events Mso (P [o "table"; o "tbody"; o "tr"; o "td"])) with [eo "table"; eo "tbody"; eo "tr"; eo "td"].
    change (seg_events Mso (M [o "table"; o "tr"; o "td"])) with [eo "table"; eo "tr"; eo "td"].
    change (events Mso [close3; P [c "td"; c "tr"; c "tbody"; c "table"]]) with [ec "td"; ec "tr"; ec "table"; ec "td"; ec "tr"; ec "tbody"; ec "table"].
    cbn [app]. intros st. rewrite !run_eo, run_app, (wrap_wb Mso ws). cbn [app]. rewrite !run_ec. reflexivity.
Qed.
Lemma hero_wb v ks : wb (events v (hero_segs ks)).
Proof.
  unfold hero_segs. rewrite !events_cons, events_app, events_flat_map.
  assert (R : wb (flat_map (fun k => events v (row_segs k)) ks)) by (apply wb_concat_map; intros k; apply row_wb).
  destruct v.
  - change (seg_events Std (M [o "table"; o "tr"; o "td"; TOpen (lit "v:image") [] true])) with (@nil ev).
    change (seg_events Std (P [o "div"; o "table"; o "tbody"; o "tr"; o "td"])) with [eo "div"; eo "table"; eo "tbody"; eo "tr"; eo "td"].
    change (seg_events Std (M [o "table"; o "tr"; o "td"])) with (@nil ev).
    change (seg_events Std (P [o "div"; o "table"; o "tbody"; o "tr"; o "td"; o "table"; o "tbody"])) with [eo "div"; eo "table"; eo "tbody"; eo "tr"; eo "td"; eo "table"; eo "tbody"].
    change (events Std [P [c "tbody"; c "table"; c "td"; c "tr"; c "tbody"; c "table"; c "div"]; close3; P [c "td"; c "tr"; c "tbody"; c "table"; c "div"]; close3])
      with [ec "tbody"; ec "table"; ec "td"; ec "tr"; ec "tbody"; ec "table"; ec "div"; ec "td"; ec "tr"; ec "tbody"; ec "table"; ec "div"].
    cbn [app]. intros st. rewrite !run_eo, run_app, R. cbn [app]. rewrite !run_ec. reflexivity.
  - change (seg_events Mso (M [o "table"; o "tr"; o "td"; TOpen (lit "v:image") [] true])) with [eo "table"; eo "tr"; eo "td"].
    change (seg_events Mso (P [o "div"; o "table"; o "tbody"; o "tr"; o "td"])) with [eo "div"; eo "table"; eo "tbody"; eo "tr"; eo "td"].
    change (seg_events Mso (M [o "table"; o "tr"; o "td"])) with [eo "table"; eo "tr"; eo "td"].
    change (seg_events Mso (P [o "div"; o "table"; o "tbody"; o "tr"; o "td"; o "table"; o "tbody"])) with [eo "div"; eo "table"; eo "tbody"; eo "tr"; eo "td"; eo "table"; eo "tbody"].
    change (events Mso [P [c "tbody"; c "table"; c "td"; c "tr"; c "tbody"; c "table"; c "div"]; close3; P [c "td"; c "tr"; c "tbody"; c "table"; c "div"]; close3])
      with [ec "tbody"; ec "table"; ec "td"; ec "tr"; ec "tbody"; ec "table"; ec "div"; ec "td"; ec "tr"; ec "table"; ec "td"; ec "tr"; ec "tbody"; ec "table"; ec "div"; ec "td"; ec "tr"; ec "table"].
    cbn [app]. intros st. rewrite !run_eo, run_app, R. cbn [app]. rewrite !run_ec. reflexivity.
Qed.

(* body: the hand-over between blocks *)
Lemma blocks_std : forall bs pend, wb (events Std (blocks_segs pend bs)).
Proof.
  induction bs as [|b r IH]; intros pend; [destruct pend; apply balanced_wb; reflexivity|].
  assert (E : events Std (if pend then [close3] else []) = []) by (destruct pend; reflexivity).
  destruct b as [s|s|ss|ss|ks|ts]; cbn [blocks_segs]; [| | |rewrite !events_app, E; cbn [app]; apply wb_app; [apply fwrap_wb|apply IH]| |rewrite events_app, E; cbn [app]; rewrite events_cons; intros st; rewrite raw_run; apply IH].
  - rewrite events_cons, events_app. replace (seg_events Std (open_seg pend)) with (@nil ev) by (destruct pend; reflexivity).
    cbn [app]. apply wb_app; [apply sect_wb|]. destruct r as [|b' r']; [apply balanced_wb; reflexivity|].
    destruct (continues b' && negb (fst s)); [apply IH|]. rewrite events_cons. change (seg_events Std close3) with (@nil ev). apply IH.
  - rewrite !events_app, E. cbn [app]. apply wb_app; [apply fw_wb|apply IH].
  - rewrite events_cons, events_app, events_cons. replace (seg_events Std (open_seg pend)) with (@nil ev) by (destruct pend; reflexivity).
    change (seg_events Std close3) with (@nil ev). cbn [app]. apply wb_app; [apply wrap_wb|apply IH].
  - rewrite !events_app, E. cbn [app]. apply wb_app; [apply hero_wb|apply IH].
Qed.

Definition pstack (pend : bool) (st : list bytes) : list bytes :=
  if pend then lit "td" :: lit "tr" :: lit "table" :: st else st.
Lemma run_open pend st r :
  run (pstack pend st) (seg_events Mso (open_seg pend) ++ r) = run (lit "td" :: lit "tr" :: lit "table" :: st) r.
Proof.
  destruct pend; cbn [pstack open_seg].
  - change (seg_events Mso (M [c "td"; c "tr"; c "table"; o "table"; o "tr"; o "td"])) with [ec "td"; ec "tr"; ec "table"; eo "table"; eo "tr"; eo "td"].
    cbn [app]. now rewrite !run_ec, !run_eo.
  - change (seg_events Mso (M [o "table"; o "tr"; o "td"])) with [eo "table"; eo "tr"; eo "td"]. cbn [app]. now rewrite !run_eo.
Qed.
Lemma run_pend pend st : run (pstack pend st) (events Mso (if pend then [close3] else [])) = Some st.
Proof. destruct pend; [|reflexivity]. cbn [pstack]. change (events Mso [close3]) with [ec "td"; ec "tr"; ec "table"]. now rewrite !run_ec. Qed.
Lemma blocks_mso : forall bs pend st, run (pstack pend st) (events Mso (blocks_segs pend bs)) = Some st.
Proof.
  induction bs as [|b r IH]; intros pend st.
  - apply run_pend.
  - destruct b as [s|s|ss|ss|ks|ts]; cbn [blocks_segs]; [| | |rewrite !events_app, run_app, run_pend, run_app, (fwrap_wb Mso ss); apply (IH false st)| |rewrite events_app, run_app, run_pend, events_cons, raw_run; apply (IH false st)].
    + rewrite events_cons, events_app, run_open, run_app, (sect_wb Mso s).
      destruct r as [|b' r']; [change (events Mso [close3]) with [ec "td"; ec "tr"; ec "table"]; now rewrite !run_ec|].
      destruct (continues b' && negb (fst s)).
      * apply (IH true st).
      * rewrite events_cons. change (seg_events Mso close3) with [ec "td"; ec "tr"; ec "table"]. cbn [app]. rewrite !run_ec. apply (IH false st).
    + rewrite !events_app, run_app, run_pend, run_app, (fw_wb Mso s). apply (IH false st).
    + rewrite events_cons, events_app, run_open, run_app, (wrap_wb Mso ss), events_cons.
      change (seg_events Mso close3) with [ec "td"; ec "tr"; ec "table"]. cbn [app]. rewrite !run_ec. apply (IH false st).
    + rewrite !events_app, run_app, run_pend, run_app, (hero_wb Mso ks). apply (IH false st).
Qed.

Theorem body_wb v b : wb (events v (body_segs b)).
Proof.
  unfold body_segs. rewrite events_cons, events_app.
  replace (seg_events v (P [o "div"])) with [eo "div"] by (destruct v; reflexivity).
  replace (events v [P [c "div"]]) with [ec "div"] by (destruct v; reflexivity).
  apply (wb_wrap (lit "div")). destruct v; [apply blocks_std|]. intros st. apply (blocks_mso b false st).
Qed.

(* ---- the theorem: every document of the grammar is well-formed in both readings ---------- *)
Theorem emit_body_ok v b : ok_frag v (emit_body b).
Proof. exists (events v (body_segs b)). split; [apply view_flat, body_plain|apply body_wb]. Qed.


(* ---- the character data each reading shows (C04 for the core grammar) --------------------- *)
Definition texts (es : list ev) : list bytes := flat_map (fun e => match e with EText s => [s] | _ => [] end) es.
Lemma texts_app a b : texts (a ++ b) = texts a ++ texts b.
Proof. unfold texts. apply flat_map_app. Qed.
Lemma texts_flat_map {A} (f : A -> list ev) l : texts (flat_map f l) = flat_map (fun x => texts (f x)) l.
Proof. induction l as [|x r IH]; cbn [flat_map]; [reflexivity|]. now rewrite texts_app, IH. Qed.

Definition vis (s : bytes) : list bytes := if all_space s then [] else [s].        (* what a text token shows *)
Lemma texts_te s : texts (te s) = vis s.
Proof. unfold te, vis. cbn [tok_events]. destruct (all_space s); reflexivity. Qed.

(* what each leaf shows: its author content; the spacer's generated hair space; the divider's
   generated non-breaking space only to Outlook *)
Definition raw_texts (ts : list tok) : list bytes := texts (flat_map tok_events (raw_toks ts)).   (* the author's own text *)
Definition ovis (e : option bytes) : list bytes := match e with Some s => vis s | None => [] end.
Definition leaf_texts (v : view_kind) (k : leaf) : list bytes :=
  match k, v with
  | KText s, _ | KButton s, _ | KButtonLink s, _ => vis s
  | KRaw ts, _ | KTable ts, _ => raw_texts ts
  | KSocial _ els, _ => flat_map (fun e => ovis (snd e)) els
  | KNavbar ham links, _ => (if ham then [lit "~"; lit "~"] else []) ++ flat_map vis links      (* the generated open / close icons *)
  | KAccordion els, _ => flat_map (fun e => ovis (fst e) ++ ovis (snd e)) els
  | KSpacer, _ => [lit "~"]
  | KDivider, Mso => [lit "~"]
  | _, _ => []
  end.
Definition col_texts v (cl : column) := flat_map (leaf_texts v) (snd cl).
Definition item_texts v (i : item) := match i with CI cl => col_texts v cl | RI ts => raw_texts ts end.
Definition cols_texts v (l : list item) := flat_map (item_texts v) l.
Definition mitem_texts v (i : mitem) := match i with MC cl => col_texts v cl | MR ts => raw_texts ts | MG g => cols_texts v g end.
Definition sec_texts v (s : section) :=
  match s with Cols l => cols_texts v l | Groups gs => flat_map (cols_texts v) gs | Mixed l => flat_map (mitem_texts v) l end.
Definition witem_texts v (i : witem) := match i with WS s => sec_texts v (snd s) | WR ts => raw_texts ts end.
Definition block_texts v (b : block) :=
  match b with
  | Plain s | FullWidth s => sec_texts v (snd s)
  | Wrap ws | FullWrap ws => flat_map (witem_texts v) ws
  | Hero ks => flat_map (leaf_texts v) ks
  | Raw ts => raw_texts ts
  end.
Definition body_texts v (b : body) : list bytes := flat_map (block_texts v) b.

(* structural segments show nothing *)
Definition silent (sg : seg) : Prop := forall v, texts (seg_events v sg) = [].
Lemma silent_txt v sg l : silent sg -> texts (events v (sg :: l)) = texts (events v l).
Proof. intros H. rewrite events_cons, texts_app, H. reflexivity. Qed.
Ltac sil := intros v0; destruct v0; reflexivity.

Lemma texts_cons_eo n l : texts (eo n :: l) = texts l. Proof. reflexivity. Qed.
Lemma texts_cons_ec n l : texts (ec n :: l) = texts l. Proof. reflexivity. Qed.
Ltac txs := repeat (first [rewrite texts_cons_eo | rewrite texts_cons_ec | rewrite texts_app | rewrite texts_te | progress (cbn [app])]).
Lemma sel_h_txt v e : texts (seg_events v (sel_h e)) = ovis (snd e).
Proof.
  destruct e as [l [s|]]; [|destruct v, l; reflexivity]. rewrite sel_h_some. cbn [snd ovis].
  destruct l; txs; unfold eo, ec; cbn [texts flat_map app]; now rewrite ?app_nil_r.
Qed.
Lemma sel_v_txt v e : texts (seg_events v (sel_v e)) = ovis (snd e).
Proof. destruct e as [l [s|]]; [rewrite sel_v_some; txs; unfold ec; cbn [texts flat_map snd ovis]; now rewrite app_nil_r|destruct v; reflexivity]. Qed.
Lemma nav_link_txt v x : texts (events v (nav_link x)) = vis x.
Proof.
  unfold nav_link. rewrite silent_txt by sil. rewrite events_cons, texts_app.
  replace (seg_events v (P [o "a"; tx x; c "a"])) with (eo "a" :: te x ++ [ec "a"]) by (destruct v; reflexivity).
  replace (texts (events v [M [c "td"]])) with (@nil bytes) by (destruct v; reflexivity).
  txs. unfold ec; cbn [texts flat_map]. now rewrite !app_nil_r.
Qed.
Lemma acc_el_txt v e : texts (events v (acc_el e)) = ovis (fst e) ++ ovis (snd e).
Proof.
  destruct e as [t x]. unfold acc_el. cbn [fst snd]. rewrite !silent_txt by sil. rewrite !events_app, !texts_app.
  replace (texts (events v [P [c "div"; c "label"; c "td"; c "tr"]])) with (@nil bytes) by (destruct v; reflexivity). rewrite app_nil_r. f_equal.
  - destruct t as [s|]; [|reflexivity]. rewrite events_cons, texts_app.
    replace (seg_events v (P [o "div"; o "table"; o "tbody"; o "tr"; o "td"; tx s; c "td"])) with (eo "div" :: eo "table" :: eo "tbody" :: eo "tr" :: eo "td" :: te s ++ [ec "td"]) by (destruct v; reflexivity).
    rewrite !silent_txt by sil. change (texts (events v [])) with (@nil bytes). txs. unfold ec; cbn [texts flat_map ovis]. now rewrite !app_nil_r.
  - destruct x as [s|]; [|reflexivity]. rewrite events1.
    replace (seg_events v (P [o "div"; o "table"; o "tbody"; o "tr"; o "td"; tx s; c "td"; c "tr"; c "tbody"; c "table"; c "div"]))
      with (eo "div" :: eo "table" :: eo "tbody" :: eo "tr" :: eo "td" :: te s ++ [ec "td"; ec "tr"; ec "tbody"; ec "table"; ec "div"]) by (destruct v; reflexivity).
    txs. unfold ec; cbn [texts flat_map ovis]. now rewrite !app_nil_r.
Qed.
Lemma texts_times n es : texts es = [] -> texts (List.concat (repeat es n)) = [].
Proof. intros H. induction n as [|n IH]; cbn [repeat List.concat]; [reflexivity|]. now rewrite texts_app, H, IH. Qed.
Lemma carousel_txt v thumbs m : texts (events v (leaf_segs (KCarousel thumbs m))) = leaf_texts v (KCarousel thumbs m).
Proof.
  replace (leaf_texts v (KCarousel thumbs m)) with (@nil bytes) by (destruct v; reflexivity).
  cbn [leaf_segs]. rewrite !events_cons, !texts_app. change (events v []) with (@nil ev).
  replace (texts (seg_events v (M [o "div"; o "img"; c "div"]))) with (@nil bytes) by (destruct v; reflexivity).
  destruct v; [|reflexivity]. cbn [seg_events]. change (texts []) with (@nil bytes). rewrite !app_nil_r.
  unfold carousel_toks. rewrite !flat_map_app, !times_events, !texts_app. rewrite !texts_times by reflexivity.
  destruct thumbs; [rewrite times_events, texts_times by reflexivity|]; reflexivity.
Qed.
Lemma raw_txt v ts l : texts (events v (raw_seg ts :: l)) = raw_texts ts ++ texts (events v l).
Proof. rewrite events_cons, texts_app. f_equal; destruct v; reflexivity. Qed.
Lemma leaf_txt v k : texts (events v (leaf_segs k)) = leaf_texts v k.
Proof.
  destruct k as [s| | | | |s|s|ts|ts|vert els|ham links|els|thumbs m]; try (destruct v; reflexivity).
  9: { (* carousel: images only *) apply carousel_txt. }
  5: { (* table *) cbn [leaf_segs]. rewrite silent_txt by sil. rewrite raw_txt.
       replace (texts (events v [P [c "table"]])) with (@nil bytes) by (destruct v; reflexivity). rewrite app_nil_r. destruct v; reflexivity. }
  5: { (* social *) assert (R : leaf_texts v (KSocial vert els) = flat_map (fun e => ovis (snd e)) els) by (destruct v; reflexivity). rewrite R. destruct vert.
       - cbn [leaf_segs]. rewrite silent_txt by sil. rewrite events_app, texts_app, events_map, texts_flat_map.
         replace (texts (events v [P [c "tbody"; c "table"]])) with (@nil bytes) by (destruct v; reflexivity). rewrite app_nil_r.
         apply flat_map_ext. intros e. apply sel_v_txt.
       - destruct els as [|e1 r]; [destruct v; reflexivity|]. cbn [leaf_segs flat_map]. rewrite silent_txt by sil.
         rewrite events_cons, events_app, !texts_app, sel_h_txt. f_equal.
         replace (texts (events v [M [c "td"; c "tr"; c "table"]])) with (@nil bytes) by (destruct v; reflexivity). rewrite app_nil_r.
         rewrite events_flat_map, texts_flat_map. apply flat_map_ext. intros e. rewrite silent_txt by sil. rewrite events1. apply sel_h_txt. }
  5: { (* navbar *) assert (R : leaf_texts v (KNavbar ham links) = (if ham then [lit "~"; lit "~"] else []) ++ flat_map vis links) by (destruct v; reflexivity). rewrite R.
       cbn [leaf_segs]. rewrite events_app, texts_app. f_equal; [destruct ham, v; reflexivity|].
       rewrite !silent_txt by sil. rewrite events_app, texts_app, events_flat_map, texts_flat_map.
       replace (texts (events v [M [c "tr"; c "table"]; P [c "div"]])) with (@nil bytes) by (destruct v; reflexivity). rewrite app_nil_r.
       apply flat_map_ext. intros x. apply nav_link_txt. }
  5: { (* accordion *) assert (R : leaf_texts v (KAccordion els) = flat_map (fun e => ovis (fst e) ++ ovis (snd e)) els) by (destruct v; reflexivity). rewrite R.
       cbn [leaf_segs]. rewrite silent_txt by sil. rewrite events_app, texts_app, events_flat_map, texts_flat_map.
       replace (texts (events v [P [c "tbody"; c "table"]])) with (@nil bytes) by (destruct v; reflexivity). rewrite app_nil_r.
       apply flat_map_ext. intros e. apply acc_el_txt. }
  - assert (E : events v (leaf_segs (KText s)) = eo "div" :: te s ++ [ec "div"])
      by (unfold events; cbn [leaf_segs flat_map]; rewrite app_nil_r; destruct v; reflexivity).
    rewrite E. change (eo "div" :: te s ++ [ec "div"]) with ([eo "div"] ++ te s ++ [ec "div"]).
    rewrite !texts_app, texts_te. unfold eo, ec; cbn [texts flat_map app]; rewrite ?app_nil_r; destruct v; reflexivity.
  - assert (E : events v (leaf_segs (KButton s)) = [eo "table"; eo "tbody"; eo "tr"; eo "td"; eo "p"] ++ te s ++ [ec "p"; ec "td"; ec "tr"; ec "tbody"; ec "table"])
      by (unfold events; cbn [leaf_segs flat_map]; rewrite app_nil_r; destruct v; reflexivity).
    rewrite E, !texts_app, texts_te. unfold eo, ec; cbn [texts flat_map app]; rewrite ?app_nil_r; destruct v; reflexivity.
  - assert (E : events v (leaf_segs (KButtonLink s)) = [eo "table"; eo "tbody"; eo "tr"; eo "td"; eo "a"] ++ te s ++ [ec "a"; ec "td"; ec "tr"; ec "tbody"; ec "table"])
      by (unfold events; cbn [leaf_segs flat_map]; rewrite app_nil_r; destruct v; reflexivity).
    rewrite E, !texts_app, texts_te. unfold eo, ec; cbn [texts flat_map app]; rewrite ?app_nil_r; destruct v; reflexivity.
  - cbn [leaf_segs]. rewrite raw_txt. cbn [events flat_map texts]. rewrite app_nil_r. destruct v; reflexivity.
Qed.
Lemma row_txt v k : texts (events v (row_segs k)) = leaf_texts v k.
Proof.
  assert (G : texts (events v (P [o "tr"; o "td"] :: leaf_segs k ++ [P [c "td"; c "tr"]])) = leaf_texts v k).
  { rewrite events_cons, events_app, !texts_app, leaf_txt.
    replace (texts (seg_events v (P [o "tr"; o "td"]))) with (@nil bytes) by (destruct v; reflexivity).
    replace (texts (events v [P [c "td"; c "tr"]])) with (@nil bytes) by (destruct v; reflexivity). cbn [app]. now rewrite app_nil_r. }
  destruct k; try exact G. exact (leaf_txt v (KRaw ts)).
Qed.
Lemma rows_txt v ks : texts (flat_map (fun k => events v (row_segs k)) ks) = flat_map (leaf_texts v) ks.
Proof. rewrite texts_flat_map. apply flat_map_ext. intros k. apply row_txt. Qed.
Lemma col_txt v ks : texts (events v (col_segs ks)) = col_texts v ks.
Proof.
  rewrite col_events. destruct ks as [g ks]. unfold col_texts. destruct g; cbn [fst snd].
  - change (eo "div" :: eo "table" :: eo "tbody" :: eo "tr" :: eo "td" :: eo "table" :: eo "tbody" :: ?x)
      with ([eo "div"; eo "table"; eo "tbody"; eo "tr"; eo "td"; eo "table"; eo "tbody"] ++ x).
    rewrite !texts_app, rows_txt. unfold eo, ec; cbn [texts flat_map app]; now rewrite ?app_nil_r.
  - change (eo "div" :: eo "table" :: eo "tbody" :: ?x) with ([eo "div"; eo "table"; eo "tbody"] ++ x).
    rewrite !texts_app, rows_txt. unfold eo, ec; cbn [texts flat_map app]; now rewrite ?app_nil_r.
Qed.
Lemma items_txt v : forall l opened, texts (events v (items_segs opened l)) = cols_texts v l.
Proof.
  induction l as [|i r IH]; intros opened; [destruct opened, v; reflexivity|].
  destruct i as [cl|ts]; cbn [items_segs cols_texts flat_map item_texts].
  - rewrite silent_txt by (destruct opened; sil). rewrite events_app, texts_app, col_txt. f_equal. apply IH.
  - rewrite raw_txt. f_equal. apply IH.
Qed.
Lemma raws_only_txt v : forall l, has_col l = false -> texts (events v (raws_only l)) = cols_texts v l.
Proof.
  induction l as [|i r IH]; intros H; [reflexivity|]. destruct i as [cl|ts]; cbn [has_col existsb is_col orb] in H; [discriminate|].
  unfold raws_only. cbn [flat_map]. change (flat_map (fun i => match i with RI ts0 => [raw_seg ts0] | CI _ => [] end) r) with (raws_only r).
  cbn [app cols_texts flat_map item_texts]. rewrite raw_txt. f_equal. now apply IH.
Qed.
Lemma cols_txt v l : texts (events v (cols_segs l)) = cols_texts v l.
Proof.
  unfold cols_segs. destruct (has_col l) eqn:H; [apply items_txt|].
  rewrite silent_txt by sil. rewrite events_app, texts_app, (raws_only_txt v l H).
  replace (texts (events v [M [c "tr"; c "table"]])) with (@nil bytes) by (destruct v; reflexivity). now rewrite app_nil_r.
Qed.
Lemma split_trail_app : forall l, fst (split_trail l) ++ snd (split_trail l) = l.
Proof.
  induction l as [|i r IH]; [reflexivity|]. cbn [split_trail]. destruct (split_trail r) as [f t]. cbn [fst snd] in IH.
  destruct f as [|x f']; destruct i as [cl|ts]; cbn [fst snd app] in *; subst r; reflexivity.
Qed.
Lemma split_trail_raws : forall l, has_col (snd (split_trail l)) = false.
Proof.
  induction l as [|i r IH]; [reflexivity|]. cbn [split_trail]. destruct (split_trail r) as [f t]. cbn [fst snd] in IH.
  destruct f as [|x f']; destruct i as [cl|ts]; cbn [fst snd]; try exact IH; cbn [has_col existsb is_col orb]; exact IH.
Qed.
Lemma cols_texts_app v a b : cols_texts v (a ++ b) = cols_texts v a ++ cols_texts v b.
Proof. unfold cols_texts. apply flat_map_app. Qed.
Lemma group_txt v l : texts (events v (group_segs l)) = cols_texts v l.
Proof.
  unfold group_segs. rewrite !silent_txt by sil. rewrite events_app, texts_app.
  replace (texts (events v [P [c "div"]; M [c "td"; c "tr"; c "table"]])) with (@nil bytes) by (destruct v; reflexivity).
  rewrite app_nil_r. unfold group_inner. destruct (has_col l) eqn:H; [|now apply raws_only_txt].
  rewrite events_app, texts_app, items_txt, (raws_only_txt v _ (split_trail_raws l)), <- cols_texts_app, split_trail_app. reflexivity.
Qed.
Lemma mitems_txt v : forall l opened, texts (events v (mitems_segs opened l)) = flat_map (mitem_texts v) l.
Proof.
  induction l as [|i r IH]; intros opened; [destruct opened, v; reflexivity|].
  destruct i as [cl|ts|g]; cbn [mitems_segs flat_map mitem_texts].
  - rewrite silent_txt by (destruct opened; sil). rewrite events_app, texts_app, col_txt. f_equal. apply IH.
  - rewrite raw_txt. f_equal. apply IH.
  - rewrite events_app, texts_app, group_txt. f_equal. apply IH.
Qed.
Lemma mitem_alone_txt v i : texts (events v (mitem_alone i)) = mitem_texts v i.
Proof.
  destruct i as [cl|ts|g]; cbn [mitem_alone mitem_texts].
  - rewrite silent_txt by sil. rewrite events_app, texts_app, col_txt.
    replace (texts (events v [M [c "td"; c "tr"; c "table"]])) with (@nil bytes) by (destruct v; reflexivity). now rewrite app_nil_r.
  - rewrite raw_txt. cbn [events flat_map texts]. now rewrite app_nil_r.
  - apply group_txt.
Qed.
Lemma mixed_txt v l : texts (events v (mixed_segs l)) = flat_map (mitem_texts v) l.
Proof.
  unfold mixed_segs. destruct l as [|i r]; [destruct v; reflexivity|].
  destruct (_ || _); [destruct (existsb is_mcol (i :: r)); [apply mitems_txt|]|].
  - rewrite silent_txt by sil. rewrite events_app, texts_app, events_flat_map, texts_flat_map.
    replace (texts (events v [M [c "tr"; c "table"]])) with (@nil bytes) by (destruct v; reflexivity). rewrite app_nil_r.
    apply flat_map_ext. intros x. apply mitem_alone_txt.
  - rewrite events_flat_map, texts_flat_map. apply flat_map_ext. intros x. apply mitem_alone_txt.
Qed.
Lemma children_txt v s : texts (events v (children_segs s)) = sec_texts v s.
Proof.
  destruct s as [cs|gs|ms]; cbn [children_segs sec_texts]; [apply cols_txt| |apply mixed_txt].
  destruct gs as [|g gs]; [destruct v; reflexivity|].
  rewrite events_flat_map, texts_flat_map. apply flat_map_ext. intros x. apply group_txt.
Qed.
Lemma sec_txt v s : texts (events v (sec_segs s)) = sec_texts v s.
Proof.
  rewrite sec_events. change (eo "div" :: eo "table" :: eo "tbody" :: eo "tr" :: eo "td" :: ?x) with ([eo "div"; eo "table"; eo "tbody"; eo "tr"; eo "td"] ++ x).
  rewrite !texts_app, children_txt. unfold eo, ec; cbn [texts flat_map app]; now rewrite ?app_nil_r.
Qed.
Lemma sect_txt v s : texts (events v (sect_segs s)) = sec_texts v (snd s).
Proof.
  destruct s as [bg s]. unfold sect_segs. destruct bg; cbn [fst snd]; [|apply sec_txt].
  rewrite !silent_txt by sil. rewrite events_app, texts_app, sec_txt.
  replace (texts (events v [P [c "div"]; vml_close])) with (@nil bytes) by (destruct v; reflexivity). now rewrite app_nil_r.
Qed.
Lemma witems_txt v : forall l used, texts (events v (witems_segs used l)) = flat_map (witem_texts v) l.
Proof.
  induction l as [|i r IH]; intros used; [destruct v; reflexivity|].
  destruct i as [s|ts]; cbn [witems_segs flat_map witem_texts].
  - rewrite !events_app, !texts_app, sect_txt.
    replace (texts (events v (if used then [M (close5 ++ open5)] else []))) with (@nil bytes) by (destruct used, v; reflexivity).
    cbn [app]. f_equal. apply IH.
  - rewrite silent_txt by sil. rewrite raw_txt. f_equal. rewrite silent_txt by sil. apply IH.
Qed.
Lemma wrap_txt v ss : texts (events v (wrap_segs ss)) = flat_map (witem_texts v) ss.
Proof.
  unfold wrap_segs. rewrite silent_txt by sil. rewrite events_app, texts_app.
  replace (texts (events v [P [c "td"; c "tr"; c "tbody"; c "table"; c "div"]])) with (@nil bytes) by (destruct v; reflexivity).
  rewrite app_nil_r. destruct ss as [|s1 rest]; [destruct v; reflexivity|].
  unfold wrap_inner. rewrite silent_txt by sil. apply witems_txt.
Qed.
Lemma fw_txt v s : texts (events v (fw_segs s)) = sec_texts v (snd s).
Proof.
  destruct s as [bg s]. unfold fw_segs. destruct bg; cbn [fst snd]; rewrite !silent_txt by sil; rewrite events_app, texts_app, sec_txt.
  - replace (texts (events v [P [c "div"]; close3; vml_close; P [c "td"; c "tr"; c "tbody"; c "table"]])) with (@nil bytes) by (destruct v; reflexivity).
    now rewrite app_nil_r.
  - replace (texts (events v [close3; P [c "td"; c "tr"; c "tbody"; c "table"]])) with (@nil bytes) by (destruct v; reflexivity).
    now rewrite app_nil_r.
Qed.
Lemma fwrap_txt v ws : texts (events v (fwrap_segs ws)) = flat_map (witem_texts v) ws.
Proof.
  unfold fwrap_segs. rewrite !silent_txt by sil. rewrite events_app, texts_app, wrap_txt.
  replace (texts (events v [close3; P [c "td"; c "tr"; c "tbody"; c "table"]])) with (@nil bytes) by (destruct v; reflexivity). now rewrite app_nil_r.
Qed.
Lemma hero_txt v ks : texts (events v (hero_segs ks)) = flat_map (leaf_texts v) ks.
Proof.
  unfold hero_segs. rewrite !silent_txt by sil. rewrite events_app, texts_app, events_flat_map, rows_txt.
  replace (texts (events v [P [c "tbody"; c "table"; c "td"; c "tr"; c "tbody"; c "table"; c "div"]; close3; P [c "td"; c "tr"; c "tbody"; c "table"; c "div"]; close3]))
    with (@nil bytes) by (destruct v; reflexivity).
  now rewrite app_nil_r.
Qed.
Lemma open_silent pend : silent (open_seg pend). Proof. destruct pend; sil. Qed.
Lemma pend_txt v (pend : bool) : texts (events v (if pend then [close3] else [])) = []. Proof. destruct pend, v; reflexivity. Qed.
Lemma blocks_txt v : forall bs pend, texts (events v (blocks_segs pend bs)) = body_texts v bs.
Proof.
  induction bs as [|b r IH]; intros pend; [destruct pend, v; reflexivity|].
  destruct b as [s|s|ss|ss|ks|ts]; cbn [blocks_segs body_texts flat_map block_texts].
  - rewrite silent_txt by apply open_silent. rewrite events_app, texts_app, sect_txt. f_equal.
    destruct r as [|b' r']; [destruct v; reflexivity|]. destruct (continues b' && negb (fst s)); [apply IH|].
    rewrite silent_txt by sil. apply IH.
  - rewrite !events_app, !texts_app, pend_txt, fw_txt. cbn [app]. f_equal. apply IH.
  - rewrite silent_txt by apply open_silent. rewrite events_app, texts_app, wrap_txt. f_equal.
    rewrite silent_txt by sil. apply IH.
  - rewrite !events_app, !texts_app, pend_txt, fwrap_txt. cbn [app]. f_equal. apply IH.
  - rewrite !events_app, !texts_app, pend_txt, hero_txt. cbn [app]. f_equal. apply IH.
  - rewrite events_app, texts_app, pend_txt. cbn [app]. rewrite raw_txt. f_equal. apply IH.
Qed.

(* Every document of the grammar: a standard client shows exactly the author's content of the text
   and button leaves (plus the spacers' generated hair spaces), each once, in document order; Outlook
   shows the same plus the dividers' generated spaces - nothing is visible to Outlook only. *)
Theorem emit_body_texts v b : view_texts v (emit_body b) = Some (body_texts v b).
Proof.
  unfold view_texts, emit_body. rewrite (view_flat v _ (body_plain b)). f_equal.
  change (texts (events v (body_segs b)) = body_texts v b).
  unfold body_segs. rewrite silent_txt by sil. rewrite events_app, texts_app, blocks_txt.
  replace (texts (events v [P [c "div"]])) with (@nil bytes) by (destruct v; reflexivity). now rewrite app_nil_r.
Qed.

(* ---- interface of the correspondence check ----------------------------------------------- *)
(* what remains of a real output when attributes, text and white space are erased *)
Definition erase_tok (t : tok) : list tok :=
  match t with
  | TOpen n _ sc => [TOpen n [] (sc && negb (is_void n))]      (* "<v:fill ... />" stays self-closed; "<img ... />" is void anyway *)
  | TClose n => [TClose n]
  | TText s => if all_space s then [] else [txt]
  | TMsoOpen _ => [TMsoOpen cond]
  | TNotMsoOpen _ => [TNotMsoOpen ncond]
  | other => [other]
  end.
(* adjacent pieces of character data are one piece to a reader (and to the lexer) *)
Fixpoint merge_txt (ts : list tok) : list tok :=
  match ts with
  | TText a :: r => match merge_txt r with TText _ :: r' => TText a :: r' | r' => TText a :: r' end
  | t :: r => t :: merge_txt r
  | [] => []
  end.
Definition erase (ts : list tok) : list tok := merge_txt (flat_map erase_tok ts).

Fixpoint drop_to_body (ts : list tok) : list tok :=
  match ts with
  | [] => []
  | TOpen n _ _ :: r => if bytes_eqb n (lit "body") then r else drop_to_body r
  | _ :: r => drop_to_body r
  end.
Fixpoint take_to_body_end (ts : list tok) : list tok :=
  match ts with
  | [] => []
  | TClose n :: r => if bytes_eqb n (lit "body") then [] else TClose n :: take_to_body_end r
  | t :: r => t :: take_to_body_end r
  end.
Definition body_tokens (ts : list tok) : list tok := take_to_body_end (drop_to_body ts).

Fixpoint toks_diff (i : nat) (a b : list tok) : option nat :=
  match a, b with
  | [], [] => None
  | x :: a', y :: b' => if tok_eqb x y then toks_diff (S i) a' b' else Some i
  | _, _ => Some i
  end.
(* How the Outlook-only markup is cut into conditional comments is invisible to both readings:
   "<![endif]--><!--[if mso | IE]>" in the middle of an Outlook block changes nothing.  The
   implementation sometimes writes two adjacent conditionals where the model writes one (and vice
   versa), so streams are compared after removing such seams. *)
Fixpoint squash (ts : list tok) : list tok :=
  match ts with
  | [] => []
  | TMsoEnd :: r => match squash r with TMsoOpen _ :: r' => r' | r' => TMsoEnd :: r' end
  | t :: r => t :: squash r
  end.

Lemma view_msoend v l : view v InMso (TMsoEnd :: l) = match view v Closed l with Some (e, s) => Some ([] ++ e, s) | None => None end.
Proof. reflexivity. Qed.
Lemma view_squash v : forall ts st x, view v st ts = Some x -> view v st (squash ts) = Some x.
Proof.
  induction ts as [|t r IH]; intros st x H; [exact H|].
  assert (G : forall t', t' = t -> (match t' with TMsoEnd => False | _ => True end) ->
              view v st (t :: squash r) = Some x).
  { intros t' E _. cbn [view] in *. destruct (vstep v st t) as [[e st1]|]; [|discriminate].
    destruct (view v st1 r) as [[e' st2]|] eqn:V; [|discriminate]. rewrite (IH st1 _ V). exact H. }
  destruct t; try (apply (G _ eq_refl I)).
  (* t = TMsoEnd *)
  cbn [squash]. destruct st; cbn [view vstep] in H; try discriminate.
  destruct (view v Closed r) as [[e' st2]|] eqn:V; [|discriminate]. pose proof (IH Closed _ V) as V'.
  destruct (squash r) as [|t' r'] eqn:Sq.
  - cbn [view vstep app]. cbn [view] in V'. cbn [app] in H. rewrite V'. exact H.
  - destruct t'; try (rewrite view_msoend, V'; exact H).
    (* squash r = TMsoOpen cond :: r' : both comment markers disappear *)
    cbn [view vstep] in V'. revert V'. destruct (view v InMso r') as [[e'' st3]|]; intros V'; [|discriminate].
    cbn [app] in V', H. rewrite V'. exact H.
Qed.
Theorem squash_ok v ts : ok_frag v ts -> ok_frag v (squash ts).
Proof. intros [es [H W]]. exists es. split; [now apply view_squash|exact W]. Qed.

(* None = the erased body of the real output IS the model's emission for that document (up to the
   cutting of Outlook-only markup into conditionals) *)
Definition skel_diff (b : body) (html : bytes) : option nat :=
  toks_diff 1 (squash (erase (emit_body b))) (squash (erase (body_tokens (lex html)))).
Definition skel_mismatches (cases : list (nat * body * bytes)) : list (nat * nat) :=
  flat_map (fun x => match x with (i, b, h) => match skel_diff b h with None => [] | Some k => [(i, k)] end end) cases.

(* the text the implementation's output shows, with generated text (anything that is not an "S...X" sentinel) mapped to "~" *)
Definition norm_gen (s : bytes) : bytes := if prefix (lit "S") s then s else lit "~".
Fixpoint list_bytes_eqb (a b : list bytes) : bool :=
  match a, b with [], [] => true | x :: a', y :: b' => bytes_eqb x y && list_bytes_eqb a' b' | _, _ => false end.
Definition texts_agree (v : view_kind) (b : body) (html : bytes) : bool :=
  match view_texts v (body_tokens (lex html)) with
  | Some l => bytes_eqb (List.concat (map norm_gen l)) (List.concat (body_texts v b))     (* adjacent texts read as one *)
  | None => false
  end.
Definition text_mismatches (cases : list (nat * body * bytes)) : list nat :=
  flat_map (fun x => match x with (i, b, h) => if texts_agree Std b h && texts_agree Mso b h then [] else [i] end) cases.

Example emit_nonvacuous :
  let r := [o "i"; tx (lit "S9X"); c "i"] in
  let b := [Plain (false, Cols [RI r; CI (false, [KText (lit "S1X"); KDivider; KRaw r]); CI (true, [KButtonLink (lit "S2X")]); RI r]);
            Raw r; Plain (true, Groups [[CI (false, [KImage]); RI r; CI (false, [])]; []]); FullWidth (false, Cols []); FullWidth (true, Cols [CI (true, [])]);
            Wrap [WR r; WS (false, Cols [CI (false, [KSpacer])]); WS (true, Cols [CI (false, [KImageLink]); CI (false, [KButton (lit "S3X")])]); WR r];
            Hero [KText (lit "S4X"); KButton (lit "S5X")]; Plain (false, Cols [CI (false, [KText (lit "S6X")])]); Wrap []; Plain (false, Cols [RI r])] in
  check_views (emit_body b) = true /\ no_vml_outside Closed (emit_body b) = true /\
  view_texts Std (emit_body b) = Some [lit "S9X"; lit "S1X"; lit "S9X"; lit "S2X"; lit "S9X"; lit "S9X"; lit "S9X"; lit "S9X"; lit "~"; lit "S3X"; lit "S9X"; lit "S4X"; lit "S5X"; lit "S6X"; lit "S9X"] /\
  raw_toks [o "b"] = [] /\ raw_toks [TMsoEnd] = [].
Proof. vm_compute. repeat split; reflexivity. Qed.
