(* Sequential model of the AST cache: mjml/render.go (SetASTCacheTTLOnce,
   SetASTCacheCleanupIntervalOnce, parseAST, startASTCacheCleanup, the sweep loop,
   StopASTCacheCleanup), as it stands after the fix commits
   "do not panic when the AST cache cleanup interval is not positive" and
   "SetASTCacheTTLOnce no longer consumes the cleanup interval's once".

   Time is an integer number of nanoseconds (time.Duration / UnixNano are int64; the
   model uses unbounded Z, overflow of int64 is outside the model).
   Definitions only; proofs are in Cache/Proofs.v. *)
From Coq Require Import List ZArith Bool.
Import ListNotations.
Open Scope Z_scope.

Section Cache.
  Variables (doc ast err : Type).
  Variable hash : doc -> Z.             (* hashTemplate: seeded 64-bit maphash *)
  Variable parse : doc -> ast + err.    (* ParseMJML *)

  (* cachedAST; [stored] is a ghost field (time of the Store call), not observable *)
  Record entry := { node : ast ; expires : Z ; stored : Z }.
  (* a running cleanup goroutine: when its ticker was created and its period *)
  Record cleaner := { started : Z ; every : Z }.

  Record state := {
    cache : list (Z * entry) ;   (* astCache : sync.Map *)
    ttl : Z ;                    (* astCacheTTL *)
    interval : Z ;               (* astCacheCleanupInterval *)
    ttl_once : bool ;            (* astCacheTTLOnce fired *)
    int_once : bool ;            (* astCacheCleanupOnce fired = astCacheCleanupExplicit *)
    cl : option cleaner ;        (* cleanupCancel <> nil *)
    now : Z                      (* wall clock *)
  }.

  Definition minute := 60000000000.
  Definition default_ttl := 5 * minute.
  Definition default_interval := 150000000000.   (* defaultASTCacheCleanupInterval = 150 s *)

  Definition init (t0 : Z) : state :=
    {| cache := [] ; ttl := default_ttl ; interval := Z.quot default_ttl 2 ;
       ttl_once := false ; int_once := false ; cl := None ; now := t0 |}.

  Inductive op :=
  | Render (d : doc) (cached : bool)    (* mjml.Render(d [, WithCache()]) *)
  | Advance (dt : Z)                    (* dt nanoseconds pass; the ticker fires when due *)
  | Tick                                (* one sweep at the current instant (cleaner running) *)
  | SetTTL (d : Z)                      (* SetASTCacheTTLOnce *)
  | SetInterval (d : Z)                 (* SetASTCacheCleanupIntervalOnce *)
  | Stop.                               (* StopASTCacheCleanup *)

  (* what a compilation got from parseAST; [parsed] = ParseMJML was called by this call *)
  Inductive out := OAst (a : ast) (parsed : bool) | OErr (e : err) | ONone.

  Fixpoint lookup (k : Z) (m : list (Z * entry)) : option entry :=
    match m with [] => None | (k', e) :: r => if Z.eqb k k' then Some e else lookup k r end.
  Definition remove (k : Z) (m : list (Z * entry)) := filter (fun p => negb (Z.eqb k (fst p))) m.
  Definition insert (k : Z) (e : entry) (m : list (Z * entry)) := (k, e) :: remove k m.
  (* the sweep deletes entries with now.After(expires), i.e. expires < now *)
  Definition sweep (t : Z) (m : list (Z * entry)) := filter (fun p => negb (Z.ltb (expires (snd p)) t)) m.

  Definition with_cache (s : state) (c : list (Z * entry)) : state :=
    {| cache := c ; ttl := ttl s ; interval := interval s ; ttl_once := ttl_once s ;
       int_once := int_once s ; cl := cl s ; now := now s |}.
  Definition with_cl (s : state) (c : option cleaner) : state :=
    {| cache := cache s ; ttl := ttl s ; interval := interval s ; ttl_once := ttl_once s ;
       int_once := int_once s ; cl := c ; now := now s |}.
  Definition with_now (s : state) (t : Z) : state :=
    {| cache := cache s ; ttl := ttl s ; interval := interval s ; ttl_once := ttl_once s ;
       int_once := int_once s ; cl := cl s ; now := t |}.

  (* interval actually given to time.NewTicker (fix: non-positive -> default) *)
  Definition eff_interval (i : Z) : Z := if i <=? 0 then default_interval else i.

  (* startASTCacheCleanup *)
  Definition start (s : state) : state :=
    match cl s with
    | Some _ => s
    | None => with_cl s (Some {| started := now s ; every := eff_interval (interval s) |})
    end.

  (* time of the last tick at or before t (ticks at started + k*every, k >= 1); None if none yet *)
  Definition last_tick (c : cleaner) (t : Z) : option Z :=
    let k := (t - started c) / every c in
    if (1 <=? k) && (0 <? every c) then Some (started c + k * every c) else None.

  Definition store (s : state) (k : Z) (a : ast) : state :=
    with_cache s (insert k {| node := a ; expires := now s + ttl s ; stored := now s |} (cache s)).

  Definition step (s : state) (o : op) : state * out :=
    match o with
    | Render d false =>
        (s, match parse d with inl a => OAst a true | inr e => OErr e end)
    | Render d true =>
        let s1 := start s in
        let k := hash d in
        match lookup k (cache s1) with
        | Some e =>
            if now s1 <? expires e then (s1, OAst (node e) false)
            else let s2 := with_cache s1 (remove k (cache s1)) in
                 match parse d with
                 | inl a => (store s2 k a, OAst a true)
                 | inr e' => (s2, OErr e')
                 end
        | None =>
            match parse d with
            | inl a => (store s1 k a, OAst a true)
            | inr e' => (s1, OErr e')
            end
        end
    | Advance dt =>
        let t' := now s + Z.max 0 dt in
        let s' := with_now s t' in
        match cl s with
        | Some c =>
            match last_tick c t' with
            | Some tl => if now s <? tl then (with_cache s' (sweep tl (cache s)), ONone) else (s', ONone)
            | None => (s', ONone)
            end
        | None => (s', ONone)
        end
    | Tick => match cl s with Some _ => (with_cache s (sweep (now s) (cache s)), ONone) | None => (s, ONone) end
    | SetTTL d =>
        if ttl_once s then (s, ONone)
        else ({| cache := cache s ; ttl := d ; interval := if int_once s then interval s else Z.quot d 2 ;
                 ttl_once := true ; int_once := int_once s ; cl := cl s ; now := now s |}, ONone)
    | SetInterval d =>
        if int_once s then (s, ONone)
        else ({| cache := cache s ; ttl := ttl s ; interval := d ; ttl_once := ttl_once s ;
                 int_once := true ; cl := cl s ; now := now s |}, ONone)
    | Stop => (with_cl s None, ONone)
    end.

  (* run a history, collecting the outputs *)
  Fixpoint run (s : state) (h : list op) : list out :=
    match h with [] => [] | o :: r => let (s', x) := step s o in x :: run s' r end.
  Definition exec (s : state) (h : list op) : state := fold_left (fun s o => fst (step s o)) h s.

  (* what an uncached compilation obtains *)
  Definition uncached (d : doc) : ast + err := parse d.
  Definition agrees (x : out) (r : ast + err) : Prop :=
    match x, r with OAst a _, inl a' => a = a' | OErr e, inr e' => e = e' | _, _ => False end.

  Fixpoint docs (h : list op) : list doc :=
    match h with [] => [] | Render d _ :: r => d :: docs r | _ :: r => docs r end.
  Definition hash_inj_on (ds : list doc) : Prop :=
    forall d d', In d ds -> In d' ds -> hash d = hash d' -> d = d'.

  Definition render_ok (o : op) (x : out) : Prop :=
    match o with Render d _ => agrees x (uncached d) | _ => True end.

  Fixpoint all_ok (s : state) (h : list op) : Prop :=
    match h with
    | [] => True
    | o :: r => render_ok o (snd (step s o)) /\ all_ok (fst (step s o)) r
    end.

  (* observation used by the correspondence check *)
  Definition keys (s : state) : list Z := map fst (cache s).
  Definition running (s : state) : bool := match cl s with Some _ => true | None => false end.
End Cache.

Arguments Render {doc}. Arguments Advance {doc}. Arguments Tick {doc}. Arguments SetTTL {doc}.
Arguments SetInterval {doc}. Arguments Stop {doc}.
Arguments OAst {ast err}. Arguments OErr {ast err}. Arguments ONone {ast err}.
