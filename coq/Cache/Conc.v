(* Interleaving semantics of the cached parse path (mjml/render.go: parseAST, singleflightDo)
   for any number of goroutines and any schedule.  One step = the code between two verifYield
   points; every mutex-protected region lies inside one step (the yield points are outside all
   critical sections, and sfCalls / the cache are only touched under sfMutex / through sync.Map:
   recomputed fact C07_lockset_drf), so steps are atomic.

     PLoad    verifYield("cache.load")  astCache.Load; hit -> return | expired -> PDel | miss -> PSf
     PDel     verifYield("cache.del")   astCache.Delete
     PSf      verifYield("sf.lookup")   lock; found -> PWait c | register fresh c -> PParse c; unlock
     PWait c  verifYield("sf.wait")     c.wg.Wait()  (enabled iff c.wg = 0); read c.res, c.err
     PParse c verifYield("sf.parse")    ParseMJML; ok -> PStore | error -> set c.res/c.err -> PDone
     PStore   verifYield("cache.store") astCache.Store; return from fn; set c.res/c.err -> PDone
     PDone c  verifYield("sf.done")     c.wg.Done()
     PUnreg c verifYield("sf.unreg")    lock; delete(sfCalls, hash); unlock; return *)
From Coq Require Import List Arith Bool Lia PeanoNat.
Import ListNotations.

Definition key := nat.
Definition cid := nat.                 (* identity of an sfCall record *)
Definition result := option nat.       (* Some ast | None = parse error *)

Inductive pc :=
| PIdle
| PLoad
| PDel
| PSf
| PWait (c : cid)
| PParse (c : cid)
| PStore (c : cid) (a : nat)
| PDone (c : cid)
| PUnreg (c : cid)
| PRet (r : result) (parsed : bool).

Record thread := { tkey : key ; tpc : pc ; tfn : result (* what ParseMJML returns for this thread's template *) }.
(* sfCall: wg counter (pending = 1), result cell, and a ghost: the result its leader's fn() yields *)
Record call := { pending : bool ; cres : option result ; cfn : result }.
(* cache entry: node and whether it is expired at the (fixed) instant of this schedule *)
Record centry := { enode : nat ; expired : bool }.

Record cfg := { th : nat -> thread ; sfc : key -> option cid ; calls : cid -> call ; next : cid ;
                cache : key -> option centry }.

Definition upd {A} (f : nat -> A) (i : nat) (x : A) : nat -> A := fun j => if Nat.eqb j i then x else f j.
Lemma upd_same {A} (f : nat -> A) i x : upd f i x i = x.
Proof. unfold upd. now rewrite Nat.eqb_refl. Qed.
Lemma upd_other {A} (f : nat -> A) i j x : j <> i -> upd f i x j = f j.
Proof. unfold upd. intros H. apply Nat.eqb_neq in H. now rewrite H. Qed.

Definition setpc (t : thread) (p : pc) := {| tkey := tkey t ; tpc := p ; tfn := tfn t |}.
Definition with_th (c : cfg) (i : nat) (p : pc) : cfg :=
  {| th := upd (th c) i (setpc (th c i) p) ; sfc := sfc c ; calls := calls c ; next := next c ; cache := cache c |}.

Definition step (c : cfg) (i : nat) : option cfg :=
  let t := th c i in
  match tpc t with
  | PIdle | PRet _ _ => None
  | PLoad =>
      match cache c (tkey t) with
      | Some e => if expired e then Some (with_th c i PDel) else Some (with_th c i (PRet (Some (enode e)) false))
      | None => Some (with_th c i PSf)
      end
  | PDel =>
      Some {| th := upd (th c) i (setpc t PSf) ; sfc := sfc c ; calls := calls c ; next := next c ;
              cache := upd (cache c) (tkey t) None |}
  | PSf =>
    match sfc c (tkey t) with
    | Some id => Some (with_th c i (PWait id))
    | None =>
      let id := next c in
      Some {| th := upd (th c) i (setpc t (PParse id)) ;
              sfc := upd (sfc c) (tkey t) (Some id) ;
              calls := upd (calls c) id {| pending := true ; cres := None ; cfn := tfn t |} ;
              next := S id ; cache := cache c |}
    end
  | PWait id =>
    if pending (calls c id) then None
    else match cres (calls c id) with
         | Some r => Some (with_th c i (PRet r false))
         | None => None
         end
  | PParse id =>
      match tfn t with
      | Some a => Some (with_th c i (PStore id a))
      | None => Some {| th := upd (th c) i (setpc t (PDone id)) ; sfc := sfc c ;
                        calls := upd (calls c) id {| pending := pending (calls c id) ; cres := Some None ; cfn := cfn (calls c id) |} ;
                        next := next c ; cache := cache c |}
      end
  | PStore id a =>
      Some {| th := upd (th c) i (setpc t (PDone id)) ; sfc := sfc c ;
              calls := upd (calls c) id {| pending := pending (calls c id) ; cres := Some (Some a) ; cfn := cfn (calls c id) |} ;
              next := next c ; cache := upd (cache c) (tkey t) (Some {| enode := a ; expired := false |}) |}
  | PDone id =>
    Some {| th := upd (th c) i (setpc t (PUnreg id)) ; sfc := sfc c ;
            calls := upd (calls c) id {| pending := false ; cres := cres (calls c id) ; cfn := cfn (calls c id) |} ;
            next := next c ; cache := cache c |}
  | PUnreg id =>
    match cres (calls c id) with
    | Some r => Some {| th := upd (th c) i (setpc t (PRet r true)) ; sfc := upd (sfc c) (tkey t) None ;
                        calls := calls c ; next := next c ; cache := cache c |}
    | None => None
    end
  end.

(* run a schedule; a scheduled thread that is not enabled makes the schedule invalid *)
Fixpoint run (c : cfg) (sched : list nat) : option cfg :=
  match sched with
  | [] => Some c
  | i :: r => match step c i with Some c' => run c' r | None => None end
  end.

(* the lenient variant used for "every schedule": disabled picks are skipped *)
Fixpoint run_skip (c : cfg) (sched : list nat) : cfg :=
  match sched with
  | [] => c
  | i :: r => match step c i with Some c' => run_skip c' r | None => run_skip c r end
  end.

Definition leads (p : pc) : option cid :=
  match p with PParse id | PStore id _ | PDone id | PUnreg id => Some id | _ => None end.
Definition before_done (p : pc) : bool :=
  match p with PParse _ | PStore _ _ | PDone _ => true | _ => false end.
Definition parsing (p : pc) : bool := match p with PParse _ => true | _ => false end.
Definition final (p : pc) : bool := match p with PIdle | PRet _ _ => true | _ => false end.

Definition rank (p : pc) : nat :=
  match p with
  | PIdle => 9 | PLoad => 0 | PDel => 1 | PSf => 2 | PWait _ => 3 | PParse _ => 3 | PStore _ _ => 4
  | PDone _ => 5 | PUnreg _ => 6 | PRet _ _ => 9
  end.

(* initial configuration: thread i < n compiles template (keys i) whose parse yields (fns i) *)
Definition init (n : nat) (keys : nat -> key) (fns : nat -> result) (cache0 : key -> option centry) : cfg :=
  {| th := fun i => if i <? n then {| tkey := keys i ; tpc := PLoad ; tfn := fns i |}
                    else {| tkey := 0 ; tpc := PIdle ; tfn := None |} ;
     sfc := fun _ => None ; calls := fun _ => {| pending := false ; cres := None ; cfn := None |} ; next := 0 ;
     cache := cache0 |}.
