(* Executable replay of observed cache histories against the model (correspondence H). *)
From Coq Require Import List ZArith Bool.
From GV Require Import Cache.Model.
Import ListNotations.
Open Scope Z_scope.

Inductive hop := HRender (d : Z) (cached : bool) | HAdvance (ns : Z) | HTick | HStop
               | HSetTTL (ns : Z) | HSetInterval (ns : Z).

(* kind: 0 = no result, 1 = HTML and error equal to the uncached compilation's, 2 = same parse error
   as uncached, 3 = anything else.  parsed = number of ParseMJML calls made by the operation. *)
Record hobs := { h_kind : Z ; h_parsed : Z ; h_len : Z ; h_running : bool }.

Definition parse_of (bad : list Z) (d : Z) : Z + unit := if existsb (Z.eqb d) bad then inr tt else inl d.

Definition to_op (o : hop) : op Z :=
  match o with
  | HRender d c => Render d c | HAdvance n => Advance n | HTick => Tick | HStop => Stop
  | HSetTTL n => SetTTL n | HSetInterval n => SetInterval n
  end.

Section Replay.
  Variable bad : list Z.
  Variable await : bool.   (* the harness awaited a sweep after every operation *)
  Notation step := (step Z Z unit (fun d => d) (parse_of bad)).

  (* expected observation of one harness operation from state s *)
  (* The harness lets time pass by shifting every stored expiry (hook VerifCacheShiftExpiries);
     the real ticker does not see that shift, so an observed "advance" is the model's Advance
     without the implicit ticks - sweeps are observed separately (HTick / awaited sweeps).
     Cache.Proofs.advance_is_shift_then_sweep relates the two. *)
  Definition hstep (s : state Z) (o : hop) : state Z * out Z unit :=
    match o with
    | HAdvance n => (with_now Z s (now Z s + Z.max 0 n), ONone)
    | _ => step s (to_op o)
    end.

  Definition expect (s : state Z) (o : hop) : state Z * hobs :=
    let (s1, out) := hstep s o in
    let s2 := if await then fst (step s1 Tick) else s1 in
    let uncached_parses := match o with HRender _ false => 1 | _ => 0 end in
    let '(kind, parsed) :=
      match o, out with
      | HRender d _, OAst a p => ((if a =? d then 1 else 3), (if p then 1 else 0))
      | HRender _ _, OErr _ => (2, 1)
      | HRender _ _, ONone => (3, 0)
      | _, _ => (0, 0)
      end in
    (s2, {| h_kind := kind ; h_parsed := parsed ; h_len := Z.of_nat (length (cache Z s2)) ;
            h_running := running Z s2 |}).

  Definition hobs_eqb (a b : hobs) : bool :=
    (h_kind a =? h_kind b) && (h_parsed a =? h_parsed b) && ((h_len b =? -1) || (h_len a =? h_len b)) &&
    Bool.eqb (h_running a) (h_running b).   (* observed length -1 = not compared (racy with a fast real ticker) *)

  (* index of the first step whose observation differs, or -1 *)
  Fixpoint replay (s : state Z) (i : Z) (ops : list hop) (obs : list hobs) : Z :=
    match ops, obs with
    | [], [] => -1
    | o :: ops', b :: obs' =>
        let (s', e) := expect s o in
        if hobs_eqb e b then replay s' (i + 1) ops' obs' else i
    | _, _ => i
    end.
End Replay.

Record hist := { hi_id : Z ; hi_bad : list Z ; hi_await : bool ; hi_cfg : list hop ;
                 hi_ops : list hop ; hi_obs : list hobs ; hi_ttl : Z ; hi_interval : Z }.

Definition start_state (h : hist) : state Z :=
  exec Z Z unit (fun d => d) (parse_of (hi_bad h)) (init Z 0) (map to_op (hi_cfg h)).

(* (history id, first differing step) for every history the model does not reproduce;
   step -2 = final configuration (ttl, interval) differs *)
Definition check_hist (h : hist) : option (Z * Z) :=
  let s0 := start_state h in
  let r := replay (hi_bad h) (hi_await h) s0 0 (hi_ops h) (hi_obs h) in
  if r =? -1 then
    let s := fold_left (fun s o => fst (hstep (hi_bad h) s o)) (hi_ops h) s0 in
    if (ttl Z s =? hi_ttl h) && (interval Z s =? hi_interval h) then None else Some (hi_id h, -2)
  else Some (hi_id h, r).

Definition mismatches (l : list hist) : list (Z * Z) :=
  flat_map (fun h => match check_hist h with Some p => [p] | None => [] end) l.
