(* Replay of schedules executed by the controlled scheduler of the harness (correspondence H for C15). *)
From Coq Require Import List Arith Bool.
From GV Require Import Cache.Conc.
Import ListNotations.

(* yield point at which a thread is parked, 0 = it has returned *)
Definition pc_code (p : pc) : nat :=
  match p with
  | PIdle => 99 | PLoad => 1 | PDel => 2 | PSf => 3 | PWait _ => 4 | PParse _ => 5 | PStore _ _ => 6
  | PDone _ => 7 | PUnreg _ => 8 | PRet _ _ => 0
  end.

Inductive sitem :=
| SThread (i arr kind parsed : nat)   (* thread i was resumed and arrived at point arr; if arr = 0: result kind
                                         (1 = same HTML as uncached, 2 = same parse error) and number of ParseMJML calls *)
| SExpire.                            (* the scheduler shifted every expiry into the past *)

Definition expire_all (c : cfg) : cfg :=
  {| th := th c ; sfc := sfc c ; calls := calls c ; next := next c ;
     cache := fun k => match cache c k with Some e => Some {| enode := enode e ; expired := true |} | None => None end |}.

(* first index at which model and implementation disagree, or None *)
Fixpoint replay (c : cfg) (tr : list sitem) (idx : nat) : option nat :=
  match tr with
  | [] => None
  | SExpire :: r => replay (expire_all c) r (S idx)
  | SThread i arr kind parsed :: r =>
      match step c i with
      | None => Some idx                       (* the implementation ran a thread the model says is blocked *)
      | Some c' =>
          let p := tpc (th c' i) in
          if negb (Nat.eqb (pc_code p) arr) then Some idx
          else match p with
               | PRet res par =>
                   let k := match res with Some _ => 1 | None => 2 end in
                   if Nat.eqb k kind && Nat.eqb (if par then 1 else 0) parsed then replay c' r (S idx) else Some idx
               | _ => replay c' r (S idx)
               end
      end
  end.

Fixpoint final_cfg (c : cfg) (tr : list sitem) : cfg :=
  match tr with
  | [] => c
  | SExpire :: r => final_cfg (expire_all c) r
  | SThread i _ _ _ :: r => match step c i with Some c' => final_cfg c' r | None => c end
  end.

Record sched_case := { sc_id : nat ; sc_n : nat ; sc_keys : list nat ; sc_bad : list nat (* keys whose template does not parse *) ;
                       sc_cached : list (nat * bool) (* initial cache: key, expired? *) ; sc_trace : list sitem ;
                       sc_final_cache : nat ; sc_final_sf : nat }.

Definition nth_key (l : list nat) (i : nat) : nat := nth i l 0.
Definition kfn_of (bad : list nat) (k : nat) : result := if existsb (Nat.eqb k) bad then None else Some k.
Definition cache0_of (l : list (nat * bool)) (k : nat) : option centry :=
  match find (fun p => Nat.eqb (fst p) k) l with Some (_, e) => Some {| enode := k ; expired := e |} | None => None end.

Definition case_init (s : sched_case) : cfg :=
  init (sc_n s) (nth_key (sc_keys s)) (fun i => kfn_of (sc_bad s) (nth_key (sc_keys s) i)) (cache0_of (sc_cached s)).

Definition count_some {A} (f : nat -> option A) (ks : list nat) : nat :=
  length (filter (fun k => match f k with Some _ => true | None => false end) (nodup Nat.eq_dec ks)).

(* None = the model accepts the executed schedule and predicts every observation *)
Definition check_case (s : sched_case) : option (nat * nat) :=
  let c0 := case_init s in
  match replay c0 (sc_trace s) 0 with
  | Some idx => Some (sc_id s, idx)
  | None =>
      let c := final_cfg c0 (sc_trace s) in
      let ks := sc_keys s ++ map fst (sc_cached s) in
      if Nat.eqb (count_some (cache c) ks) (sc_final_cache s) && Nat.eqb (count_some (sfc c) ks) (sc_final_sf s)
      then None else Some (sc_id s, 999)
  end.

Definition mismatches (l : list sched_case) : list (nat * nat) :=
  flat_map (fun s => match check_case s with Some p => [p] | None => [] end) l.

(* cleanup lifecycle: expected (cleanupCancel <> nil, number of cleaner goroutines once the cancelled
   ones have exited) after each start/stop operation *)
From GV Require Import Cache.Cleaner.
Definition active_count (s : cst) : nat := length (filter (fun n => negb (mem n (cancelled s))) (live s)).
Fixpoint cleaner_expect (s : cst) (ops : list bool (* true = start, false = stop *)) : list (bool * nat) :=
  match ops with
  | [] => []
  | o :: r => let s' := cstep s (if o then CStart else CStop) in
              ((match ccancel s' with Some _ => true | None => false end), active_count s') :: cleaner_expect s' r
  end.
Definition cleaner_mismatches (l : list (nat * list bool * list (bool * nat))) : list nat :=
  flat_map (fun c => match c with (id, ops, obs) =>
     if forallb (fun p => Bool.eqb (fst (fst p)) (fst (snd p)) && Nat.eqb (snd (fst p)) (snd (snd p))) (combine (cleaner_expect cinit ops) obs)
        && Nat.eqb (length obs) (length ops)
     then [] else [id] end) l.
