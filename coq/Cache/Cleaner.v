(* Lifecycle of the background cleanup goroutine: startASTCacheCleanup / StopASTCacheCleanup
   (mjml/render.go).  Both run entirely under cacheCleanupMutex, so each is one atomic step; a
   cleaner goroutine exits at the select that sees its context cancelled. *)
From Coq Require Import List Arith Bool Lia.
Import ListNotations.

Record cst := { ccancel : option nat      (* cleanupCancel <> nil: the context it cancels *) ;
                live : list nat           (* contexts of cleaner goroutines that have not exited *) ;
                cancelled : list nat      (* cancelled contexts *) ;
                nextctx : nat }.

Inductive cop := CStart | CStop | CExit (n : nat) | CTick (n : nat).

Definition mem (n : nat) (l : list nat) : bool := existsb (Nat.eqb n) l.

Definition cstep (s : cst) (o : cop) : cst :=
  match o with
  | CStart => match ccancel s with
              | Some _ => s
              | None => {| ccancel := Some (nextctx s) ; live := nextctx s :: live s ; cancelled := cancelled s ; nextctx := S (nextctx s) |}
              end
  | CStop => match ccancel s with
             | Some n => {| ccancel := None ; live := live s ; cancelled := n :: cancelled s ; nextctx := nextctx s |}
             | None => s
             end
  | CExit n => if mem n (cancelled s) then {| ccancel := ccancel s ; live := filter (fun x => negb (Nat.eqb n x)) (live s) ;
                                              cancelled := cancelled s ; nextctx := nextctx s |} else s
  | CTick _ => s      (* a sweep: does not touch the lifecycle state *)
  end.

Definition cinit : cst := {| ccancel := None ; live := [] ; cancelled := [] ; nextctx := 0 |}.
Definition crun (s : cst) (l : list cop) : cst := fold_left cstep l s.

(* live and not cancelled = a cleaner that will keep sweeping *)
Definition active (s : cst) (n : nat) : Prop := In n (live s) /\ ~ In n (cancelled s).

Record CInv (s : cst) : Prop := {
  ci_reg    : forall n, ccancel s = Some n -> active s n ;
  ci_active : forall n, active s n -> ccancel s = Some n ;
  ci_fresh  : forall n, In n (live s) \/ In n (cancelled s) -> n < nextctx s ;
  ci_nodup  : NoDup (live s)
}.

Lemma mem_In n l : mem n l = true <-> In n l.
Proof.
  unfold mem. rewrite existsb_exists. split.
  - intros (x & Hx & E). apply Nat.eqb_eq in E. now subst.
  - intros H. exists n. split; [exact H|apply Nat.eqb_refl].
Qed.

Lemma cinv_init : CInv cinit.
Proof. constructor; cbn; try discriminate; try tauto; [intros n [[] _]|constructor]. Qed.

Lemma cstep_inv s o : CInv s -> CInv (cstep s o).
Proof.
  intros I. destruct o as [| |n|n]; cbn.
  - destruct (ccancel s) as [m|] eqn:Hc; [exact I|]. constructor; cbn.
    + intros n E. inversion E; subst. split; [now left|]. intros H. pose proof (ci_fresh s I (nextctx s) (or_intror H)). lia.
    + intros n [[->|Hl] Hn]; [reflexivity|]. exfalso.
      pose proof (ci_active s I n (conj Hl Hn)). congruence.
    + intros n [[->|H]|H]; [lia| |]; [pose proof (ci_fresh s I n (or_introl H))|pose proof (ci_fresh s I n (or_intror H))]; lia.
    + constructor; [|exact (ci_nodup s I)]. intros H. pose proof (ci_fresh s I _ (or_introl H)). lia.
  - destruct (ccancel s) as [m|] eqn:Hc; [|exact I]. constructor; cbn.
    + discriminate.
    + intros n [Hl Hn]. exfalso. assert (A : active s n) by (split; [exact Hl|intros H; apply Hn; now right]).
      pose proof (ci_active s I n A) as E. rewrite Hc in E. inversion E; subst. apply Hn. now left.
    + intros n [H|[->|H]].
      * exact (ci_fresh s I n (or_introl H)).
      * destruct (ci_reg s I n Hc) as [Hl _]. exact (ci_fresh s I n (or_introl Hl)).
      * exact (ci_fresh s I n (or_intror H)).
    + exact (ci_nodup s I).
  - destruct (mem n (cancelled s)) eqn:Hm; [|exact I]. apply mem_In in Hm. constructor; cbn.
    + intros m Hc. destruct (ci_reg s I m Hc) as [Hl Hn]. split; [|exact Hn].
      apply filter_In. split; [exact Hl|]. apply negb_true_iff. apply Nat.eqb_neq. intros ->. contradiction.
    + intros m [Hl Hn]. apply filter_In in Hl. apply (ci_active s I). split; tauto.
    + intros m [H|H]; [apply filter_In in H; exact (ci_fresh s I m (or_introl (proj1 H)))|exact (ci_fresh s I m (or_intror H))].
    + apply NoDup_filter. exact (ci_nodup s I).
  - exact I.
Qed.

Theorem cinv_reachable l : CInv (crun cinit l).
Proof.
  assert (G : forall l s, CInv s -> CInv (crun s l)).
  { clear. induction l as [|o l IH]; intros s I; cbn; [exact I|]. apply IH. now apply cstep_inv. }
  apply G. apply cinv_init.
Qed.

(* at most one cleaner that keeps sweeping exists at any time; cancelled ones may coexist
   briefly until their next select *)
Theorem at_most_one_active l a b : active (crun cinit l) a -> active (crun cinit l) b -> a = b.
Proof.
  intros A B. pose proof (cinv_reachable l) as I.
  pose proof (ci_active _ I a A) as Ea. pose proof (ci_active _ I b B) as Eb. congruence.
Qed.

(* cleanupCancel is non-nil exactly when an active cleaner exists *)
Theorem cancel_iff_active l : let s := crun cinit l in
  (exists n, ccancel s = Some n) <-> (exists n, active s n).
Proof.
  intros s. pose proof (cinv_reachable l) as I. fold s in I. split; intros [n H]; exists n.
  - exact (ci_reg s I n H).
  - exact (ci_active s I n H).
Qed.

(* stopping leaves no active cleaner, and every remaining goroutine is able to exit *)
Theorem stop_terminates l : let s := cstep (crun cinit l) CStop in
  (forall n, ~ active s n) /\ (forall n, In n (live s) -> ~ In n (live (cstep s (CExit n)))).
Proof.
  intros s. assert (I : CInv s) by (apply cstep_inv, cinv_reachable).
  assert (Hc : ccancel s = None).
  { unfold s. cbn. destruct (ccancel (crun cinit l)) eqn:E; cbn; [reflexivity|exact E]. }
  split.
  - intros n A. pose proof (ci_active s I n A). congruence.
  - intros n Hl. assert (Hcn : In n (cancelled s)).
    { destruct (in_dec Nat.eq_dec n (cancelled s)) as [H|H]; [exact H|].
      pose proof (ci_active s I n (conj Hl H)). congruence. }
    apply mem_In in Hcn. change (cstep s (CExit n)) with
      (if mem n (cancelled s) then {| ccancel := ccancel s ; live := filter (fun x => negb (Nat.eqb n x)) (live s) ;
                                      cancelled := cancelled s ; nextctx := nextctx s |} else s).
    rewrite Hcn. cbn [live]. intros H. apply filter_In in H. destruct H as [_ H].
    rewrite Nat.eqb_refl in H. discriminate.
Qed.

(* using the cache after a stop starts exactly one cleaner again *)
Theorem restart_starts_exactly_one l : let s := cstep (cstep (crun cinit l) CStop) CStart in
  exists n, active s n /\ forall m, active s m -> m = n.
Proof.
  intros s. assert (I : CInv s) by (repeat apply cstep_inv; apply cinv_reachable).
  assert (Hc : exists n, ccancel s = Some n).
  { unfold s. cbn. destruct (ccancel (crun cinit l)) eqn:E; cbn; [eauto|rewrite E; cbn; eauto]. }
  destruct Hc as [n Hc]. exists n. split; [exact (ci_reg s I n Hc)|].
  intros m A. pose proof (ci_active s I m A). congruence.
Qed.
