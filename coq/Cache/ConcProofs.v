(* Invariants of the interleaving model (Cache/Conc.v): any number of threads, any schedule. *)
From Coq Require Import List Arith Bool Lia PeanoNat.
From GV Require Import Cache.Conc.
Import ListNotations.

Record Inv (c : cfg) : Prop := {
  inv_reg   : forall k id, sfc c k = Some id -> id < next c /\ exists i, leads (tpc (th c i)) = Some id /\ tkey (th c i) = k ;
  inv_lead  : forall i id, leads (tpc (th c i)) = Some id -> sfc c (tkey (th c i)) = Some id ;
  inv_uniq  : forall i j id, leads (tpc (th c i)) = Some id -> leads (tpc (th c j)) = Some id -> i = j ;
  inv_wait  : forall i id, tpc (th c i) = PWait id -> id < next c ;
  inv_pend  : forall id, id < next c -> pending (calls c id) = true ->
              exists i, leads (tpc (th c i)) = Some id /\ before_done (tpc (th c i)) = true ;
  inv_res   : forall id, id < next c -> pending (calls c id) = false -> exists r, cres (calls c id) = Some r ;
  inv_unreg : forall i id, tpc (th c i) = PUnreg id -> pending (calls c id) = false ;
  inv_done  : forall i id, tpc (th c i) = PDone id -> exists r, cres (calls c id) = Some r ;
  inv_bd    : forall i id, leads (tpc (th c i)) = Some id -> before_done (tpc (th c i)) = true -> pending (calls c id) = true
}.

Lemma init_pc n keys fns cache0 i :
  tpc (th (init n keys fns cache0) i) = PLoad \/ tpc (th (init n keys fns cache0) i) = PIdle.
Proof. unfold init; cbn [th]. destruct (i <? n); cbn; auto. Qed.

Lemma inv_init n keys fns cache0 : Inv (init n keys fns cache0).
Proof.
  set (c0 := init n keys fns cache0).
  assert (P : forall i, tpc (th c0 i) = PLoad \/ tpc (th c0 i) = PIdle) by (intros; apply init_pc).
  assert (L : forall i, leads (tpc (th c0 i)) = None) by (intros i; destruct (P i) as [E|E]; rewrite E; reflexivity).
  constructor.
  - intros k id H. discriminate.
  - intros i id H. rewrite L in H. discriminate.
  - intros i j id H. rewrite L in H. discriminate.
  - intros i id H. destruct (P i) as [E|E]; rewrite E in H; discriminate.
  - intros id H. cbn in H. lia.
  - intros id H. cbn in H. lia.
  - intros i id H. destruct (P i) as [E|E]; rewrite E in H; discriminate.
  - intros i id H. destruct (P i) as [E|E]; rewrite E in H; discriminate.
  - intros i id H. rewrite L in H. discriminate.
Qed.

Ltac th_cases i j := destruct (Nat.eq_dec j i) as [->|?]; [rewrite ?upd_same in *|rewrite ?upd_other in * by assumption].

(* only thread i's program counter changes, to one with the same leadership status *)
Lemma inv_setpc c i p' : Inv c ->
  leads p' = leads (tpc (th c i)) -> before_done p' = before_done (tpc (th c i)) ->
  (forall id, p' = PWait id -> id < next c) ->
  (forall id, p' = PUnreg id -> pending (calls c id) = false) ->
  (forall id, p' = PDone id -> exists r, cres (calls c id) = Some r) ->
  forall ca, Inv {| th := upd (th c) i (setpc (th c i) p') ; sfc := sfc c ; calls := calls c ; next := next c ; cache := ca |}.
Proof.
  intros I Hl Hb Hw Hu Hd ca. constructor; cbn.
  - intros k id Hk. destruct (inv_reg c I k id Hk) as (Hlt & j & Hlj & Hkj). split; [exact Hlt|].
    exists j. th_cases i j; cbn; [rewrite Hl; auto|auto].
  - intros j id. th_cases i j; cbn; [rewrite Hl; apply (inv_lead c I)|apply (inv_lead c I)].
  - intros j l id. th_cases i j; cbn [tpc setpc]; th_cases i l; cbn [tpc setpc]; rewrite ?Hl.
    + intros; reflexivity.
    + intros A B. exact (inv_uniq c I i l id A B).
    + intros A B. exact (inv_uniq c I j i id A B).
    + apply (inv_uniq c I).
  - intros j id. th_cases i j; cbn; [apply Hw|apply (inv_wait c I)].
  - intros id Hlt Hp. destruct (inv_pend c I id Hlt Hp) as (j & Hlj & Hbj). exists j.
    th_cases i j; cbn; [rewrite Hl, Hb; auto|auto].
  - apply (inv_res c I).
  - intros j id. th_cases i j; cbn; [apply Hu|apply (inv_unreg c I)].
  - intros j id. th_cases i j; cbn; [apply Hd|apply (inv_done c I)].
  - intros j id. th_cases i j; cbn; [rewrite Hl, Hb; apply (inv_bd c I)|apply (inv_bd c I)].
Qed.

Lemma step_inv c i c' : Inv c -> step c i = Some c' -> Inv c'.
Proof.
  intros I H. unfold step in H.
  destruct (tpc (th c i)) eqn:Hpc; try discriminate.
  - (* PLoad *)
    destruct (cache c (tkey (th c i))) as [e|].
    + destruct (expired e); inversion H; subst; clear H; unfold with_th;
        apply inv_setpc; auto; rewrite ?Hpc; cbn; auto; intros; discriminate.
    + inversion H; subst; clear H. unfold with_th. apply inv_setpc; auto; rewrite ?Hpc; cbn; auto; intros; discriminate.
  - (* PDel *)
    inversion H; subst; clear H. apply inv_setpc; auto; rewrite ?Hpc; cbn; auto; intros; discriminate.
  - (* PSf *)
    destruct (sfc c (tkey (th c i))) as [id|] eqn:Hs; inversion H; subst; clear H.
    + (* found: become a waiter *)
      unfold with_th. apply inv_setpc; auto; rewrite ?Hpc; cbn; auto; try (intros; discriminate).
      intros id0 E. inversion E; subst. exact (proj1 (inv_reg c I _ _ Hs)).
    + (* not found: register a fresh call and become its leader *)
      set (k0 := tkey (th c i)) in *.
      assert (Hfresh : forall j, leads (tpc (th c j)) <> Some (next c)).
      { intros j Hl. pose proof (inv_lead c I j _ Hl) as Hr. destruct (inv_reg c I _ _ Hr) as [Hlt _]. lia. }
      constructor; cbn.
      * intros k id0. unfold upd at 1. destruct (Nat.eqb k k0) eqn:Ek.
        -- intros E; inversion E; subst. split; [lia|]. exists i. rewrite upd_same. cbn. apply Nat.eqb_eq in Ek. auto.
        -- intros Hk. destruct (inv_reg c I k id0 Hk) as (Hlt & j & Hl & Hkj). split; [lia|]. exists j.
           th_cases i j; [rewrite Hpc in Hl; discriminate|auto].
      * intros j id0. th_cases i j; cbn.
        -- intros E; inversion E; subst. fold k0. rewrite ?upd_same. reflexivity.
        -- intros Hl. pose proof (inv_lead c I j id0 Hl) as Hr. unfold upd.
           destruct (Nat.eqb (tkey (th c j)) k0) eqn:Ek; [|exact Hr].
           apply Nat.eqb_eq in Ek. rewrite Ek in Hr. fold k0 in Hs. congruence.
      * intros j l id0. th_cases i j; cbn.
        -- intros E; inversion E; subst. th_cases i l; cbn; [reflexivity|]. intros Hl. exfalso. exact (Hfresh l Hl).
        -- intros Hj. th_cases i l; cbn.
           ++ intros E; inversion E; subst. exfalso. exact (Hfresh j Hj).
           ++ intros Hl. exact (inv_uniq c I j l id0 Hj Hl).
      * intros j id0. th_cases i j; cbn; [discriminate|]. intros Hw. pose proof (inv_wait c I j id0 Hw). lia.
      * intros id0 Hlt. unfold upd at 1. destruct (Nat.eqb id0 (next c)) eqn:Ei.
        -- intros _. apply Nat.eqb_eq in Ei; subst. exists i. rewrite upd_same. cbn. auto.
        -- apply Nat.eqb_neq in Ei. intros Hp. assert (Hlt' : id0 < next c) by lia.
           destruct (inv_pend c I id0 Hlt' Hp) as (j & Hl & Hb). exists j.
           th_cases i j; [rewrite Hpc in Hl; discriminate|auto].
      * intros id0 Hlt. unfold upd. destruct (Nat.eqb id0 (next c)) eqn:Ei; cbn; [discriminate|].
        apply Nat.eqb_neq in Ei. apply (inv_res c I). lia.
      * intros j id0. th_cases i j; cbn; [discriminate|]. intros Hu.
        assert (id0 <> next c). { intros ->. apply (Hfresh j). rewrite Hu. reflexivity. }
        rewrite upd_other by assumption. exact (inv_unreg c I j id0 Hu).
      * intros j id0. th_cases i j; cbn; [discriminate|]. intros Hd.
        assert (id0 <> next c). { intros ->. apply (Hfresh j). rewrite Hd. reflexivity. }
        rewrite upd_other by assumption. exact (inv_done c I j id0 Hd).
      * intros j id0. th_cases i j; cbn.
        -- intros E _; inversion E; subst. rewrite upd_same. reflexivity.
        -- intros Hl Hb. assert (id0 <> next c). { intros ->. exact (Hfresh j Hl). }
           rewrite upd_other by assumption. exact (inv_bd c I j id0 Hl Hb).
  - (* PWait *)
    destruct (pending (calls c c0)); [discriminate|]. destruct (cres (calls c c0)) as [r|]; [|discriminate].
    inversion H; subst; clear H. unfold with_th. apply inv_setpc; auto; rewrite ?Hpc; cbn; auto; intros; discriminate.
  - (* PParse *)
    assert (Li : leads (tpc (th c i)) = Some c0) by (rewrite Hpc; reflexivity).
    destruct (tfn (th c i)) as [a|].
    + inversion H; subst; clear H. unfold with_th. apply inv_setpc; auto; rewrite ?Hpc; cbn; auto; intros; discriminate.
    + inversion H; subst; clear H.
      constructor; cbn.
      * intros k id Hk. destruct (inv_reg c I k id Hk) as (Hlt & j & Hl & Hkj). split; [exact Hlt|]. exists j.
        th_cases i j; cbn; [rewrite Hpc in Hl; auto|auto].
      * intros j id. th_cases i j; cbn; [intros E; apply (inv_lead c I); rewrite Hpc; exact E|apply (inv_lead c I)].
      * intros j l id. th_cases i j; cbn; th_cases i l; cbn; auto.
        -- intros A B. apply (inv_uniq c I i l id); [rewrite Hpc; exact A|exact B].
        -- intros A B. apply (inv_uniq c I j i id); [exact A|rewrite Hpc; exact B].
        -- apply (inv_uniq c I).
      * intros j id. th_cases i j; cbn; [discriminate|apply (inv_wait c I)].
      * intros id Hlt. unfold upd at 1. destruct (Nat.eqb id c0) eqn:Ei; cbn.
        -- apply Nat.eqb_eq in Ei; subst. intros Hp. exists i. rewrite upd_same. cbn. auto.
        -- intros Hp. destruct (inv_pend c I id Hlt Hp) as (j & Hl & Hb). exists j.
           th_cases i j; cbn; [rewrite Hpc in Hl; inversion Hl; subst; apply Nat.eqb_neq in Ei; congruence|auto].
      * intros id Hlt. unfold upd. destruct (Nat.eqb id c0) eqn:Ei; cbn; [eauto|apply (inv_res c I); exact Hlt].
      * intros j id. th_cases i j; cbn; [discriminate|]. intros Hu. unfold upd.
        destruct (Nat.eqb id c0) eqn:Ei; cbn; [|exact (inv_unreg c I j id Hu)].
        apply Nat.eqb_eq in Ei; subst. exfalso.
        assert (Lj : leads (tpc (th c j)) = Some c0) by (rewrite Hu; reflexivity).
        pose proof (inv_uniq c I i j c0 Li Lj). congruence.
      * intros j id. th_cases i j; cbn.
        -- intros E; inversion E; subst. rewrite upd_same. cbn. eauto.
        -- intros Hd. unfold upd. destruct (Nat.eqb id c0) eqn:Ei; cbn; [eauto|exact (inv_done c I j id Hd)].
      * intros j id. th_cases i j; cbn.
        -- intros E _; inversion E; subst. rewrite upd_same. cbn. apply (inv_bd c I i); rewrite Hpc; reflexivity.
        -- intros Hl Hb. unfold upd. destruct (Nat.eqb id c0) eqn:Ei; cbn; [|exact (inv_bd c I j id Hl Hb)].
           apply Nat.eqb_eq in Ei; subst. exact (inv_bd c I j c0 Hl Hb).
  - (* PStore *)
    assert (Li : leads (tpc (th c i)) = Some c0) by (rewrite Hpc; reflexivity).
    inversion H; subst; clear H.
    constructor; cbn.
    * intros k id Hk. destruct (inv_reg c I k id Hk) as (Hlt & j & Hl & Hkj). split; [exact Hlt|]. exists j.
      th_cases i j; cbn; [rewrite Hpc in Hl; auto|auto].
    * intros j id. th_cases i j; cbn; [intros E; apply (inv_lead c I); rewrite Hpc; exact E|apply (inv_lead c I)].
    * intros j l id. th_cases i j; cbn; th_cases i l; cbn; auto.
      -- intros A B. apply (inv_uniq c I i l id); [rewrite Hpc; exact A|exact B].
      -- intros A B. apply (inv_uniq c I j i id); [exact A|rewrite Hpc; exact B].
      -- apply (inv_uniq c I).
    * intros j id. th_cases i j; cbn; [discriminate|apply (inv_wait c I)].
    * intros id Hlt. unfold upd at 1. destruct (Nat.eqb id c0) eqn:Ei; cbn.
      -- apply Nat.eqb_eq in Ei; subst. intros Hp. exists i. rewrite upd_same. cbn. auto.
      -- intros Hp. destruct (inv_pend c I id Hlt Hp) as (j & Hl & Hb). exists j.
         th_cases i j; cbn; [rewrite Hpc in Hl; inversion Hl; subst; apply Nat.eqb_neq in Ei; congruence|auto].
    * intros id Hlt. unfold upd. destruct (Nat.eqb id c0) eqn:Ei; cbn; [eauto|apply (inv_res c I); exact Hlt].
    * intros j id. th_cases i j; cbn; [discriminate|]. intros Hu. unfold upd.
      destruct (Nat.eqb id c0) eqn:Ei; cbn; [|exact (inv_unreg c I j id Hu)].
      apply Nat.eqb_eq in Ei; subst. exfalso.
      assert (Lj : leads (tpc (th c j)) = Some c0) by (rewrite Hu; reflexivity).
      pose proof (inv_uniq c I i j c0 Li Lj). congruence.
    * intros j id. th_cases i j; cbn.
      -- intros E; inversion E; subst. rewrite upd_same. cbn. eauto.
      -- intros Hd. unfold upd. destruct (Nat.eqb id c0) eqn:Ei; cbn; [eauto|exact (inv_done c I j id Hd)].
    * intros j id. th_cases i j; cbn.
      -- intros E _; inversion E; subst. rewrite upd_same. cbn. apply (inv_bd c I i); rewrite Hpc; reflexivity.
      -- intros Hl Hb. unfold upd. destruct (Nat.eqb id c0) eqn:Ei; cbn; [|exact (inv_bd c I j id Hl Hb)].
         apply Nat.eqb_eq in Ei; subst. exact (inv_bd c I j c0 Hl Hb).
  - (* PDone: wg.Done() *)
    assert (Li : leads (tpc (th c i)) = Some c0) by (rewrite Hpc; reflexivity).
    inversion H; subst; clear H.
    constructor; cbn.
    * intros k id Hk. destruct (inv_reg c I k id Hk) as (Hlt & j & Hl & Hkj). split; [exact Hlt|]. exists j.
      th_cases i j; cbn; [rewrite Hpc in Hl; auto|auto].
    * intros j id. th_cases i j; cbn; [intros E; apply (inv_lead c I); rewrite Hpc; exact E|apply (inv_lead c I)].
    * intros j l id. th_cases i j; cbn; th_cases i l; cbn; auto.
      -- intros A B. apply (inv_uniq c I i l id); [rewrite Hpc; exact A|exact B].
      -- intros A B. apply (inv_uniq c I j i id); [exact A|rewrite Hpc; exact B].
      -- apply (inv_uniq c I).
    * intros j id. th_cases i j; cbn; [discriminate|apply (inv_wait c I)].
    * intros id Hlt. unfold upd at 1. destruct (Nat.eqb id c0) eqn:Ei; cbn; [discriminate|].
      intros Hp. destruct (inv_pend c I id Hlt Hp) as (j & Hl & Hb). exists j.
      th_cases i j; cbn; [rewrite Hpc in Hl; inversion Hl; subst; apply Nat.eqb_neq in Ei; congruence|auto].
    * intros id Hlt. unfold upd. destruct (Nat.eqb id c0) eqn:Ei; cbn; [|apply (inv_res c I); exact Hlt].
      apply Nat.eqb_eq in Ei; subst. intros _. exact (inv_done c I i c0 Hpc).
    * intros j id. th_cases i j; cbn.
      -- intros E; inversion E; subst. rewrite upd_same. reflexivity.
      -- intros Hu. unfold upd. destruct (Nat.eqb id c0) eqn:Ei; cbn; [reflexivity|exact (inv_unreg c I j id Hu)].
    * intros j id. th_cases i j; cbn; [discriminate|].
      intros Hd. unfold upd. destruct (Nat.eqb id c0) eqn:Ei; cbn; [|exact (inv_done c I j id Hd)].
      apply Nat.eqb_eq in Ei; subst. exact (inv_done c I j c0 Hd).
    * intros j id. th_cases i j; cbn; [discriminate|].
      intros Hl Hb. unfold upd. destruct (Nat.eqb id c0) eqn:Ei; cbn; [|exact (inv_bd c I j id Hl Hb)].
      apply Nat.eqb_eq in Ei; subst. exfalso. pose proof (inv_uniq c I i j c0 Li Hl). congruence.
  - (* PUnreg: delete the own record, return *)
    assert (Li : leads (tpc (th c i)) = Some c0) by (rewrite Hpc; reflexivity).
    destruct (cres (calls c c0)) as [r|] eqn:Hr; [|discriminate]. inversion H; subst; clear H.
    set (k0 := tkey (th c i)) in *.
    constructor; cbn.
    * intros k id. unfold upd at 1. destruct (Nat.eqb k k0) eqn:Ek; [discriminate|]. apply Nat.eqb_neq in Ek.
      intros Hk. destruct (inv_reg c I k id Hk) as (Hlt & j & Hl & Hkj). split; [exact Hlt|]. exists j.
      th_cases i j; cbn; [exfalso; apply Ek; symmetry; exact Hkj|auto].
    * intros j id. th_cases i j; cbn; [discriminate|]. intros Hl. pose proof (inv_lead c I j id Hl) as Hs.
      unfold upd. destruct (Nat.eqb (tkey (th c j)) k0) eqn:Ek; [|exact Hs].
      apply Nat.eqb_eq in Ek. exfalso. pose proof (inv_lead c I i c0 Li) as Hi. fold k0 in Hi. rewrite Ek in Hs.
      rewrite Hi in Hs. inversion Hs; subst. pose proof (inv_uniq c I i j id Li Hl). congruence.
    * intros j l id. th_cases i j; cbn; [discriminate|]. th_cases i l; cbn; [discriminate|]. apply (inv_uniq c I).
    * intros j id. th_cases i j; cbn; [discriminate|apply (inv_wait c I)].
    * intros id Hlt Hp. destruct (inv_pend c I id Hlt Hp) as (j & Hl & Hb). exists j.
      th_cases i j; cbn; [rewrite Hpc in Hb; discriminate|auto].
    * apply (inv_res c I).
    * intros j id. th_cases i j; cbn; [discriminate|apply (inv_unreg c I)].
    * intros j id. th_cases i j; cbn; [discriminate|apply (inv_done c I)].
    * intros j id. th_cases i j; cbn; [discriminate|apply (inv_bd c I)].
Qed.

(* ---------------------------------------------------------------- values *)
Section Values.
  (* what a fresh parse of the template with a given key returns: a function of the key because
     the hash is injective on the templates in play (C13's premise) and ParseMJML is a function *)
  Variable kfn : key -> result.

  Record Val (c : cfg) : Prop := {
    v_fn    : forall i, tpc (th c i) <> PIdle -> tfn (th c i) = kfn (tkey (th c i)) ;
    v_lead  : forall i id, leads (tpc (th c i)) = Some id -> cfn (calls c id) = kfn (tkey (th c i)) ;
    v_wait  : forall i id, tpc (th c i) = PWait id -> cfn (calls c id) = kfn (tkey (th c i)) ;
    v_res   : forall id r, id < next c -> cres (calls c id) = Some r -> r = cfn (calls c id) ;
    v_store : forall i id a, tpc (th c i) = PStore id a -> kfn (tkey (th c i)) = Some a ;
    v_cache : forall k e, cache c k = Some e -> kfn k = Some (enode e) ;
    v_ret   : forall i r p, tpc (th c i) = PRet r p -> r = kfn (tkey (th c i))
  }.

  Lemma val_setpc c i p' ca : Val c -> tpc (th c i) <> PIdle ->
    (forall id, leads p' = Some id -> cfn (calls c id) = kfn (tkey (th c i))) ->
    (forall id, p' = PWait id -> cfn (calls c id) = kfn (tkey (th c i))) ->
    (forall id a, p' = PStore id a -> kfn (tkey (th c i)) = Some a) ->
    (forall r p, p' = PRet r p -> r = kfn (tkey (th c i))) ->
    (forall k e, ca k = Some e -> kfn k = Some (enode e)) ->
    Val {| th := upd (th c) i (setpc (th c i) p') ; sfc := sfc c ; calls := calls c ; next := next c ; cache := ca |}.
  Proof.
    intros V Hni Hl Hw Hs Hr Hc. constructor; cbn.
    - intros j. th_cases i j; cbn; [intros _; apply (v_fn c V); exact Hni|apply (v_fn c V)].
    - intros j id. th_cases i j; cbn; [apply Hl|apply (v_lead c V)].
    - intros j id. th_cases i j; cbn; [apply Hw|apply (v_wait c V)].
    - apply (v_res c V).
    - intros j id a. th_cases i j; cbn; [apply Hs|apply (v_store c V)].
    - exact Hc.
    - intros j r p. th_cases i j; cbn; [apply Hr|apply (v_ret c V)].
  Qed.

  Lemma val_init n keys fns cache0 :
    (forall i, i < n -> fns i = kfn (keys i)) -> (forall k e, cache0 k = Some e -> kfn k = Some (enode e)) ->
    Val (init n keys fns cache0).
  Proof.
    intros Hf Hc. set (c0 := init n keys fns cache0).
    assert (P : forall i, tpc (th c0 i) = PLoad \/ tpc (th c0 i) = PIdle) by (intros; apply init_pc).
    constructor.
    - intros i Hn. unfold c0, init in *. cbn [th] in *. destruct (i <? n) eqn:E; cbn in *; [|congruence].
      apply Hf. now apply Nat.ltb_lt.
    - intros i id H. destruct (P i) as [E|E]; rewrite E in H; discriminate.
    - intros i id H. destruct (P i) as [E|E]; rewrite E in H; discriminate.
    - intros id r H. cbn in H. lia.
    - intros i id a H. destruct (P i) as [E|E]; rewrite E in H; discriminate.
    - exact Hc.
    - intros i r p H. destruct (P i) as [E|E]; rewrite E in H; discriminate.
  Qed.

  Lemma step_val c i c' : Inv c -> Val c -> step c i = Some c' -> Val c'.
  Proof.
    intros I V H. unfold step in H.
    destruct (tpc (th c i)) eqn:Hpc; try discriminate.
    - (* PLoad *)
      assert (Hni : tpc (th c i) <> PIdle) by (rewrite Hpc; discriminate).
      destruct (cache c (tkey (th c i))) as [e|] eqn:Hc.
      + destruct (expired e); inversion H; subst; clear H; unfold with_th;
          apply val_setpc; auto; try (intros; discriminate); try apply (v_cache c V).
        intros r p E. inversion E; subst. symmetry. exact (v_cache c V _ _ Hc).
      + inversion H; subst; clear H. unfold with_th. apply val_setpc; auto; try (intros; discriminate). apply (v_cache c V).
    - (* PDel *)
      assert (Hni : tpc (th c i) <> PIdle) by (rewrite Hpc; discriminate).
      inversion H; subst; clear H. apply val_setpc; auto; try (intros; discriminate).
      intros k e. unfold upd. destruct (Nat.eqb k (tkey (th c i))); [discriminate|apply (v_cache c V)].
    - (* PSf *)
      assert (Hni : tpc (th c i) <> PIdle) by (rewrite Hpc; discriminate).
      destruct (sfc c (tkey (th c i))) as [id|] eqn:Hs; inversion H; subst; clear H.
      + unfold with_th. apply val_setpc; auto; try (intros; discriminate); try apply (v_cache c V).
        intros id0 E. inversion E; subst.
        destruct (inv_reg c I _ _ Hs) as (_ & j & Hl & Hk). rewrite <- Hk. exact (v_lead c V j id0 Hl).
      + assert (Hfresh : forall j, leads (tpc (th c j)) <> Some (next c)).
        { intros j Hl. pose proof (inv_lead c I j _ Hl) as Hr. destruct (inv_reg c I _ _ Hr) as [Hlt _]. lia. }
        constructor; cbn.
        * intros j. th_cases i j; cbn; [intros _; apply (v_fn c V); exact Hni|apply (v_fn c V)].
        * intros j id. th_cases i j; cbn.
          -- intros E; inversion E; subst. rewrite upd_same. cbn. apply (v_fn c V). exact Hni.
          -- intros Hl. assert (id <> next c) by (intros ->; exact (Hfresh j Hl)).
             rewrite upd_other by assumption. exact (v_lead c V j id Hl).
        * intros j id. th_cases i j; cbn; [discriminate|]. intros Hw.
          pose proof (inv_wait c I j id Hw). rewrite upd_other by lia. exact (v_wait c V j id Hw).
        * intros id r Hlt. unfold upd. destruct (Nat.eqb id (next c)) eqn:Ei; cbn; [discriminate|].
          apply Nat.eqb_neq in Ei. apply (v_res c V). lia.
        * intros j id a. th_cases i j; cbn; [discriminate|apply (v_store c V)].
        * apply (v_cache c V).
        * intros j r p. th_cases i j; cbn; [discriminate|apply (v_ret c V)].
    - (* PWait *)
      assert (Hni : tpc (th c i) <> PIdle) by (rewrite Hpc; discriminate).
      destruct (pending (calls c c0)); [discriminate|]. destruct (cres (calls c c0)) as [r|] eqn:Hr; [|discriminate].
      inversion H; subst; clear H. unfold with_th. apply val_setpc; auto; try (intros; discriminate); try apply (v_cache c V).
      intros r0 p E. inversion E; subst.
      rewrite (v_res c V c0 r0 (inv_wait c I i c0 Hpc) Hr). exact (v_wait c V i c0 Hpc).
    - (* PParse *)
      assert (Hni : tpc (th c i) <> PIdle) by (rewrite Hpc; discriminate).
      assert (Li : leads (tpc (th c i)) = Some c0) by (rewrite Hpc; reflexivity).
      destruct (tfn (th c i)) as [a|] eqn:Hf.
      + inversion H; subst; clear H. unfold with_th. apply val_setpc; auto; try (intros; discriminate); try apply (v_cache c V).
        * intros id E. cbn in E. inversion E; subst. exact (v_lead c V i id Li).
        * intros id a0 E. inversion E; subst. rewrite <- (v_fn c V i Hni). exact Hf.
      + inversion H; subst; clear H. constructor; cbn.
        * intros j. th_cases i j; cbn; [intros _; apply (v_fn c V); exact Hni|apply (v_fn c V)].
        * intros j id. th_cases i j; cbn.
          -- intros E; inversion E; subst. rewrite upd_same. cbn. exact (v_lead c V i id Li).
          -- intros Hl. unfold upd. destruct (Nat.eqb id c0) eqn:Ei; cbn; [apply Nat.eqb_eq in Ei; subst|]; exact (v_lead c V j _ Hl).
        * intros j id. th_cases i j; cbn; [discriminate|]. intros Hw. unfold upd.
          destruct (Nat.eqb id c0) eqn:Ei; cbn; [apply Nat.eqb_eq in Ei; subst|]; exact (v_wait c V j _ Hw).
        * intros id r Hlt. unfold upd. destruct (Nat.eqb id c0) eqn:Ei; cbn; [|apply (v_res c V); exact Hlt].
          apply Nat.eqb_eq in Ei; subst. intros E; inversion E; subst.
          rewrite (v_lead c V i c0 Li). rewrite <- (v_fn c V i Hni). symmetry. exact Hf.
        * intros j id a. th_cases i j; cbn; [discriminate|apply (v_store c V)].
        * apply (v_cache c V).
        * intros j r p. th_cases i j; cbn; [discriminate|apply (v_ret c V)].
    - (* PStore *)
      assert (Hni : tpc (th c i) <> PIdle) by (rewrite Hpc; discriminate).
      assert (Li : leads (tpc (th c i)) = Some c0) by (rewrite Hpc; reflexivity).
      inversion H; subst; clear H. constructor; cbn.
      * intros j. th_cases i j; cbn; [intros _; apply (v_fn c V); exact Hni|apply (v_fn c V)].
      * intros j id. th_cases i j; cbn.
        -- intros E; inversion E; subst. rewrite upd_same. cbn. exact (v_lead c V i id Li).
        -- intros Hl. unfold upd. destruct (Nat.eqb id c0) eqn:Ei; cbn; [apply Nat.eqb_eq in Ei; subst|]; exact (v_lead c V j _ Hl).
      * intros j id. th_cases i j; cbn; [discriminate|]. intros Hw. unfold upd.
        destruct (Nat.eqb id c0) eqn:Ei; cbn; [apply Nat.eqb_eq in Ei; subst|]; exact (v_wait c V j _ Hw).
      * intros id r Hlt. unfold upd. destruct (Nat.eqb id c0) eqn:Ei; cbn; [|apply (v_res c V); exact Hlt].
        apply Nat.eqb_eq in Ei; subst. intros E; inversion E; subst.
        rewrite (v_lead c V i c0 Li). symmetry. exact (v_store c V i c0 a Hpc).
      * intros j id a0. th_cases i j; cbn; [discriminate|apply (v_store c V)].
      * intros k e. unfold upd. destruct (Nat.eqb k (tkey (th c i))) eqn:Ek; [|apply (v_cache c V)].
        apply Nat.eqb_eq in Ek; subst. intros E; inversion E; subst. cbn. exact (v_store c V i c0 a Hpc).
      * intros j r p. th_cases i j; cbn; [discriminate|apply (v_ret c V)].
    - (* PDone *)
      assert (Hni : tpc (th c i) <> PIdle) by (rewrite Hpc; discriminate).
      assert (Li : leads (tpc (th c i)) = Some c0) by (rewrite Hpc; reflexivity).
      inversion H; subst; clear H. constructor; cbn.
      * intros j. th_cases i j; cbn; [intros _; apply (v_fn c V); exact Hni|apply (v_fn c V)].
      * intros j id. th_cases i j; cbn.
        -- intros E; inversion E; subst. rewrite upd_same. cbn. exact (v_lead c V i id Li).
        -- intros Hl. unfold upd. destruct (Nat.eqb id c0) eqn:Ei; cbn; [apply Nat.eqb_eq in Ei; subst|]; exact (v_lead c V j _ Hl).
      * intros j id. th_cases i j; cbn; [discriminate|]. intros Hw. unfold upd.
        destruct (Nat.eqb id c0) eqn:Ei; cbn; [apply Nat.eqb_eq in Ei; subst|]; exact (v_wait c V j _ Hw).
      * intros id r Hlt. unfold upd. destruct (Nat.eqb id c0) eqn:Ei; cbn; [|apply (v_res c V); exact Hlt].
        apply Nat.eqb_eq in Ei; subst. apply (v_res c V). exact Hlt.
      * intros j id a. th_cases i j; cbn; [discriminate|apply (v_store c V)].
      * apply (v_cache c V).
      * intros j r p. th_cases i j; cbn; [discriminate|apply (v_ret c V)].
    - (* PUnreg *)
      assert (Hni : tpc (th c i) <> PIdle) by (rewrite Hpc; discriminate).
      assert (Li : leads (tpc (th c i)) = Some c0) by (rewrite Hpc; reflexivity).
      destruct (cres (calls c c0)) as [r|] eqn:Hr; [|discriminate]. inversion H; subst; clear H.
      assert (Hlt : c0 < next c) by (exact (proj1 (inv_reg c I _ _ (inv_lead c I i c0 Li)))).
      constructor; cbn.
      * intros j. th_cases i j; cbn; [intros _; apply (v_fn c V); exact Hni|apply (v_fn c V)].
      * intros j id. th_cases i j; cbn; [discriminate|apply (v_lead c V)].
      * intros j id. th_cases i j; cbn; [discriminate|apply (v_wait c V)].
      * apply (v_res c V).
      * intros j id a. th_cases i j; cbn; [discriminate|apply (v_store c V)].
      * apply (v_cache c V).
      * intros j r0 p. th_cases i j; cbn; [|apply (v_ret c V)].
        intros E; inversion E; subst. rewrite (v_res c V c0 r0 Hlt Hr). exact (v_lead c V i c0 Li).
  Qed.

  (* ---- every schedule, any number of threads ---- *)
  Lemma run_skip_inv sched : forall c, Inv c -> Val c -> Inv (run_skip c sched) /\ Val (run_skip c sched).
  Proof.
    induction sched as [|i r IH]; intros c I V; cbn; [auto|].
    destruct (step c i) as [c'|] eqn:E; [|apply IH; auto].
    apply IH; [eapply step_inv; eauto|eapply step_val; eauto].
  Qed.

  (* parses of one template never overlap: two threads inside ParseMJML for the same key are one *)
  Theorem one_parse_per_key c i j id1 id2 : Inv c ->
    tpc (th c i) = PParse id1 -> tpc (th c j) = PParse id2 -> tkey (th c i) = tkey (th c j) -> i = j.
  Proof.
    intros I Hi Hj Hk.
    assert (L1 : leads (tpc (th c i)) = Some id1) by (rewrite Hi; reflexivity).
    assert (L2 : leads (tpc (th c j)) = Some id2) by (rewrite Hj; reflexivity).
    pose proof (inv_lead c I i id1 L1) as R1. pose proof (inv_lead c I j id2 L2) as R2.
    rewrite Hk in R1. rewrite R1 in R2. inversion R2; subst.
    exact (inv_uniq c I i j id2 L1 L2).
  Qed.

  (* every caller - leader, waiter or cache hit - returns what a fresh parse of its own template
     returns (the AST or the same parse error as the goroutine that did the work) *)
  Theorem caller_gets_fresh_parse_result c i r p : Val c -> tpc (th c i) = PRet r p -> r = kfn (tkey (th c i)).
  Proof. intros V. apply (v_ret c V). Qed.

  (* a leader only ever deletes the record it registered itself *)
  Theorem delete_own_record_only c i id : Inv c -> tpc (th c i) = PUnreg id -> sfc c (tkey (th c i)) = Some id.
  Proof. intros I H. apply (inv_lead c I). rewrite H. reflexivity. Qed.

  (* nobody blocks forever: a thread is disabled only while waiting for a call whose leader exists,
     has not yet called Done, and is itself enabled *)
  Theorem enabled_or_waiting_for_enabled_leader c i : Inv c -> final (tpc (th c i)) = false ->
    step c i <> None \/
    exists id j, tpc (th c i) = PWait id /\ leads (tpc (th c j)) = Some id /\ before_done (tpc (th c j)) = true /\ step c j <> None.
  Proof.
    intros I Hf. unfold step at 1. destruct (tpc (th c i)) eqn:Hpc; try discriminate.
    - left. destruct (cache c (tkey (th c i))) as [e|]; [destruct (expired e)|]; discriminate.
    - left. discriminate.
    - left. destruct (sfc c (tkey (th c i))); discriminate.
    - pose proof (inv_wait c I i c0 Hpc) as Hlt.
      destruct (pending (calls c c0)) eqn:Hp.
      + right. destruct (inv_pend c I c0 Hlt Hp) as (j & Hl & Hb). exists c0, j. repeat split; auto.
        unfold step. destruct (tpc (th c j)); cbn in *; try discriminate.
        destruct (tfn (th c j)); discriminate.
      + left. destruct (inv_res c I c0 Hlt Hp) as (r & Hr). rewrite Hr. discriminate.
    - left. destruct (tfn (th c i)); discriminate.
    - left. discriminate.
    - left. discriminate.
    - left. assert (Li : leads (tpc (th c i)) = Some c0) by (rewrite Hpc; reflexivity).
      assert (Hlt : c0 < next c) by (exact (proj1 (inv_reg c I _ _ (inv_lead c I i c0 Li)))).
      destruct (inv_res c I c0 Hlt (inv_unreg c I i c0 Hpc)) as (r & Hr). rewrite Hr. discriminate.
  Qed.

  Corollary deadlock_free c i : Inv c -> final (tpc (th c i)) = false -> exists j, step c j <> None.
  Proof.
    intros I Hf. destruct (enabled_or_waiting_for_enabled_leader c i I Hf) as [H|(id & j & _ & _ & _ & H)]; eauto.
  Qed.

  (* progress is bounded: every step strictly advances the stepping thread's program counter in a
     finite order and leaves the other threads alone, so n threads make at most 9 n steps *)
  Theorem step_progress c i c' : step c i = Some c' ->
    rank (tpc (th c i)) < rank (tpc (th c' i)) /\ forall j, j <> i -> th c' j = th c j.
  Proof.
    unfold step. intros H.
    destruct (tpc (th c i)) eqn:Hpc; try discriminate.
    - destruct (cache c (tkey (th c i))) as [e|]; [destruct (expired e)|]; inversion H; subst; cbn;
        rewrite upd_same; cbn; split; try lia; intros; apply upd_other; auto.
    - inversion H; subst; cbn. rewrite upd_same; cbn. split; [lia|]. intros; apply upd_other; auto.
    - destruct (sfc c (tkey (th c i))); inversion H; subst; cbn; rewrite upd_same; cbn; split; try lia; intros; apply upd_other; auto.
    - destruct (pending (calls c c0)); [discriminate|]. destruct (cres (calls c c0)); [|discriminate].
      inversion H; subst; cbn. rewrite upd_same; cbn. split; [lia|]. intros; apply upd_other; auto.
    - destruct (tfn (th c i)); inversion H; subst; cbn; rewrite upd_same; cbn; split; try lia; intros; apply upd_other; auto.
    - inversion H; subst; cbn. rewrite upd_same; cbn. split; [lia|]. intros; apply upd_other; auto.
    - inversion H; subst; cbn. rewrite upd_same; cbn. split; [lia|]. intros; apply upd_other; auto.
    - destruct (cres (calls c c0)); [|discriminate].
      inversion H; subst; cbn. rewrite upd_same; cbn. split; [lia|]. intros; apply upd_other; auto.
  Qed.
End Values.
