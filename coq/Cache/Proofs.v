(* Proofs about the sequential cache model (Cache/Model.v). *)
From Coq Require Import List ZArith Bool Lia.
From GV Require Import Cache.Model.
Import ListNotations.
Open Scope Z_scope.

Section Proofs.
  Variables (doc ast err : Type).
  Variable hash : doc -> Z.
  Variable parse : doc -> ast + err.

  Notation state := (state ast).
  Notation entry := (entry ast).
  Notation step := (step doc ast err hash parse).
  Notation exec := (exec doc ast err hash parse).
  Notation all_ok := (all_ok doc ast err hash parse).
  Notation render_ok := (render_ok doc ast err parse).
  Notation uncached := (uncached doc ast err parse).
  Notation hash_inj_on := (hash_inj_on doc hash).
  Notation docs := (docs doc).
  Notation start := (start ast).
  Notation store := (store ast).
  Notation lookup := (lookup ast).
  Notation remove := (remove ast).
  Notation insert := (insert ast).
  Notation sweep := (sweep ast).
  Notation with_cache := (with_cache ast).
  Notation with_cl := (with_cl ast).
  Notation with_now := (with_now ast).

  (* ------------------------------------------------------------------ basic map lemmas *)
  Lemma lookup_In k (m : list (Z * entry)) e : lookup k m = Some e -> In (k, e) m.
  Proof.
    induction m as [|[k0 e0] m IH]; cbn; [discriminate|].
    destruct (Z.eqb k k0) eqn:E.
    - intros H; inversion H; subst. apply Z.eqb_eq in E; subst. now left.
    - intros H. right. auto.
  Qed.

  Lemma lookup_None_notin k (m : list (Z * entry)) : lookup k m = None -> ~ In k (map fst m).
  Proof.
    induction m as [|[k0 e0] m IH]; cbn; [tauto|].
    destruct (Z.eqb k k0) eqn:E; [discriminate|]. apply Z.eqb_neq in E.
    intros H [H1|H1]; [congruence|]. exact (IH H H1).
  Qed.

  Lemma In_lookup k e (m : list (Z * entry)) : NoDup (map fst m) -> In (k, e) m -> lookup k m = Some e.
  Proof.
    induction m as [|[k0 e0] m IH]; cbn; [tauto|]. intros ND [H|H].
    - inversion H; subst. now rewrite Z.eqb_refl.
    - inversion ND as [|? ? Hn ND']; subst.
      destruct (Z.eqb k k0) eqn:E.
      + apply Z.eqb_eq in E; subst. exfalso. apply Hn. apply (in_map fst) in H. exact H.
      + auto.
  Qed.

  Lemma remove_keys_notin k (m : list (Z * entry)) : ~ In k (map fst (remove k m)).
  Proof.
    unfold Model.remove. intros H. apply in_map_iff in H. destruct H as ([k' e] & Hk & Hin).
    cbn in Hk; subst. apply filter_In in Hin. destruct Hin as [_ Hf]. cbn in Hf.
    now rewrite Z.eqb_refl in Hf.
  Qed.

  Lemma NoDup_filter_keys (f : Z * entry -> bool) (m : list (Z * entry)) :
    NoDup (map fst m) -> NoDup (map fst (filter f m)).
  Proof.
    induction m as [|p m IH]; cbn; [auto|]. intros ND. inversion ND as [|? ? Hn ND']; subst.
    destruct (f p); cbn; [|auto]. constructor; [|auto].
    intros H. apply Hn. apply in_map_iff in H. destruct H as (q & Hq & Hin).
    apply filter_In in Hin. apply in_map_iff. exists q. tauto.
  Qed.

  Lemma NoDup_insert k e (m : list (Z * entry)) : NoDup (map fst m) -> NoDup (map fst (insert k e m)).
  Proof.
    intros ND. unfold Model.insert. cbn. constructor; [apply remove_keys_notin|].
    apply NoDup_filter_keys. exact ND.
  Qed.

  Lemma lookup_remove_same k (m : list (Z * entry)) : lookup k (remove k m) = None.
  Proof.
    destruct (lookup k (remove k m)) eqn:E; [|reflexivity].
    exfalso. apply lookup_In in E. apply (in_map fst) in E. exact (remove_keys_notin _ _ E).
  Qed.

  Lemma lookup_insert_same k e (m : list (Z * entry)) : lookup k (insert k e m) = Some e.
  Proof. unfold Model.insert. cbn. now rewrite Z.eqb_refl. Qed.

  (* ------------------------------------------------------------------ transparency (C13) *)
  (* every entry is the successful parse of a document of the universe with that hash *)
  Definition Inv (U : list doc) (s : state) : Prop :=
    forall k e, In (k, e) (cache ast s) -> exists d, In d U /\ hash d = k /\ parse d = inl (node ast e).

  Lemma inv_filter U s f : Inv U s -> Inv U (with_cache s (filter f (cache ast s))).
  Proof. intros I k e H. cbn in H. apply filter_In in H. exact (I _ _ (proj1 H)). Qed.

  Lemma inv_store U s d a : Inv U s -> In d U -> parse d = inl a -> Inv U (store s (hash d) a).
  Proof.
    intros I Hd Hp k e. cbn. intros [H|H].
    - inversion H; subst; cbn. exists d. auto.
    - apply filter_In in H. exact (I _ _ (proj1 H)).
  Qed.

  Lemma inv_start U s : Inv U s -> Inv U (start s).
  Proof. unfold Model.start. destruct (cl ast s); auto. Qed.

  Lemma inv_init U t0 : Inv U (init ast t0).
  Proof. intros k e H. destruct H. Qed.

  Lemma step_ok U s o : hash_inj_on U -> Inv U s -> (forall d c, o = Render d c -> In d U) ->
    Inv U (fst (step s o)) /\ render_ok o (snd (step s o)).
  Proof.
    intros Hinj I HU. unfold Model.step.
    destruct o as [d [|]| dt | | t | t | ]; cbn [Model.render_ok].
    - (* cached render *)
      pose proof (HU d true eq_refl) as HdU. pose proof (inv_start U s I) as I1.
      destruct (lookup (hash d) (cache ast (start s))) as [e|] eqn:Hl.
      + destruct (now ast (start s) <? expires ast e) eqn:Hlt; cbn [fst snd].
        * split; [exact I1|].
          destruct (I1 _ _ (lookup_In _ _ _ Hl)) as (d' & Hd' & Hh & Hp).
          assert (d' = d) by (apply Hinj; auto). subst. unfold Model.uncached. rewrite Hp. reflexivity.
        * destruct (parse d) as [a|e'] eqn:Hp; cbn [fst snd].
          -- split.
             ++ apply inv_store; auto. apply inv_filter; exact I1.
             ++ unfold Model.uncached. rewrite Hp. reflexivity.
          -- split; [apply inv_filter; exact I1|]. unfold Model.uncached. rewrite Hp. reflexivity.
      + destruct (parse d) as [a|e'] eqn:Hp; cbn [fst snd].
        * split; [apply inv_store; auto|]. unfold Model.uncached. rewrite Hp. reflexivity.
        * split; [exact I1|]. unfold Model.uncached. rewrite Hp. reflexivity.
    - (* uncached render *)
      cbn [fst snd]. split; [exact I|]. unfold Model.uncached. destruct (parse d); reflexivity.
    - (* advance *)
      destruct (cl ast s) as [c|]; [|cbn; split; [exact I|exact Logic.I]].
      destruct (last_tick c _) as [tl|]; [|cbn; split; [exact I|exact Logic.I]].
      destruct (now ast s <? tl); cbn [fst snd]; (split; [|exact Logic.I]).
      + intros k e H. cbn in H. apply filter_In in H. exact (I _ _ (proj1 H)).
      + exact I.
    - destruct (cl ast s); cbn [fst snd]; (split; [|exact Logic.I]); [apply inv_filter|]; exact I.
    - destruct (ttl_once ast s); cbn [fst snd]; (split; [exact I|exact Logic.I]).
    - destruct (int_once ast s); cbn [fst snd]; (split; [exact I|exact Logic.I]).
    - cbn. split; [exact I|exact Logic.I].
  Qed.

  (* every render of every history, cached or not, with any amount of time passing and the
     cleanup running, stopped or restarted, obtains what an uncached compilation obtains *)
  Theorem transparent_gen : forall U, hash_inj_on U -> forall h s, incl (docs h) U -> Inv U s -> all_ok s h.
  Proof.
    intros U Hinj h. induction h as [|o r IH]; intros s Hincl I; cbn [Model.all_ok]; [exact Logic.I|].
    assert (HU : forall d c, o = Render d c -> In d U).
    { intros d c ->. apply Hincl. cbn. now left. }
    assert (Hincl' : incl (docs r) U).
    { intros x Hx. apply Hincl. destruct o; cbn; auto. }
    destruct (step_ok U s o Hinj I HU) as [I' R]. split; [exact R|]. apply IH; assumption.
  Qed.

  Theorem transparent : forall h t0, hash_inj_on (docs h) -> all_ok (init ast t0) h.
  Proof. intros h t0 Hinj. apply (transparent_gen (docs h)); auto using incl_refl, inv_init. Qed.

  (* a document that fails to parse is never cached: rendering it adds no entry *)
  Theorem errors_not_cached s d c e0 : parse d = inr e0 ->
    incl (cache ast (fst (step s (Render d c)))) (cache ast s).
  Proof.
    intros Hp. unfold Model.step. destruct c; cbn [fst]; [|apply incl_refl].
    assert (Hs : cache ast (start s) = cache ast s) by (unfold Model.start; destruct (cl ast s); reflexivity).
    destruct (lookup (hash d) (cache ast (start s))) as [e|] eqn:Hl.
    - destruct (now ast (start s) <? expires ast e); cbn [fst].
      + rewrite Hs. apply incl_refl.
      + rewrite Hp. cbn [fst]. cbn. rewrite Hs. intros x Hx. apply filter_In in Hx. tauto.
    - rewrite Hp. cbn [fst]. rewrite Hs. apply incl_refl.
  Qed.

  (* entries are never shared between documents that differ *)
  Theorem no_sharing U s d e : hash_inj_on U -> Inv U s -> In d U ->
    lookup (hash d) (cache ast s) = Some e -> parse d = inl (node ast e).
  Proof.
    intros Hinj I Hd Hl. destruct (I _ _ (lookup_In _ _ _ Hl)) as (d' & Hd' & Hh & Hp).
    assert (d' = d) by (apply Hinj; auto). now subst.
  Qed.

  (* ------------------------------------------------------------------ keys stay distinct *)
  Definition KeysOk (s : state) : Prop := NoDup (map fst (cache ast s)).

  Lemma keys_step s o : KeysOk s -> KeysOk (fst (step s o)).
  Proof.
    unfold KeysOk, Model.step. intros ND.
    assert (Hs : cache ast (start s) = cache ast s) by (unfold Model.start; destruct (cl ast s); reflexivity).
    destruct o as [d [|]| dt | | t | t | ]; cbn [fst].
    - destruct (lookup (hash d) (cache ast (start s))) as [e|].
      + destruct (now ast (start s) <? expires ast e); cbn [fst]; [now rewrite Hs|].
        destruct (parse d); cbn [fst].
        * cbn. constructor; [apply remove_keys_notin|]. do 2 apply NoDup_filter_keys. now rewrite Hs.
        * cbn. apply NoDup_filter_keys. now rewrite Hs.
      + destruct (parse d); cbn [fst]; [|now rewrite Hs].
        unfold Model.store. cbn [cache Model.with_cache]. apply NoDup_insert. now rewrite Hs.
    - exact ND.
    - destruct (cl ast s) as [c|]; [|exact ND]. destruct (last_tick c _) as [tl|]; [|exact ND].
      destruct (now ast s <? tl); cbn; [apply NoDup_filter_keys|]; exact ND.
    - destruct (cl ast s); cbn; [apply NoDup_filter_keys|]; exact ND.
    - destruct (ttl_once ast s); exact ND.
    - destruct (int_once ast s); exact ND.
    - exact ND.
  Qed.

  (* ------------------------------------------------------------------ TTL semantics (C14) *)
  Lemma start_cache s : cache ast (start s) = cache ast s.
  Proof. unfold Model.start; destruct (cl ast s); reflexivity. Qed.
  Lemma start_now s : now ast (start s) = now ast s.
  Proof. unfold Model.start; destruct (cl ast s); reflexivity. Qed.
  Lemma start_ttl s : ttl ast (start s) = ttl ast s.
  Proof. unfold Model.start; destruct (cl ast s); reflexivity. Qed.

  (* a cached compilation reuses the stored tree iff an entry exists and the compilation
     starts strictly before its expiry *)
  Theorem hit_iff_before_expiry s d :
    (exists a, snd (step s (Render d true)) = OAst a false) <->
    (exists e, lookup (hash d) (cache ast s) = Some e /\ now ast s < expires ast e).
  Proof.
    unfold Model.step. rewrite start_cache, start_now. split.
    - intros [a H]. destruct (lookup (hash d) (cache ast s)) as [e|].
      + destruct (now ast s <? expires ast e) eqn:Hlt.
        * exists e. split; [reflexivity|]. now apply Z.ltb_lt.
        * destruct (parse d); cbn in H; discriminate.
      + destruct (parse d); cbn in H; discriminate.
    - intros (e & Hl & Hlt). rewrite Hl. apply Z.ltb_lt in Hlt. rewrite Hlt. cbn. eauto.
  Qed.

  (* a hit returns the stored tree and leaves the cache (hence every expiry) untouched *)
  Theorem hits_dont_extend s d a :
    snd (step s (Render d true)) = OAst a false ->
    cache ast (fst (step s (Render d true))) = cache ast s /\
    exists e, lookup (hash d) (cache ast s) = Some e /\ a = node ast e.
  Proof.
    unfold Model.step. rewrite start_cache, start_now.
    destruct (lookup (hash d) (cache ast s)) as [e|] eqn:Hl.
    - destruct (now ast s <? expires ast e).
      + cbn. intros H. inversion H; subst. split; [apply start_cache|eauto].
      + destruct (parse d); cbn; discriminate.
    - destruct (parse d); cbn; discriminate.
  Qed.

  (* at or after expiry the template is parsed again, and (on success) re-cached with an
     expiry stamped from the store time and the configured TTL *)
  Theorem reparse_at_or_after_expiry s d e :
    lookup (hash d) (cache ast s) = Some e -> expires ast e <= now ast s ->
    match parse d with
    | inl a => snd (step s (Render d true)) = OAst a true /\
               exists e', lookup (hash d) (cache ast (fst (step s (Render d true)))) = Some e' /\
                          node ast e' = a /\ expires ast e' = now ast s + ttl ast s
    | inr x => snd (step s (Render d true)) = OErr x /\
               lookup (hash d) (cache ast (fst (step s (Render d true)))) = None
    end.
  Proof.
    intros Hl Hle. unfold Model.step. rewrite start_cache, start_now, Hl.
    assert (Hlt : (now ast s <? expires ast e) = false) by (apply Z.ltb_ge; lia). rewrite Hlt.
    destruct (parse d) as [a|x]; cbn [fst snd].
    - split; [reflexivity|]. unfold Model.store. cbn [cache Model.with_cache]. rewrite lookup_insert_same.
      eexists. split; [reflexivity|]. cbn. rewrite start_now, start_ttl. auto.
    - split; [reflexivity|]. cbn [cache Model.with_cache]. apply lookup_remove_same.
  Qed.

  Theorem miss_parses_and_stamps s d :
    lookup (hash d) (cache ast s) = None ->
    match parse d with
    | inl a => snd (step s (Render d true)) = OAst a true /\
               exists e', lookup (hash d) (cache ast (fst (step s (Render d true)))) = Some e' /\
                          node ast e' = a /\ expires ast e' = now ast s + ttl ast s
    | inr x => snd (step s (Render d true)) = OErr x
    end.
  Proof.
    intros Hl. unfold Model.step. rewrite start_cache, Hl.
    destruct (parse d) as [a|x]; cbn [fst snd]; [|reflexivity].
    split; [reflexivity|]. unfold Model.store. cbn [cache Model.with_cache]. rewrite lookup_insert_same.
    eexists. split; [reflexivity|]. cbn. rewrite start_now, start_ttl. auto.
  Qed.

  Lemma render_keeps_now s d c : now ast (fst (step s (Render d c))) = now ast s.
  Proof.
    unfold Model.step. destruct c; cbn [fst]; [|reflexivity].
    destruct (lookup (hash d) (cache ast (start s))) as [e|].
    - destruct (now ast (start s) <? expires ast e); [apply start_now|].
      destruct (parse d); cbn; apply start_now.
    - destruct (parse d); cbn; apply start_now.
  Qed.

  (* the hash premise is necessary: a collision between a parsable document and a document
     with a different parse result breaks transparency *)
  Theorem collision_breaks_it s d d' a : hash d = hash d' -> parse d = inl a -> parse d' <> inl a ->
    lookup (hash d) (cache ast s) = None -> 0 < ttl ast s ->
    ~ all_ok s [Render d true; Render d' true].
  Proof.
    intros Hh Hp Hne Hmiss Httl H. cbn [Model.all_ok] in H. destruct H as [_ [H _]].
    pose proof (miss_parses_and_stamps s d Hmiss) as M. rewrite Hp in M.
    destruct M as [_ (e' & Hl & Hn & He)].
    set (s1 := fst (step s (Render d true))) in *.
    assert (Hnow : now ast s1 = now ast s) by apply render_keeps_now.
    assert (Hit : exists e, lookup (hash d') (cache ast s1) = Some e /\ now ast s1 < expires ast e).
    { exists e'. rewrite <- Hh. split; [exact Hl|]. lia. }
    apply hit_iff_before_expiry in Hit. destruct Hit as [a0 Ha0].
    destruct (hits_dont_extend _ _ _ Ha0) as [_ (e & Hl' & ->)].
    rewrite <- Hh, Hl in Hl'. inversion Hl'; subst e.
    cbn [Model.render_ok] in H. rewrite Ha0 in H. unfold Model.uncached, Model.agrees in H.
    destruct (parse d') as [a'|x]; [|exact H]. apply Hne. congruence.
  Qed.

  (* ------------------------------------------------------------------ once-only setters *)
  Theorem ttl_first_call_only s d :
    ttl ast (fst (step s (SetTTL d))) = (if ttl_once ast s then ttl ast s else d) /\
    ttl_once ast (fst (step s (SetTTL d))) = true.
  Proof. unfold Model.step. destruct (ttl_once ast s) eqn:E; cbn; auto. Qed.

  Theorem interval_first_call_only s d :
    interval ast (fst (step s (SetInterval d))) = (if int_once ast s then interval ast s else d) /\
    int_once ast (fst (step s (SetInterval d))) = true.
  Proof. unfold Model.step. destruct (int_once ast s) eqn:E; cbn; auto. Qed.

  (* the interval follows the TTL (half of it) exactly until it is set explicitly *)
  Theorem ttl_sets_default_interval s d : ttl_once ast s = false ->
    interval ast (fst (step s (SetTTL d))) = (if int_once ast s then interval ast s else Z.quot d 2) /\
    int_once ast (fst (step s (SetTTL d))) = int_once ast s.
  Proof. unfold Model.step. intros ->. cbn. auto. Qed.

  Lemma once_monotone s o :
    (ttl_once ast s = true -> ttl_once ast (fst (step s o)) = true /\ ttl ast (fst (step s o)) = ttl ast s) /\
    (int_once ast s = true -> int_once ast (fst (step s o)) = true /\ interval ast (fst (step s o)) = interval ast s).
  Proof.
    unfold Model.step.
    destruct o as [d [|]| dt | | t | t | ]; cbn [fst].
    - assert (A : forall x, ttl_once ast (start x) = ttl_once ast x /\ ttl ast (start x) = ttl ast x /\
                            int_once ast (start x) = int_once ast x /\ interval ast (start x) = interval ast x).
      { intros x. unfold Model.start. destruct (cl ast x); cbn; auto. }
      destruct (A s) as (A1 & A2 & A3 & A4).
      destruct (lookup (hash d) (cache ast (start s))) as [e|].
      + destruct (now ast (start s) <? expires ast e); [cbn [fst]; rewrite A1, A2, A3, A4; tauto|].
        destruct (parse d); cbn; rewrite A1, A2, A3, A4; tauto.
      + destruct (parse d); cbn; rewrite A1, A2, A3, A4; tauto.
    - tauto.
    - destruct (cl ast s) as [c|]; [|cbn; tauto]. destruct (last_tick c _); [|cbn; tauto].
      destruct (now ast s <? z); cbn; tauto.
    - destruct (cl ast s); cbn; tauto.
    - destruct (ttl_once ast s) eqn:E; cbn; [tauto|]. split; [discriminate|]. intros ->. auto.
    - destruct (int_once ast s) eqn:E; cbn; [tauto|]. split; [tauto|discriminate].
    - cbn. tauto.
  Qed.

  (* once set, a value survives every later history (later setter calls included) *)
  Theorem ttl_once_forever h s : ttl_once ast s = true -> ttl ast (exec s h) = ttl ast s.
  Proof.
    revert s. induction h as [|o r IH]; intros s H; cbn; [reflexivity|].
    destruct (once_monotone s o) as [A _]. destruct (A H) as [A1 A2].
    unfold Model.exec in IH. rewrite (IH _ A1). exact A2.
  Qed.
  Theorem interval_once_forever h s : int_once ast s = true -> interval ast (exec s h) = interval ast s.
  Proof.
    revert s. induction h as [|o r IH]; intros s H; cbn; [reflexivity|].
    destruct (once_monotone s o) as [_ A]. destruct (A H) as [A1 A2].
    unfold Model.exec in IH. rewrite (IH _ A1). exact A2.
  Qed.

  (* ------------------------------------------------------------------ ticks *)
  Lemma last_tick_spec c t tl : last_tick c t = Some tl ->
    0 < every c /\ tl <= t /\ t - every c < tl /\ started c + every c <= tl /\
    exists k, 1 <= k /\ tl = started c + k * every c.
  Proof.
    unfold last_tick. destruct (1 <=? (t - started c) / every c) eqn:E1; [|discriminate].
    destruct (0 <? every c) eqn:E2; [|discriminate]. cbn. intros H. inversion H; subst; clear H.
    apply Z.leb_le in E1. apply Z.ltb_lt in E2.
    pose proof (Z.mul_div_le (t - started c) (every c) E2).
    pose proof (Z.mul_succ_div_gt (t - started c) (every c) E2).
    repeat split; try nia. eexists; split; [exact E1|reflexivity].
  Qed.

  Lemma last_tick_stable c t t' tl : last_tick c t' = Some tl -> tl <= t -> t <= t' -> last_tick c t = Some tl.
  Proof.
    intros H Hle Hle'. destruct (last_tick_spec _ _ _ H) as (Hev & _ & Hgt & Hst & k & Hk & ->).
    unfold last_tick in *. destruct (1 <=? (t' - started c) / every c) eqn:E1; [|discriminate].
    destruct (0 <? every c) eqn:E2; [|discriminate]. cbn in H. inversion H as [H1]; clear H.
    assert (Hk' : (t' - started c) / every c = k) by nia.
    assert (Hkk : (t - started c) / every c = k).
    { symmetry. apply Z.div_unique with (r := t - started c - k * every c); nia. }
    rewrite Hkk. assert (E : (1 <=? k) = true) by (apply Z.leb_le; lia). rewrite E. cbn. rewrite ?Hk'. reflexivity.
  Qed.

  (* ------------------------------------------------------------------ eviction and safe configuration *)
  (* Invariant: a running cleaner has a positive period (what time.NewTicker demands), was
     started in the past, every entry was stored in the past, and no entry has survived the
     last tick after both its expiry and its store time. *)
  Definition EvInv (s : state) : Prop :=
    (forall k e, In (k, e) (cache ast s) -> stored ast e <= now ast s) /\
    (forall c, cl ast s = Some c ->
       0 < every c /\ started c <= now ast s /\
       forall tl, last_tick c (now ast s) = Some tl ->
         forall k e, In (k, e) (cache ast s) -> tl <= expires ast e \/ tl <= stored ast e).

  Lemma eff_interval_pos i : 0 < eff_interval i.
  Proof. unfold eff_interval. destruct (i <=? 0) eqn:E; [reflexivity|]. apply Z.leb_gt in E. lia. Qed.

  Lemma evinv_init t0 : EvInv (init ast t0).
  Proof. split; [intros k e []|]. cbn. discriminate. Qed.

  Lemma evinv_start s : EvInv s -> EvInv (start s).
  Proof.
    intros I. unfold Model.start. destruct (cl ast s) as [c|] eqn:Hc; [exact I|]. destruct I as [A B].
    split; [exact A|]. cbn. intros c H. inversion H; subst; clear H. cbn.
    split; [apply eff_interval_pos|]. split; [lia|]. intros tl Htl.
    apply last_tick_spec in Htl. cbn in Htl. pose proof (eff_interval_pos (interval ast s)). lia.
  Qed.

  Lemma evinv_filter s f : EvInv s -> EvInv (with_cache s (filter f (cache ast s))).
  Proof.
    intros [A B]. split.
    - intros k e H. cbn in H. apply filter_In in H. exact (A _ _ (proj1 H)).
    - cbn. intros c Hc. destruct (B c Hc) as (B1 & B2 & B3). repeat split; auto.
      intros tl Htl k e H. apply filter_In in H. exact (B3 tl Htl _ _ (proj1 H)).
  Qed.

  Lemma evinv_store s k a : EvInv s -> EvInv (store s k a).
  Proof.
    intros [A B]. split.
    - intros k' e. cbn. intros [H|H].
      + inversion H; subst. cbn. lia.
      + apply filter_In in H. exact (A _ _ (proj1 H)).
    - cbn. intros c Hc. destruct (B c Hc) as (B1 & B2 & B3). repeat split; auto.
      intros tl Htl k' e [H|H].
      + inversion H; subst. cbn. right. apply last_tick_spec in Htl. lia.
      + apply filter_In in H. exact (B3 tl Htl _ _ (proj1 H)).
  Qed.

  Lemma evinv_step s o : EvInv s -> EvInv (fst (step s o)).
  Proof.
    intros I. unfold Model.step.
    destruct o as [d [|]| dt | | t | t | ]; cbn [fst].
    - pose proof (evinv_start s I) as I1.
      destruct (lookup (hash d) (cache ast (start s))) as [e|].
      + destruct (now ast (start s) <? expires ast e); [exact I1|].
        destruct (parse d); cbn [fst].
        * apply evinv_store. apply evinv_filter. exact I1.
        * apply evinv_filter. exact I1.
      + destruct (parse d); cbn [fst]; [apply evinv_store|]; exact I1.
    - exact I.
    - (* advance *)
      destruct I as [A B].
      assert (Hmono : now ast s <= now ast s + Z.max 0 dt) by lia.
      destruct (cl ast s) as [c|] eqn:Hc.
      2:{ cbn. split; [|cbn; rewrite Hc; discriminate]. cbn. intros k e H. specialize (A _ _ H). lia. }
      destruct (B c eq_refl) as (B1 & B2 & B3).
      destruct (last_tick c (now ast s + Z.max 0 dt)) as [tl|] eqn:Htl.
      + destruct (now ast s <? tl) eqn:Hlt; cbn [fst].
        * (* a tick fell into the interval: sweep at the last one *)
          split.
          -- cbn. intros k e H. apply filter_In in H. specialize (A _ _ (proj1 H)). lia.
          -- cbn. rewrite Hc. intros c' Hc'. inversion Hc'; subst c'. repeat split; auto; [lia|].
             intros tl' Htl'. rewrite Htl in Htl'. inversion Htl'; subst tl'.
             intros k e H. apply filter_In in H. destruct H as [_ H]. cbn in H.
             apply negb_true_iff in H. apply Z.ltb_ge in H. left. exact H.
        * (* no new tick *)
          apply Z.ltb_ge in Hlt. split.
          -- cbn. intros k e H. specialize (A _ _ H). lia.
          -- cbn. rewrite Hc. intros c' Hc'. inversion Hc'; subst c'. repeat split; auto; [lia|].
             intros tl' Htl'. rewrite Htl in Htl'. inversion Htl'; subst tl'.
             apply B3. apply (last_tick_stable c _ _ _ Htl); lia.
      + cbn [fst]. split.
        * cbn. intros k e H. specialize (A _ _ H). lia.
        * cbn. rewrite Hc. intros c' Hc'. inversion Hc'; subst c'. repeat split; auto; [lia|].
          intros tl' Htl'. rewrite Htl in Htl'. discriminate.
    - destruct (cl ast s); [apply evinv_filter|]; exact I.
    - destruct (ttl_once ast s); [exact I|]. destruct I as [A B]. split; [exact A|exact B].
    - destruct (int_once ast s); [exact I|]. destruct I as [A B]. split; [exact A|exact B].
    - destruct I as [A B]. split; [exact A|]. cbn. discriminate.
  Qed.

  Theorem evinv_reachable t0 h : EvInv (exec (init ast t0) h).
  Proof.
    assert (G : forall h s, EvInv s -> EvInv (exec s h)).
    { clear. intros h. induction h as [|o r IH]; intros s I; cbn; [exact I|]. apply IH. now apply evinv_step. }
    apply G. apply evinv_init.
  Qed.

  (* Safe configuration: whatever TTL / interval values were configured (zero, negative, tiny,
     huge), in every reachable state a running cleaner's ticker period is positive, i.e. the
     precondition of time.NewTicker holds: no configuration can crash the process. *)
  Theorem safe_config t0 h c : cl ast (exec (init ast t0) h) = Some c -> 0 < every c.
  Proof. intros H. destruct (evinv_reachable t0 h) as [_ B]. exact (proj1 (B c H)). Qed.

  (* Eviction bound: once the cleaner has been running for at least one period, no entry is
     still stored that both expired and was stored more than one period ago. *)
  Theorem eviction_bound t0 h c : let s := exec (init ast t0) h in
    cl ast s = Some c -> every c <= now ast s - started c ->
    forall k e, In (k, e) (cache ast s) ->
      now ast s - every c < expires ast e \/ now ast s - every c < stored ast e.
  Proof.
    intros s Hc Hrun k e Hin. destruct (evinv_reachable t0 h) as [_ B]. fold s in B.
    destruct (B c Hc) as (B1 & B2 & B3).
    destruct (last_tick c (now ast s)) as [tl|] eqn:Htl.
    - pose proof (last_tick_spec _ _ _ Htl) as (_ & _ & Hgt & _). destruct (B3 tl eq_refl _ _ Hin); lia.
    - exfalso. unfold last_tick in Htl.
      assert (E : 1 <= (now ast s - started c) / every c).
      { apply Z.div_le_lower_bound; lia. }
      apply Z.leb_le in E. rewrite E in Htl. assert (E2 : (0 <? every c) = true) by (apply Z.ltb_lt; lia).
      rewrite E2 in Htl. discriminate.
  Qed.

  (* Advance = let the clock move, then (if a tick fell into the interval) one sweep at the
     time of the last tick: the decomposition the correspondence check observes piecewise *)
  Theorem advance_is_shift_then_sweep s dt :
    fst (step s (Advance dt)) =
    let s' := with_now s (now ast s + Z.max 0 dt) in
    match cl ast s with
    | Some c => match last_tick c (now ast s') with
                | Some tl => if now ast s <? tl then with_cache s' (sweep tl (cache ast s')) else s'
                | None => s'
                end
    | None => s'
    end.
  Proof.
    unfold Model.step. cbn [now Model.with_now]. destruct (cl ast s) as [c|]; [|reflexivity].
    destruct (last_tick c _) as [tl|]; [|reflexivity]. destruct (now ast s <? tl); reflexivity.
  Qed.

  (* stopping terminates the cleaner; the next cached compilation starts exactly one *)
  Theorem stop_then_restart s d : running ast (fst (step s Stop)) = false /\
    running ast (fst (step (fst (step s Stop)) (Render d true))) = true.
  Proof.
    split; [reflexivity|]. unfold Model.step. cbn [fst].
    set (s0 := with_cl s None).
    assert (R : running ast (start s0) = true) by reflexivity.
    destruct (lookup (hash d) (cache ast (start s0))) as [e|].
    - destruct (now ast (start s0) <? expires ast e); [exact R|]. destruct (parse d); exact R.
    - destruct (parse d); exact R.
  Qed.
End Proofs.
