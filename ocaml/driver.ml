(* Driver of the extracted models: one request per line "<function> <hex input>", one answer per line
   (hex, or NONE).  Bytes: Coq's Byte.byte is a 256-constructor inductive extracted to an OCaml variant
   of constant constructors X00..Xff, represented as the immediates 0..255; the conversion below relies
   on that and is self-tested at start-up against the extracted Byte.to_nat. *)
let byte_of_int (i : int) : Model.byte = Obj.magic i
let int_of_byte (b : Model.byte) : int = (Obj.magic b : int)

let rec nat_to_int (n : Model.nat) : int = match n with Model.O -> 0 | Model.S m -> 1 + nat_to_int m

let self_test () =
  for i = 0 to 255 do
    if nat_to_int (Model.m_byte_to_nat (byte_of_int i)) <> i then begin
      prerr_endline "driver: byte representation self-test failed"; exit 3 end
  done

let hexval c = match c with
  | '0'..'9' -> Char.code c - 48 | 'a'..'f' -> Char.code c - 87 | 'A'..'F' -> Char.code c - 55
  | _ -> failwith "hex"

let bytes_of_hex (s : string) : Model.byte list =
  let n = String.length s / 2 in
  let rec go i acc = if i < 0 then acc else go (i - 1) (byte_of_int (16 * hexval s.[2*i] + hexval s.[2*i+1]) :: acc) in
  go (n - 1) []

let hex_of_bytes (l : Model.byte list) : string =
  let b = Buffer.create 256 in
  List.iter (fun x -> Buffer.add_string b (Printf.sprintf "%02x" (int_of_byte x))) l;
  Buffer.contents b

let ser_tok (t : Model.tok) : string =
  let h = hex_of_bytes in
  match t with
  | Model.TOpen (n, attrs, sc) ->
      "O:" ^ h n ^ ":" ^ String.concat "," (List.map (fun (a, v) -> h a ^ "=" ^ h v) attrs) ^ ":" ^ (if sc then "1" else "0")
  | Model.TClose n -> "C:" ^ h n
  | Model.TText s -> "T:" ^ h s
  | Model.TMsoOpen c -> "MO:" ^ h c
  | Model.TMsoEnd -> "ME"
  | Model.TNotMsoOpen c -> "NO:" ^ h c
  | Model.TNotMsoEnd -> "NE"
  | Model.TCmt s -> "CM:" ^ h s
  | Model.TDoctype s -> "D:" ^ h s

let str_of_bytes (l : Model.byte list) : string =
  let b = Buffer.create 64 in List.iter (fun x -> Buffer.add_char b (Char.chr (int_of_byte x))) l; Buffer.contents b

let ser_ntok (t : Model.ntok) : string =
  let s = str_of_bytes in
  match t with
  | Model.NOpen (n, attrs, sc) ->
      "<" ^ s n ^ String.concat "" (List.map (fun a -> match a with
          | Model.NAttr (k, v) -> " " ^ s k ^ "=[" ^ s v ^ "]"
          | Model.NStyle ds -> " style={" ^ String.concat ";" (List.map (fun (p, v) -> s p ^ ":" ^ s v) ds) ^ "}") attrs) ^ (if sc then " /" else "") ^ ">"
  | Model.NClose n -> "</" ^ s n ^ ">"
  | Model.NText x -> "TEXT[" ^ s x ^ "]"
  | Model.NMsoOpen c -> "MSO-OPEN[" ^ s c ^ "]"
  | Model.NMsoEnd -> "MSO-END"
  | Model.NNotMsoOpen c -> "NOTMSO-OPEN[" ^ s c ^ "]"
  | Model.NNotMsoEnd -> "NOTMSO-END"
  | Model.NCmt x -> "COMMENT[" ^ s x ^ "]"
  | Model.NDoctype x -> "DOCTYPE[" ^ s x ^ "]"

let () =
  self_test ();
  try
    while true do
      let line = input_line stdin in
      match String.index_opt line ' ' with
      | None -> print_endline "BAD"
      | Some i ->
        let fn = String.sub line 0 i in
        let arg = if fn = "merge" || fn = "equiv" || fn = "normdump" || fn = "inlinediff" || fn = "inlinerelaxed" || fn = "cssrules" then [] else bytes_of_hex (String.sub line (i + 1) (String.length line - i - 1)) in
        if fn = "inlinediff" || fn = "inlinerelaxed" then begin
          let rest = String.sub line (i + 1) (String.length line - i - 1) in
          (match String.split_on_char ':' rest with
           | [c; a; b] -> print_endline (match (if fn = "inlinediff" then Model.m_inline_diff else Model.m_inline_relaxed_diff) (bytes_of_hex c) (bytes_of_hex a) (bytes_of_hex b) with None -> "EQ" | Some n -> string_of_int (nat_to_int n))
           | _ -> print_endline "BAD") end
        else if fn = "cssrules" then begin
          let arg = bytes_of_hex (String.sub line (i + 1) (String.length line - i - 1)) in
          let rules = Model.m_parse_rules arg in
          print_endline (String.concat "|" (List.map (fun (sels, decls) ->
            String.concat "," (List.map hex_of_bytes sels) ^ "/" ^ String.concat "," (List.map (fun (p, v) -> hex_of_bytes p ^ "=" ^ hex_of_bytes v) decls)) rules)) end
        else
        if fn = "normdump" then begin
          let arg = bytes_of_hex (String.sub line (i + 1) (String.length line - i - 1)) in
          print_endline (String.concat "\x01" (List.map (fun t -> String.map (fun c -> if c = '\n' then ' ' else c) (ser_ntok t)) (Model.m_norm arg))) end
        else
        if fn = "equiv" then begin
          let rest = String.sub line (i + 1) (String.length line - i - 1) in
          let k = String.index rest ':' in
          let a = bytes_of_hex (String.sub rest 0 k) and b = bytes_of_hex (String.sub rest (k + 1) (String.length rest - k - 1)) in
          print_endline (match Model.m_equiv_diff a b with None -> "EQ" | Some n -> string_of_int (nat_to_int n)) end
        else
        if fn = "merge" then begin
          let rest = String.sub line (i + 1) (String.length line - i - 1) in
          let k = String.index rest ':' in
          let a = bytes_of_hex (String.sub rest 0 k) and b = bytes_of_hex (String.sub rest (k + 1) (String.length rest - k - 1)) in
          print_endline (if Model.m_merge_check a b then "1" else "0") end
        else
        if fn = "stdtexts" || fn = "msotexts" then begin
          let r = if fn = "stdtexts" then Model.m_std_texts arg else Model.m_mso_texts arg in
          match r with
          | Some l -> print_endline ("T" ^ String.concat "," (List.map hex_of_bytes l))
          | None -> print_endline "NONE" end
        else
        if fn = "lex" then print_endline (String.concat ";" (List.map ser_tok (Model.m_lex arg)))
        else if fn = "check" then
          print_endline ((if Model.m_check_std arg then "1" else "0") ^ (if Model.m_check_mso arg then "1" else "0") ^
                         (if Model.m_no_vml_outside arg then "1" else "0"))
        else
        let out =
          match fn with
          | "strip" -> Some (Model.m_strip arg)
          | "classorder" -> Some (Model.m_classorder arg)
          | "escamp" -> Some (Model.m_escamp arg)
          | "entities" -> Some (Model.m_entities arg)
          | "wrap" -> Model.m_wrap arg
          | "preprocess" -> Model.m_preprocess arg
          | _ -> None in
        (match out with Some l -> print_endline (hex_of_bytes l) | None -> print_endline "NONE")
    done
  with End_of_file -> ()
