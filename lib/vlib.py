"""Shared machinery of the gomjml verification checks (stdlib only).

facts -> make (Coq cone) -> harness -> model evaluation -> diff -> search -> evidence
"""
import fcntl
import hashlib
import json
import os
import random
import re
import shutil
import subprocess
import sys
import time

VERIF = os.path.dirname(os.path.dirname(os.path.abspath(__file__)))
REPO = os.environ.get("VERIF_REPO", "/repo")
BUILD = os.path.join(VERIF, "build")
COQ = os.path.join(VERIF, "coq")
EVID = os.path.join(VERIF, "evidence")
REPLAYS = os.path.join(VERIF, "replays")
CORPUS = os.path.join(VERIF, "corpus")

COQ_TIMEOUT = 1500  # seconds, shell-level cap on every make/coqc


def log(*a):
    print(*a, file=sys.stderr, flush=True)


# --------------------------------------------------------------------------- toolchain

def go_bin():
    for cand in ("go1.26", "go1.26.8"):
        p = shutil.which(cand)
        if p:
            return p, True
    return shutil.which("go") or "go", False


def go_env():
    env = dict(os.environ)
    g, pinned = go_bin()
    env["GOFLAGS"] = "-mod=mod"
    env["GOPROXY"] = "off"
    if pinned:
        env["GOTOOLCHAIN"] = "local"
        env["GOSUMDB"] = "off"
    else:
        env.pop("GOSUMDB", None)
        env["GOTOOLCHAIN"] = "auto"
    env.setdefault("GOCACHE", os.path.join(BUILD, "gocache"))
    return g, env


class Lock:
    """Inter-process lock: builds (make, go build) are serialised across checks."""

    def __init__(self, name):
        os.makedirs(BUILD, exist_ok=True)
        self.path = os.path.join(BUILD, name + ".lock")

    def __enter__(self):
        self.f = open(self.path, "w")
        fcntl.flock(self.f, fcntl.LOCK_EX)
        return self

    def __exit__(self, *a):
        fcntl.flock(self.f, fcntl.LOCK_UN)
        self.f.close()


def run(cmd, cwd=None, env=None, timeout=None, input=None):
    t0 = time.time()
    try:
        p = subprocess.run(cmd, cwd=cwd, env=env, timeout=timeout, input=input,
                           stdout=subprocess.PIPE, stderr=subprocess.PIPE, text=True)
        return p.returncode, p.stdout, p.stderr, time.time() - t0
    except subprocess.TimeoutExpired as e:
        out = e.stdout if isinstance(e.stdout, str) else (e.stdout or b"").decode("utf8", "replace")
        err = e.stderr if isinstance(e.stderr, str) else (e.stderr or b"").decode("utf8", "replace")
        return 124, out, err + "\nTIMEOUT", time.time() - t0


def build_go(moddir, out, tags="verif", race=False, pkg="."):
    """Build a Go module of /verif (harness, gen) against /repo's working tree."""
    g, env = go_env()
    os.makedirs(BUILD, exist_ok=True)
    with Lock("gobuild"):
        shutil.copyfile(os.path.join(REPO, "go.sum"), os.path.join(moddir, "go.sum"))
        # the replace directive must point at the repo under test
        gm = os.path.join(moddir, "go.mod")
        txt = open(gm).read()
        new = re.sub(r"=> \S+", "=> " + REPO, txt)
        if new != txt:
            open(gm, "w").write(new)
        cmd = [g, "build"]
        if tags:
            cmd += ["-tags", tags]
        if race:
            cmd += ["-race"]
        cmd += ["-o", out, pkg]
        rc, so, se, dt = run(cmd, cwd=moddir, env=env, timeout=900)
    return rc == 0, so + se


def build_harness(race=False):
    out = os.path.join(BUILD, "harness-race" if race else "harness")
    ok, msg = build_go(os.path.join(VERIF, "harness"), out, race=race)
    return (out if ok else None), msg


def build_cli():
    g, env = go_env()
    out = os.path.join(BUILD, "gomjml")
    with Lock("gobuild"):
        rc, so, se, dt = run([g, "build", "-o", out, "./cmd/gomjml"], cwd=REPO, env=env, timeout=900)
    return (out if rc == 0 else None), so + se


def harness(binpath, sub, jobs, timeout=600, args=()):
    """Run a harness sub-command: one JSON job per input line, one JSON result per output line."""
    inp = "".join(json.dumps(j) + "\n" for j in jobs)
    env = dict(os.environ)
    rc, so, se, dt = run([binpath, sub] + list(args), input=inp, timeout=timeout, env=env)
    res = []
    for line in so.splitlines():
        line = line.strip()
        if line.startswith("{"):
            try:
                res.append(json.loads(line))
            except Exception:
                res.append({"bad_line": line[:200]})
    return rc, res, se


# --------------------------------------------------------------------------- facts (translator)

def gen_facts():
    """Regenerate coq/Facts/*.v and build/facts.json from /repo's working tree."""
    out = os.path.join(BUILD, "gomjml-facts")
    ok, msg = build_go(os.path.join(VERIF, "gen"), out, tags="verif")
    if not ok:
        return False, "building gen/gomjml-facts failed:\n" + msg
    os.makedirs(os.path.join(COQ, "Facts"), exist_ok=True)
    g, env = go_env()
    with Lock("facts"):
        rc, so, se, dt = run([out, "-repo", REPO, "-out", os.path.join(COQ, "Facts"),
                              "-json", os.path.join(BUILD, "facts.json")], env=env, timeout=600)
    gen_known_bad()
    return rc == 0, so + se


def gen_known_bad():
    """coq/Facts/KnownBad.v: the committed lists of known_findings.json as Gallina data (never written to at run time)."""
    p = os.path.join(VERIF, "known_findings.json")
    data = json.load(open(p)) if os.path.exists(p) else {}
    cells = [(k["tag"], k["attr"]) for k in data.get("known", []) if k.get("property") == "C09"]
    cells += [tuple(c) for c in data.get("c09_bypass_sites_without_observed_effect", {}).get("cells", [])]
    body = ("(* GENERATED from /verif/known_findings.json (committed; not modified by any check). *)\n"
            "From Coq Require Import List String.\nImport ListNotations.\nOpen Scope string_scope.\n"
            "Definition listed_cells : list (string * string) := [\n" +
            ";\n".join('  ("%s", "%s")' % c for c in sorted(set(cells))) + "].\n")
    path = os.path.join(COQ, "Facts", "KnownBad.v")
    if not os.path.exists(path) or open(path).read() != body:
        open(path, "w").write(body)


def load_facts():
    return json.load(open(os.path.join(BUILD, "facts.json")))


# --------------------------------------------------------------------------- Coq

def coq_project_files():
    files = []
    for line in open(os.path.join(COQ, "_CoqProject")):
        line = line.strip()
        if line.endswith(".v"):
            files.append(line)
    return files


def coq_ensure_makefile():
    mk = os.path.join(COQ, "Makefile")
    cp = os.path.join(COQ, "_CoqProject")
    if (not os.path.exists(mk)) or os.path.getmtime(mk) < os.path.getmtime(cp):
        rc, so, se, dt = run(["coq_makefile", "-f", "_CoqProject", "-o", "Makefile"], cwd=COQ, timeout=120)
        if rc != 0:
            raise RuntimeError("coq_makefile failed: " + se)


def coq_make(targets, jobs=16):
    """Full .vo build of the given targets (and everything they depend on)."""
    with Lock("coqmake"):
        coq_ensure_makefile()
        cmd = ["timeout", str(COQ_TIMEOUT), "make", "-j%d" % jobs] + list(targets)
        rc, so, se, dt = run(cmd, cwd=COQ, timeout=COQ_TIMEOUT + 30)
    return rc == 0, so + "\n" + se, dt


def coq_cone(vfile):
    """Transitive GV dependencies of a .v file (project-relative paths), incl. itself."""
    rc, so, se, dt = run(["coqdep", "-f", "_CoqProject"], cwd=COQ, timeout=120)
    deps = {}
    for line in so.splitlines():
        if ":" not in line:
            continue
        lhs, rhs = line.split(":", 1)
        tgt = [t for t in lhs.split() if t.endswith(".vo")]
        if not tgt:
            continue
        src = tgt[0][:-1]
        deps[src] = [d[:-1] for d in rhs.split() if d.endswith(".vo")]
    seen, todo = set(), [vfile]
    while todo:
        f = todo.pop()
        if f in seen:
            continue
        seen.add(f)
        todo += deps.get(f, [])
    return sorted(seen)


PROOF_END = re.compile(r"\b(Qed|Defined)\s*\.")
FORBIDDEN = re.compile(r"\b(Admitted|admit|Axiom|Axioms|Parameter|Parameters|Conjecture|Conjectures|"
                       r"Unset\s+Guard|bypass_check|Admit\s+Obligations|native_compute|type-in-type)\b")


def strip_comments(src):
    out, depth, i = [], 0, 0
    while i < len(src):
        if src.startswith("(*", i):
            depth += 1
            i += 2
        elif src.startswith("*)", i) and depth:
            depth -= 1
            i += 2
        else:
            if depth == 0:
                out.append(src[i])
            i += 1
    return "".join(out)


def coq_count_obligations(files):
    """(#Qed/Defined-closed statements, forbidden tokens found) over project files."""
    n, bad = 0, []
    for f in files:
        p = os.path.join(COQ, f)
        if not os.path.exists(p):
            continue
        src = strip_comments(open(p).read())
        n += len(PROOF_END.findall(src))
        for m in FORBIDDEN.finditer(src):
            bad.append("%s: %s" % (f, m.group(0)))
        # section-less Variable/Hypothesis
        if re.search(r"^\s*(Variable|Variables|Hypothesis|Hypotheses)\b", src, re.M) and "Section" not in src:
            bad.append("%s: Variable/Hypothesis outside a section" % f)
    return n, bad


def coq_assumptions(makelog, vo_log_file=None):
    """Extract Print Assumptions output from a build log."""
    out = []
    for m in re.finditer(r"(Closed under the global context|Axioms:\n(?:.+\n)+?)(?=\n|\Z)", makelog):
        out.append(m.group(1).strip())
    return out


def coq_eval(name, body, timeout=900):
    """Compile a generated .v file (cases evaluated by vm_compute) and return coqc's stdout."""
    d = os.path.join(BUILD, "cases")
    os.makedirs(d, exist_ok=True)
    p = os.path.join(d, name + ".v")
    open(p, "w").write(body)
    # large string literals need a deep parser stack
    rc, so, se, dt = run(["bash", "-c", "ulimit -s unlimited 2>/dev/null; exec timeout %d coqc -Q %s GV %s" % (timeout, COQ, p)], cwd=d, timeout=timeout + 30)
    for ext in (".v", ".vo", ".vok", ".vos", ".glob"):      # the cases are regenerated on every run: do not let them pile up
        try:
            os.remove(os.path.join(d, name + ext))
        except OSError:
            pass
    try:
        os.remove(os.path.join(d, "." + name + ".aux"))
    except OSError:
        pass
    return rc == 0, so, se, dt


def coq_string(s):
    """A Coq string literal (Coq.Strings.String) for arbitrary bytes/str (non-printables via list)."""
    if isinstance(s, bytes):
        s = s.decode("latin1")
    return '"' + s.replace('"', '""') + '"'


def coq_list(items):
    return "[" + "; ".join(items) + "]"


def coq_bool(b):
    return "true" if b else "false"


def coq_z(n):
    return "(%d)%%Z" % n


def build_model_runner():
    """Extract the executable models (against the freshly generated facts) and compile the OCaml runner."""
    oc = os.path.join(VERIF, "ocaml")
    out = os.path.join(BUILD, "model_runner")
    with Lock("extract"):
        proj = set(coq_project_files())
        want = [f for f in ("Base/Bytes.v", "Base/Tok.v", "Skel/Compose.v", "Norm/Norm.v", "Inline/Css.v", "Inline/Tag.v", "Parser/Pre.v", "Facts/ParserConsts.v", "Inline/Css.v", "Inline/Html.v",
                            "Norm/Norm.v", "Norm/ClassOrder.v", "Width/Model.v") if f in proj]
        ok, mlog, dt = coq_make([f + "o" for f in want])
        if not ok:
            return None, mlog
        rc, so, se, dt = run(["timeout", "600", "coqc", "-Q", COQ, "GV", os.path.join(COQ, "Extract", "Extract.v")], cwd=oc, timeout=630)
        if rc != 0:
            return None, so + se
        rc, so, se, dt = run(["ocamlfind", "ocamlopt", "-w", "-a", "-o", out, "model.mli", "model.ml", "driver.ml"], cwd=oc, timeout=600)
        if rc != 0:
            return None, so + se
    return out, ""


def model_run(runner, requests, procs=16, timeout=900):
    """requests: list of (fn, bytes). Returns list of bytes or None, in order."""
    import concurrent.futures
    shards = [list(range(k, len(requests), procs)) for k in range(procs)]

    def work(idx):
        inp = "".join("%s %s\n" % (requests[i][0], requests[i][1].hex() if isinstance(requests[i][1], (bytes, bytearray))
                                   else ":".join(x.hex() for x in requests[i][1])) for i in idx)
        rc, so, se, dt = run(["bash", "-c", "ulimit -s unlimited 2>/dev/null; exec %s" % runner], input=inp, timeout=timeout)
        lines = so.split("\n")
        return idx, lines

    out = [None] * len(requests)
    with concurrent.futures.ThreadPoolExecutor(procs) as ex:
        for idx, lines in ex.map(work, [s for s in shards if s]):
            for i, line in zip(idx, lines):
                line = line.strip()
                if requests[i][0] in ("stdtexts", "msotexts"):
                    out[i] = None if not line.startswith("T") else [bytes.fromhex(x).decode("utf8", "replace") for x in line[1:].split(",") if x != "" or line == "T"]
                    continue
                if requests[i][0] == "normdump":
                    out[i] = line.split("\x01")
                    continue
                if requests[i][0] in ("lex", "check", "merge", "equiv", "inlinediff", "inlinerelaxed", "cssrules"):
                    out[i] = line
                    continue
                if line and line not in ("NONE", "BAD"):
                    try:
                        out[i] = bytes.fromhex(line)
                    except ValueError:
                        out[i] = None
                elif line == "":
                    out[i] = b"" if len(lines) > idx.index(i) else None
    return out


def parse_toks(line):
    """tokens serialised by the OCaml driver -> list of tuples
    ("O", name, [(attr, value)...], selfclosed) | ("C", name) | ("T", text) | ("MO", cond) | ("ME",) | ("NO", cond) | ("NE",) | ("CM", text) | ("D", text)"""
    out = []
    if not line:
        return out
    unh = lambda x: bytes.fromhex(x).decode("utf8", "replace")
    for item in line.split(";"):
        parts = item.split(":")
        k = parts[0]
        if k == "O":
            attrs = []
            if parts[2]:
                for av in parts[2].split(","):
                    a, v = av.split("=")
                    attrs.append((unh(a), unh(v)))
            out.append(("O", unh(parts[1]), attrs, parts[3] == "1"))
        elif k in ("ME", "NE"):
            out.append((k,))
        else:
            out.append((k, unh(parts[1]) if len(parts) > 1 else ""))
    return out


# --------------------------------------------------------------------------- known findings

def known_findings(pid):
    p = os.path.join(VERIF, "known_findings.json")
    if not os.path.exists(p):
        return []
    data = json.load(open(p))
    return [k for k in data.get("known", []) if k.get("property") == pid]


# --------------------------------------------------------------------------- check context

class Check:
    def __init__(self, pid, tier, seed):
        self.pid, self.tier, self.seed = pid, tier, seed
        self.rng = random.Random(seed)
        self.t0 = time.time()
        self.violations = []
        self.known_hits = []
        self.cov = {"evaluations": 0, "distinct_nontrivial": 0, "rule": "", "samples": [],
                    "obligations": 0, "discharged": 0, "checker_cmd": "", "trusted_base": [],
                    "input_distribution": {}}
        self.assumptions = []
        self._distinct = set()
        self.notes = []
        for f in os.listdir(REPLAYS) if os.path.isdir(REPLAYS) else []:
            if f.startswith(pid + "-"):
                os.remove(os.path.join(REPLAYS, f))

    @property
    def quick(self):
        return self.tier == "quick"

    # -- exploration accounting
    def count(self, case_text, nontrivial=True, tags=()):
        self.cov["evaluations"] += 1
        if nontrivial:
            h = hashlib.sha1(case_text.encode("utf8", "replace")).hexdigest()
            if h not in self._distinct:
                self._distinct.add(h)
                self.cov["distinct_nontrivial"] += 1
        for t in tags:
            d = self.cov["input_distribution"]
            d[t] = d.get(t, 0) + 1

    def sample(self, obj, limit=5):
        if len(self.cov["samples"]) < limit:
            self.cov["samples"].append(obj)

    # -- proof accounting
    def prove(self, prop_file, extra_targets=()):
        """Build the property's Coq cone. Returns (ok, log)."""
        cone = coq_cone(prop_file)
        nobl, bad = coq_count_obligations(cone)
        targets = [prop_file + "o"] + [t + "o" for t in extra_targets]
        ok, mlog, dt = coq_make(targets)
        self.cov["checker_cmd"] = ("cd /verif/coq && coq_makefile -f _CoqProject -o Makefile && "
                                   "timeout %d make -j16 %s" % (COQ_TIMEOUT, " ".join(targets)))
        self.cov["obligations"] += nobl
        self.cov["coq_files_in_cone"] = cone
        self.cov["coq_build_s"] = round(dt, 1)
        if bad:
            ok = False
            mlog += "\nFORBIDDEN tokens: " + "; ".join(bad)
        if ok:
            self.cov["discharged"] += nobl
        # Print Assumptions output is in the log only when the file was recompiled; keep a cache.
        cache = os.path.join(BUILD, "assumptions-%s.txt" % os.path.basename(prop_file))
        found = re.findall(r"Closed under the global context|Axioms:\n(?:[^\n]+\n)+", mlog)
        if found:
            open(cache, "w").write("\n".join(f.strip() for f in found))
        elif ok and not os.path.exists(cache):
            # the property file was already compiled: recompile it once to capture Print Assumptions
            os.utime(os.path.join(COQ, prop_file))
            ok2, mlog2, _ = coq_make([prop_file + "o"])
            found = re.findall(r"Closed under the global context|Axioms:\n(?:[^\n]+\n)+", mlog2)
            if found:
                open(cache, "w").write("\n".join(f.strip() for f in found))
        if os.path.exists(cache):
            self.cov["print_assumptions"] = sorted(set(open(cache).read().split("\n")))
        if ok and self.tier == "thorough":
            # independent re-check of the compiled cone (and everything it depends on) + axiom summary
            mod = "GV." + prop_file[:-2].replace("/", ".")
            t0 = time.time()
            try:
                r = subprocess.run(["timeout", "3000", "coqchk", "-silent", "-o", "-Q", ".", "GV", mod], cwd=COQ,
                                   stdout=subprocess.PIPE, stderr=subprocess.STDOUT, text=True)
                out, rc = r.stdout, r.returncode
            except Exception as e:  # pragma: no cover
                out, rc = str(e), 1
            summ = out[out.find("CONTEXT SUMMARY"):] if "CONTEXT SUMMARY" in out else out[-600:]
            self.cov["coqchk"] = {"cmd": "cd /verif/coq && coqchk -silent -o -Q . GV " + mod, "exit": rc, "wall_s": round(time.time() - t0, 1),
                                  "summary": [l.strip() for l in summ.splitlines() if l.strip().startswith("*") or l.strip().startswith("GV.") or "Axiom" in l]}
            if rc != 0 or "* Axioms: <none>" not in " ".join(summ.split()):
                ok = False
                mlog += "\ncoqchk did not accept the cone or reports axioms:\n" + summ[-1500:]
        return ok, mlog

    def fact_obligations(self, n, ok=True):
        self.cov["obligations"] += n
        if ok:
            self.cov["discharged"] += n

    # -- reporting
    def known(self, what):
        print("KNOWN-FINDING: property=%s %s" % (self.pid, what), flush=True)
        self.known_hits.append(what)

    def violation(self, replay, no_input=False):
        os.makedirs(REPLAYS, exist_ok=True)
        n = len(self.violations) + 1
        path = os.path.join(REPLAYS, "%s-%d.json" % (self.pid, n))
        replay = dict(replay)
        replay.setdefault("property", self.pid)
        replay.setdefault("seed", self.seed)
        replay.setdefault("tier", self.tier)
        json.dump(replay, open(path, "w"), indent=1, default=str)
        line = "VIOLATION property=%s replay=%s" % (self.pid, path)
        if no_input:
            line += " no-failing-input-found"
        print(line, flush=True)
        self.violations.append(path)

    def finish(self):
        os.makedirs(EVID, exist_ok=True)
        cov = self.cov
        cov["known_findings_replayed"] = self.known_hits
        if self.notes:
            cov["notes"] = self.notes
        ev = {"property_id": self.pid, "tier": self.tier, "seed": self.seed, "level": "proof",
              "coverage": cov, "assumptions": self.assumptions,
              "wall_s": round(time.time() - self.t0, 2), "violations": len(self.violations)}
        json.dump(ev, open(os.path.join(EVID, self.pid + ".json"), "w"), indent=1, default=str)
        return 1 if self.violations else 0


TRUSTED_COMMON = [
    "Coq 8.16.1 kernel (coqc), incl. the vm_compute bytecode VM; no native_compute; thorough tier re-checks the cone with coqchk",
    "no Axiom/Parameter/Admitted in the development (grep-enforced per run); Print Assumptions output recorded in coverage.print_assumptions",
    "Go toolchain, runtime and standard library (encoding/xml, sync, time, context, maphash, strconv, fmt)",
    "the correspondence harness (harness/*.go), the check driver (bin/check, lib/vlib.py, checks/*.py) and the verif-tagged hooks in /repo",
]


def shrink_list(items, fails, max_rounds=200):
    """Greedy delta-debugging on a list: smallest sublist (order kept) on which `fails` is still true."""
    items = list(items)
    n = 2
    rounds = 0
    while len(items) >= 2 and rounds < max_rounds:
        rounds += 1
        chunk = max(1, len(items) // n)
        reduced = False
        for i in range(0, len(items), chunk):
            cand = items[:i] + items[i + chunk:]
            if cand and fails(cand):
                items = cand
                n = max(n - 1, 2)
                reduced = True
                break
        if not reduced:
            if chunk == 1:
                break
            n = min(n * 2, len(items))
    return items
