"""Document generator: abstract MJML documents (trees), typed / hostile attribute values, printer.

A node is {"tag": str, "attrs": {name: value}, "children": [node...], "text": str or None}.
Attribute values are drawn from the types declared in /repo's allowed-css-attributes.json, so a new
attribute is picked up without touching this file.
"""
import json
import os
import re

REPO = os.environ.get("VERIF_REPO", "/repo")


def allowed():
    t = json.load(open(os.path.join(REPO, "mjml/components/allowed-css-attributes.json")))
    if "mj-wrapper" not in t and "mj-section" in t:
        # mj-wrapper has no entry in the validation table, yet resolves the box attributes of a section
        t["mj-wrapper"] = {a: v for a, v in t["mj-section"].items() if a in (
            "background-color", "border", "border-bottom", "border-left", "border-right", "border-top", "border-radius",
            "padding", "padding-bottom", "padding-left", "padding-right", "padding-top", "text-align")}
    return t


COLORS = ["#ff0000", "#00ff00", "#123456", "red", "#abc", "#ABC", "#FfF", "#fff", "transparent", "rgb(1,2,3)"]
FONTS = ["Roboto, Arial", "Lato", "Open Sans, sans-serif", "Montserrat", "Ubuntu, Helvetica, Arial, sans-serif",
         "Georgia, serif", "Arial"]
URLS = ["https://example.com/a.png", "http://x.test/b.jpg?x=1&y=2", "https://example.com/"]
BORDERS = ["1px solid #000", "2px dashed red", "none", "3px solid #123456"]
HOSTILE = ["", " ", "-1", "px", "%", "NaN", "Inf", "-Inf", "1e309px", "1e18px", "99999999999999999999", "99999999999999999999px",
           "0", "0px", "-5px", "100%", "1000%", "-50%", "1px 2px 3px", "1px 2px 3px 4px 5px", "1 2", "abc", "10 px", "1.5.5px",
           "0x10", "+5px", "１０px", "10px;", "10PX", "1e3px", ".5px", "5.px", "1px,2px", "#", "-", "--5px", "5-px", "1e-320px"]
# (quotes, '<' and '&' in attribute values exercise the parser pre-passes: they belong to C18/C04, not to this profile)

STRING_VALUES = {
    "font-family": FONTS, "href": URLS, "src": URLS, "background-url": URLS, "thumbnails-src": URLS,
    "border": BORDERS, "border-top": BORDERS, "border-bottom": BORDERS, "border-left": BORDERS, "border-right": BORDERS,
    "inner-border": BORDERS, "inner-border-top": BORDERS, "inner-border-bottom": BORDERS, "inner-border-left": BORDERS,
    "inner-border-right": BORDERS, "tb-border": BORDERS, "tb-hover-border-color": COLORS, "tb-selected-border-color": COLORS,
    "border-radius": ["0px", "4px", "50%", "3px 6px"], "inner-border-radius": ["0px", "4px"],
    "background-position": ["top center", "center", "left top", "50% 50%"], "background-position-x": ["left", "50%"],
    "background-position-y": ["top", "10px"], "background-size": ["auto", "cover", "contain", "100px 50px"],
    "alt": ["alt text", "a &amp; b"], "title": ["a title"], "name": ["facebook", "twitter", "github"],
    "rel": ["noopener"], "target": ["_blank", "_self"], "font-style": ["italic", "normal"], "font-weight": ["bold", "400", "700"],
    "text-decoration": ["none", "underline"], "text-transform": ["uppercase", "none"], "letter-spacing": ["1px", "normal"],
    "line-height": ["1", "20px", "120%", "1.5"], "font-size": ["13px", "20px", "10px"], "height": ["20px", "100px"],
    "width": ["100px", "50%", "300px", "33.33%"], "mode": ["fluid-height", "fixed-height"], "icon-size": ["20px"],
    "icon-height": ["20px"], "icon-padding": ["0px", "2px"], "text-padding": ["4px 4px 4px 0"], "base-url": ["https://example.com"],
    "hamburger": ["hamburger"], "sizes": ["100vw"], "srcset": ["a.png 1x"], "usemap": ["#m"], "icon-wrapped-url": URLS,
    "icon-unwrapped-url": URLS, "icon-wrapped-alt": ["+"], "icon-unwrapped-alt": ["-"], "left-icon": URLS, "right-icon": URLS,
    "thumbnails": ["visible", "hidden"], "cellpadding": ["0", "4"], "cellspacing": ["0", "2"], "role": ["presentation"],
    "vertical-align": ["top", "middle", "bottom"], "inline": ["inline"], "css-class": ["k", "k2 k3"], "lang": ["en"],
    "dir": ["ltr", "rtl"], "fluid-on-mobile": ["true"], "full-width": ["full-width"], "align": ["left", "center", "right"],
    "container-background-color": COLORS, "color": COLORS, "background-color": COLORS, "inner-background-color": COLORS,
    "ico-open": ["&#9776;"], "ico-close": ["&#8855;"], "ico-font-size": ["30px"], "ico-font-family": FONTS,
    "ico-text-transform": ["uppercase"], "ico-text-decoration": ["none"], "ico-line-height": ["30px"], "ico-color": COLORS,
    "ico-align": ["center"], "ico-padding": ["10px"], "navbar-base-url": ["https://example.com"],
}


def typed_value(rng, attr, typ):
    m = re.fullmatch(r"enum\((.*)\)", typ)
    if m:
        opts = [o for o in m.group(1).split(",")]
        opts = [o for o in opts if o != ""] or [""]
        return rng.choice(opts)
    if typ == "color":
        return rng.choice(COLORS)
    if typ == "boolean":
        return rng.choice(["true", "false"])
    if typ == "integer":
        return str(rng.choice([0, 1, 2, 5, 10]))
    m = re.fullmatch(r"unit(WithNegative)?\(([^)]*)\)(\{(\d),(\d)\})?", typ)
    if m:
        units = [u for u in m.group(2).split(",")]
        neg = bool(m.group(1))

        def one():
            u = rng.choice(units)
            if u == "auto":
                return "auto"
            n = rng.choice([0, 1, 5, 10, 20, 25, 50, 100]) if u != "%" else rng.choice([0, 10, 25, 33, 50, 100])
            if neg and rng.random() < 0.3:
                n = -n
            if u == "":
                return str(n)
            return "%d%s" % (n, u)

        if m.group(3):
            lo, hi = int(m.group(4)), int(m.group(5))
            k = rng.choice([1, 1, 2, 2, 4, 3][: max(1, hi + 2 - lo)]) if hi >= 4 else rng.randint(lo, hi)
            k = max(lo, min(hi, k))
            return " ".join(one() for _ in range(k))
        return one()
    if attr in STRING_VALUES:
        return rng.choice(STRING_VALUES[attr])
    return "v"


class Gen:
    def __init__(self, rng, hostile=False, attr_prob=0.25):
        self.rng = rng
        self.hostile = hostile
        self.attr_prob = attr_prob
        self.allowed = allowed()
        self.sent = 0

    def sentinel(self):
        self.sent += 1
        return "S%dX" % self.sent

    def attrs(self, tag, force=(), exclude=()):
        out = {}
        table = self.allowed.get(tag, {})
        for a, typ in sorted(table.items()):
            if a in exclude:
                continue
            if a in force or self.rng.random() < self.attr_prob:
                if self.hostile and typ != "string" and not typ.startswith("enum") and self.rng.random() < 0.6:
                    out[a] = self.rng.choice(HOSTILE)
                else:
                    out[a] = typed_value(self.rng, a, typ)
        return out

    def node(self, tag, children=None, text=None, **kw):
        return {"tag": tag, "attrs": self.attrs(tag, **kw), "children": children or [], "text": text}

    # ---- leaves
    def leaf(self, kind=None):
        r = self.rng
        kind = kind or r.choice(["text", "text", "button", "image", "divider", "spacer", "table", "social", "navbar",
                                 "accordion", "carousel", "raw"])
        if kind == "text":
            body = r.choice(["%s", "<b>%s</b> plain", "<p>%s</p><br/>x", "a &amp; %s", "<span class=\"k\">%s</span>", "%s<br\n/>y<hr\t/>"]) % self.sentinel()
            n = self.node("mj-text", text=body)
            if r.random() < 0.2:
                n["attrs"]["mj-class"] = r.choice(["cl1", "cl1 cl2", "cl2 cl1"])
            return n
        if kind == "button":
            n = self.node("mj-button", text=self.sentinel(), force=("href",) if r.random() < 0.7 else ())
            if r.random() < 0.15:
                n["attrs"]["mj-class"] = "cl1"
            return n
        if kind == "image":
            return self.node("mj-image", force=("src",), exclude=("fluid-on-mobile",) if r.random() < 0.8 else ())
        if kind == "divider":
            return self.node("mj-divider")
        if kind == "spacer":
            return self.node("mj-spacer")
        if kind == "table":
            shape = r.choice(["<tr><td>%s</td></tr>", "<tr><td>%s</td></tr>", "<tr><td>%s <b>bold</b></td><td class=\"k\" style=\"padding:4px\">x</td></tr>",
                              "<tr>\n  <td> %s </td>\n</tr>"])
            return self.node("mj-table", text=shape % self.sentinel())
        if kind == "social":
            els = [self.node("mj-social-element", text=self.sentinel(), force=("name",)) for _ in range(r.randint(1, 3))]
            return self.node("mj-social", children=els)
        if kind == "navbar":
            links = [self.node("mj-navbar-link", text=self.sentinel(), force=("href",)) for _ in range(r.randint(1, 3))]
            return self.node("mj-navbar", children=links, exclude=() if r.random() < 0.4 else ("hamburger",))
        if kind == "accordion":
            els = []
            for _ in range(r.randint(1, 2)):
                els.append(self.node("mj-accordion-element", children=[
                    self.node("mj-accordion-title", text=self.sentinel()), self.node("mj-accordion-text", text=self.sentinel())]))
            return self.node("mj-accordion", children=els)
        if kind == "carousel":
            imgs = [self.node("mj-carousel-image", force=("src",)) for _ in range(r.randint(1, 3))]
            return self.node("mj-carousel", children=imgs)
        if kind == "raw":
            body = r.choice(["<div class=\"rawk\">%s</div>", "<div class=\"rawk\">%s</div>", "%s", "plain %s text"]) % self.sentinel()
            return {"tag": "mj-raw", "attrs": {}, "children": [], "text": body}
        raise ValueError(kind)

    def column(self, n_leaves=None, exclude=()):
        r = self.rng
        n = n_leaves if n_leaves is not None else r.choice([0, 1, 1, 2, 3])
        return self.node("mj-column", children=[self.leaf() for _ in range(n)], exclude=exclude)

    def group(self):
        r = self.rng
        kids = [self.column() for _ in range(r.randint(1, 3))]
        if r.random() < 0.25:
            kids.insert(r.choice([0, len(kids), r.randint(0, len(kids))]), self.leaf("raw"))
        return self.node("mj-group", children=kids)

    def section(self, kind=None):
        r = self.rng
        kids = []
        for _ in range(r.choice([0, 1, 1, 2, 2, 3, 4])):
            x = r.random()
            if x < 0.75:
                kids.append(self.column())
            elif x < 0.9:
                kids.append(self.group())
            else:
                kids.append(self.leaf("raw"))
        force, exclude = [], ["full-width", "background-url"]
        if kind is None:
            if r.random() < 0.25:
                force.append("full-width")
                exclude.remove("full-width")
            if r.random() < 0.25:
                force.append("background-url")
                exclude.remove("background-url")
        return self.node("mj-section", children=kids, force=tuple(force), exclude=tuple(exclude))

    def wrapper(self):
        r = self.rng
        kids = [self.section() for _ in range(r.choice([0, 1, 1, 2, 3]))]
        if r.random() < 0.15:
            kids.insert(r.randint(0, len(kids)), self.leaf("raw"))
        n = self.node("mj-wrapper", children=kids)
        if r.random() < 0.25:
            n["attrs"]["full-width"] = "full-width"
        if r.random() < 0.3:
            n["attrs"]["background-color"] = r.choice(COLORS)
        return n

    def hero(self):
        r = self.rng
        kids = [self.leaf(r.choice(["text", "button", "image", "divider", "spacer"])) for _ in range(r.choice([0, 1, 2, 3]))]
        return self.node("mj-hero", children=kids)

    def block(self):
        x = self.rng.random()
        if x < 0.6:
            return self.section()
        if x < 0.8:
            return self.wrapper()
        if x < 0.9:
            return self.hero()
        return self.leaf("raw")

    def head(self, rich=True):
        r = self.rng
        kids = []
        if r.random() < 0.5:
            kids.append({"tag": "mj-title", "attrs": {}, "children": [], "text": "Title " + self.sentinel()})
        if r.random() < 0.4:
            kids.append({"tag": "mj-preview", "attrs": {}, "children": [], "text": "Preview " + self.sentinel()})
        if r.random() < 0.3:
            kids.append({"tag": "mj-font", "attrs": {"name": "Custom", "href": "https://fonts.example/css?family=Custom"}, "children": [], "text": None})
        if rich and r.random() < 0.5:
            ak = []
            for tag in r.sample(["mj-text", "mj-button", "mj-section", "mj-column", "mj-image", "mj-divider"], r.randint(1, 3)):
                a = self.attrs(tag, exclude=("full-width", "background-url", "src", "href", "css-class"))
                if a:
                    ak.append({"tag": tag, "attrs": a, "children": [], "text": None})
            if r.random() < 0.5:
                ak.append({"tag": "mj-all", "attrs": {"font-family": r.choice(FONTS)}, "children": [], "text": None})
            if r.random() < 0.5:
                ak.append({"tag": "mj-class", "attrs": {"name": "cl1", "color": r.choice(COLORS), "font-size": "15px"}, "children": [], "text": None})
                if r.random() < 0.5:
                    ak.append({"tag": "mj-class", "attrs": {"name": "cl2", "font-size": "19px", "line-height": "1.5"}, "children": [], "text": None})
            kids.append({"tag": "mj-attributes", "attrs": {}, "children": ak, "text": None})
        if r.random() < 0.3:
            kids.append({"tag": "mj-style", "attrs": {}, "children": [], "text": ".x { color: red; }"})
        if r.random() < 0.2:
            kids.append({"tag": "mj-breakpoint", "attrs": {"width": r.choice(["320px", "480px", "600px"])}, "children": [], "text": None})
        return {"tag": "mj-head", "attrs": {}, "children": kids, "text": None}

    def document(self, nblocks=None, with_head=None):
        r = self.rng
        n = nblocks if nblocks is not None else r.choice([1, 1, 2, 2, 3, 4, 5])
        body = {"tag": "mj-body", "attrs": self.attrs("mj-body"), "children": [self.block() for _ in range(n)], "text": None}
        kids = []
        if with_head if with_head is not None else r.random() < 0.6:
            kids.append(self.head())
        kids.append(body)
        return {"tag": "mjml", "attrs": {}, "children": kids, "text": None}


def esc_attr(v, quote='"'):
    v = v.replace("&", "&amp;") if "&amp;" not in v and "&#" not in v else v
    v = v.replace("<", "&lt;")
    return v.replace(quote, "&quot;" if quote == '"' else "&apos;")


def to_mjml(n, indent=None, depth=0, quote='"', crlf=False, selfclose=True, attr_order=None, attr_lines=False):
    """Print a tree. indent=None: compact; attr_order: None (insertion), "rev", "sorted"; attr_lines: one attribute per line inside the start tag."""
    nl = ("\r\n" if crlf else "\n") if indent is not None else ""
    pad = (" " * (indent * depth)) if indent is not None else ""
    items = list(n["attrs"].items())
    if attr_order == "rev":
        items.reverse()
    elif attr_order == "sorted":
        items.sort()
    sep = (nl + pad + "    ") if (attr_lines and indent is not None) else " "
    at = "".join("%s%s=%s%s%s" % (sep, k, quote, esc_attr(v, quote), quote) for k, v in items)
    tag = n["tag"]
    if not n["children"] and n.get("text") is None:
        if selfclose:
            return "%s<%s%s />%s" % (pad, tag, at, nl)
        return "%s<%s%s></%s>%s" % (pad, tag, at, tag, nl)
    if n.get("text") is not None and not n["children"]:
        return "%s<%s%s>%s</%s>%s" % (pad, tag, at, n["text"], tag, nl)
    inner = "".join(to_mjml(c, indent, depth + 1, quote, crlf, selfclose, attr_order, attr_lines) for c in n["children"])
    return "%s<%s%s>%s%s%s</%s>%s" % (pad, tag, at, nl, inner, pad, tag, nl)


def walk(n):
    yield n
    for c in n["children"]:
        yield from walk(c)


def tags(n):
    return sorted({x["tag"] for x in walk(n)})


def size(n):
    return sum(1 for _ in walk(n))


def shrink_tree(doc, fails, budget=150):
    """Greedy tree shrinking: drop children, then attributes, while `fails(doc)` stays true."""
    import copy
    doc = copy.deepcopy(doc)
    steps = 0
    changed = True
    while changed and steps < budget:
        changed = False
        for n in list(walk(doc)):
            i = 0
            while i < len(n["children"]) and steps < budget:
                if n["tag"] == "mjml":
                    if n["children"][i]["tag"] == "mj-body":
                        i += 1
                        continue
                saved = n["children"][i]
                del n["children"][i]
                steps += 1
                if fails(doc):
                    changed = True
                else:
                    n["children"].insert(i, saved)
                    i += 1
            for a in list(n["attrs"]):
                if steps >= budget:
                    break
                saved = n["attrs"].pop(a)
                steps += 1
                if fails(doc):
                    changed = True
                else:
                    n["attrs"][a] = saved
    return doc


def with_inline_classes(d, rng):
    """add an <mj-style inline="inline"> block and make components / author HTML refer to its classes (in place)"""
    for n in walk(d):
        if n["tag"] in ("mj-text", "mj-button", "mj-section", "mj-column", "mj-image", "mj-divider", "mj-wrapper", "mj-hero", "mj-group", "mj-table") and rng.random() < 0.4:
            n["attrs"]["css-class"] = rng.choice(["k", "k2", "k k2", "zz"])
        if n["tag"] == "mj-text" and rng.random() < 0.4:
            n["text"] = "".join(rng.choice(['<p class="k">', "t", "</p>", "<span class='k2' style='a:b'>", "</span>", "<b>", "</b>"]) for _ in range(rng.randint(1, 5)))
        if n["tag"] == "mj-table" and rng.random() < 0.6:
            n["text"] = '<tr><td class="k" style="padding:4px">c1</td><td class="k2">c2</td></tr>'
    head = next((c for c in d["children"] if c["tag"] == "mj-head"), None)
    if head is None:
        head = {"tag": "mj-head", "attrs": {}, "children": [], "text": None}
        d["children"].insert(0, head)
    head["children"].append({"tag": "mj-style", "attrs": {"inline": "inline"}, "children": [], "text": "\n.k{color:red}\n.k2 { font-size:9px; color:blue }\n.k,.zz{margin:0}\n"})
    return d
