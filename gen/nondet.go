package main

import (
	"go/ast"
	"go/token"
	"go/types"
	"strings"
)

type rangeSite struct {
	File  string `json:"file"`
	Line  int    `json:"line"`
	Func  string `json:"func"`
	Over  string `json:"over"`
	Shape string `json:"shape"`
	Why   string `json:"why,omitempty"`
}

type ndCall struct {
	File  string `json:"file"`
	Line  int    `json:"line"`
	Func  string `json:"func"`
	What  string `json:"what"`
	Class string `json:"class"`
	Why   string `json:"why,omitempty"`
}

// enclosing function names, by position
type funcIndex struct {
	decls []*ast.FuncDecl
}

func funcName(fd *ast.FuncDecl) string {
	if fd.Recv != nil && len(fd.Recv.List) > 0 {
		t := fd.Recv.List[0].Type
		if s, ok := t.(*ast.StarExpr); ok {
			t = s.X
		}
		if id, ok := t.(*ast.Ident); ok {
			return id.Name + "." + fd.Name.Name
		}
	}
	return fd.Name.Name
}

func enclosing(f *ast.File, p token.Pos) *ast.FuncDecl {
	for _, d := range f.Decls {
		if fd, ok := d.(*ast.FuncDecl); ok && fd.Pos() <= p && p < fd.End() {
			return fd
		}
	}
	return nil
}

func identObj(info *types.Info, e ast.Expr) types.Object {
	if id, ok := e.(*ast.Ident); ok {
		if o := info.Uses[id]; o != nil {
			return o
		}
		return info.Defs[id]
	}
	return nil
}

func mentions(info *types.Info, n ast.Node, obj types.Object) bool {
	if obj == nil || n == nil {
		return false
	}
	found := false
	ast.Inspect(n, func(x ast.Node) bool {
		if id, ok := x.(*ast.Ident); ok && (info.Uses[id] == obj || info.Defs[id] == obj) {
			found = true
		}
		return !found
	})
	return found
}

// classifyRange decides the shape class of a range-over-map loop (see coq/Det/Perm.v for the
// soundness proof of each order-independent class).
func classifyRange(info *types.Info, rs *ast.RangeStmt, following []ast.Stmt) (string, string) {
	key := identObj(info, rs.Key)
	if rs.Key == nil {
		key = nil
	}
	var appended []types.Object // slices appended to (not under a key-constant guard)
	ok := true
	why := ""
	var walk func(stmts []ast.Stmt, guardedSingleKey bool)
	isKeyedIndex := func(e ast.Expr) bool {
		ix, isIx := e.(*ast.IndexExpr)
		if !isIx {
			return false
		}
		if _, isMap := info.TypeOf(ix.X).Underlying().(*types.Map); !isMap {
			return false
		}
		// a map created inside the loop body is loop-local
		if r := rootIdent(ix.X); r != nil && declaredInside(identObj(info, r), rs) {
			return true
		}
		// otherwise the index must be the iteration key itself
		return key != nil && identObj(info, ix.Index) == key
	}
	walk = func(stmts []ast.Stmt, single bool) {
		for _, st := range stmts {
			switch s := st.(type) {
			case *ast.AssignStmt:
				for i, lhs := range s.Lhs {
					if isKeyedIndex(lhs) {
						continue // dst[k] = ...   keyed store
					}
					if id, isId := lhs.(*ast.Ident); isId {
						obj := identObj(info, id)
						if s.Tok == token.DEFINE {
							continue // loop-local
						}
						// x = append(x, ...)
						if i < len(s.Rhs) {
							if call, isCall := s.Rhs[i].(*ast.CallExpr); isCall {
								if fn, isFn := call.Fun.(*ast.Ident); isFn && fn.Name == "append" {
									if single {
										continue
									}
									appended = append(appended, obj)
									continue
								}
							}
						}
						if declaredInside(obj, rs) {
							continue
						}
					}
					ok = false
					why = "assignment to " + types.ExprString(lhs)
				}
			case *ast.IfStmt:
				// if k == "const" { ...; continue }   acts for at most one key
				singleHere := single
				if be, isBin := s.Cond.(*ast.BinaryExpr); isBin && be.Op == token.EQL && key != nil {
					if (identObj(info, be.X) == key && isConst(info, be.Y)) || (identObj(info, be.Y) == key && isConst(info, be.X)) {
						singleHere = true
					}
				}
				if s.Init != nil {
					walk([]ast.Stmt{s.Init}, single)
				}
				if containsReturn(s.Body) {
					ok = false
					why = "returns from inside the loop (first match)"
				}
				walk(s.Body.List, singleHere)
				if s.Else != nil {
					if b, isB := s.Else.(*ast.BlockStmt); isB {
						walk(b.List, single)
					} else {
						walk([]ast.Stmt{s.Else}, single)
					}
				}
			case *ast.BranchStmt:
				if s.Tok == token.BREAK {
					ok = false
					why = "break inside the loop"
				}
			case *ast.ReturnStmt:
				ok = false
				why = "returns from inside the loop (first match)"
			case *ast.RangeStmt:
				walk(s.Body.List, single)
			case *ast.BlockStmt:
				walk(s.List, single)
			case *ast.DeclStmt:
			case *ast.ExprStmt:
				ok = false
				why = "call with possible side effects: " + types.ExprString(s.X)
			case *ast.IncDecStmt:
				// counters are commutative
			default:
				ok = false
				why = "statement not understood"
			}
		}
	}
	walk(rs.Body.List, false)
	if !ok {
		if strings.Contains(why, "first match") {
			return "FirstMatch", why
		}
		return "UnknownShape", why
	}
	if len(appended) > 0 {
		// sorted before use?
		for _, obj := range appended {
			sorted := false
			for _, st := range following {
				if es, isE := st.(*ast.ExprStmt); isE {
					if call, isC := es.X.(*ast.CallExpr); isC {
						if sel, isS := call.Fun.(*ast.SelectorExpr); isS {
							if pk, isP := sel.X.(*ast.Ident); isP && pk.Name == "sort" && len(call.Args) > 0 && identObj(info, call.Args[0]) == obj {
								sorted = true
							}
						}
					}
				}
				if !sorted && mentions(info, st, obj) {
					break
				}
				if sorted {
					break
				}
			}
			if !sorted {
				return "AppendAll", "appends to a slice in iteration order"
			}
		}
		return "SortedAfter", ""
	}
	return "KeyedStore", ""
}

func declaredInside(obj types.Object, n ast.Node) bool {
	return obj != nil && n.Pos() <= obj.Pos() && obj.Pos() < n.End()
}

func isConst(info *types.Info, e ast.Expr) bool {
	tv, ok := info.Types[e]
	return ok && tv.Value != nil
}

func containsReturn(b *ast.BlockStmt) bool {
	found := false
	ast.Inspect(b, func(n ast.Node) bool {
		if _, ok := n.(*ast.FuncLit); ok {
			return false
		}
		if _, ok := n.(*ast.ReturnStmt); ok {
			found = true
		}
		return !found
	})
	return found
}

func blockFollowing(f *ast.File, rs *ast.RangeStmt) []ast.Stmt {
	var out []ast.Stmt
	ast.Inspect(f, func(n ast.Node) bool {
		if b, ok := n.(*ast.BlockStmt); ok {
			for i, st := range b.List {
				if st == rs {
					out = b.List[i+1:]
					return false
				}
			}
		}
		return true
	})
	return out
}

// nondeterministic library calls
var ndFuncs = map[string]bool{"time.Now": true, "time.Since": true, "time.Until": true, "os.Getpid": true, "os.Getenv": true,
	"os.Hostname": true, "os.Environ": true, "maphash.MakeSeed": true, "runtime.NumGoroutine": true}

func qualifiedCallee(info *types.Info, call *ast.CallExpr) string {
	sel, ok := call.Fun.(*ast.SelectorExpr)
	if !ok {
		return ""
	}
	if id, ok := sel.X.(*ast.Ident); ok {
		if pn, ok := info.Uses[id].(*types.PkgName); ok {
			return pn.Imported().Path() + "." + sel.Sel.Name
		}
	}
	return ""
}

func shortCallee(q string) string {
	i := strings.LastIndex(q, "/")
	return q[i+1:]
}

// classifyTimeUse: how the value of a clock read is used inside its function (function-local taint).
func classifyTimeUse(info *types.Info, fd *ast.FuncDecl, call *ast.CallExpr, pkgShort string) (string, string) {
	tainted := map[types.Object]bool{}
	// analysis scope: the innermost function literal containing the call, else the declaration
	var scope ast.Node = fd.Body
	ast.Inspect(fd.Body, func(n ast.Node) bool {
		if fl, ok := n.(*ast.FuncLit); ok && fl.Pos() <= call.Pos() && call.End() <= fl.End() {
			scope = fl.Body
		}
		return true
	})
	isTaintedExpr := func(e ast.Node) bool {
		t := false
		ast.Inspect(e, func(n ast.Node) bool {
			if fl, ok := n.(*ast.FuncLit); ok && !(fl.Pos() <= call.Pos() && call.End() <= fl.End()) {
				return false // values do not flow out of a nested literal by mere containment
			}
			if kv, ok := n.(*ast.KeyValueExpr); ok && pkgShort == "mjml" {
				if id, ok := kv.Key.(*ast.Ident); ok && id.Name == "expires" {
					return false // consumed by the cache entry's expiry field
				}
			}
			if n == ast.Node(call) {
				t = true
			}
			if id, ok := n.(*ast.Ident); ok && tainted[info.Uses[id]] {
				t = true
			}
			return !t
		})
		return t
	}
	// fixpoint over assignments
	for changed := true; changed; {
		changed = false
		ast.Inspect(scope, func(n ast.Node) bool {
			if as, ok := n.(*ast.AssignStmt); ok {
				for i, rhs := range as.Rhs {
					if isTaintedExpr(rhs) && i < len(as.Lhs) {
						if id, ok := as.Lhs[i].(*ast.Ident); ok {
							obj := info.Defs[id]
							if obj == nil {
								obj = info.Uses[id]
							}
							if obj != nil && !tainted[obj] {
								tainted[obj] = true
								changed = true
							}
						}
					}
				}
			}
			return true
		})
	}
	// every statement-level context of a tainted value
	class := "LogOnly"
	why := ""
	escape := func(w string) { class, why = "Escapes", w }
	var visit func(n ast.Node, inDebug bool)
	visit = func(n ast.Node, inDebug bool) {
		switch x := n.(type) {
		case nil:
			return
		case *ast.CallExpr:
			q := qualifiedCallee(info, x)
			dbg := inDebug || strings.HasSuffix(q, "/mjml/debug.DebugLog") || strings.Contains(q, "/mjml/debug.") ||
				strings.HasPrefix(q, "fmt.Fprintf") || strings.HasPrefix(q, "fmt.Fprintln")
			if isTaintedExpr(x) && !dbg {
				// allowed pure time arithmetic / comparisons
				if sel, ok := x.Fun.(*ast.SelectorExpr); ok {
					switch sel.Sel.Name {
					case "Before", "After":
						if class != "Escapes" {
							class = "CacheExpiry"
						}
					case "Add", "Sub", "Milliseconds", "Since", "Until", "Format", "Now":
					default:
						if q != "time.Since" && q != "time.Now" && q != "time.Until" {
							escape("passed to " + types.ExprString(x.Fun))
						}
					}
				} else {
					escape("passed to " + types.ExprString(x.Fun))
				}
			}
			visit(x.Fun, dbg)
			for _, a := range x.Args {
				visit(a, dbg)
			}
			return
		case *ast.CompositeLit:
			for _, el := range x.Elts {
				if kv, ok := el.(*ast.KeyValueExpr); ok && isTaintedExpr(kv.Value) && !inDebug {
					if id, ok := kv.Key.(*ast.Ident); ok && id.Name == "expires" && pkgShort == "mjml" {
						if class != "Escapes" {
							class = "CacheExpiry"
						}
					} else {
						escape("stored in " + types.ExprString(kv.Key))
					}
				} else if isTaintedExpr(el) && !inDebug {
					if _, ok := el.(*ast.KeyValueExpr); !ok {
						escape("stored in a composite literal")
					}
				}
			}
		case *ast.ReturnStmt:
			if isTaintedExpr(x) {
				escape("returned")
			}
		case *ast.BinaryExpr:
			if isTaintedExpr(x) && !inDebug && (x.Op == token.ADD) {
				if tv, ok := info.Types[x]; ok && tv.Type.String() == "string" {
					escape("concatenated into a string")
				}
			}
		}
		ast.Inspect(n, func(c ast.Node) bool {
			if c == n || c == nil {
				return true
			}
			visit(c, inDebug)
			return false
		})
	}
	// the expiry field itself
	ast.Inspect(scope, func(n ast.Node) bool {
		if kv, ok := n.(*ast.KeyValueExpr); ok && pkgShort == "mjml" {
			if id, ok := kv.Key.(*ast.Ident); ok && id.Name == "expires" {
				hit := false
				ast.Inspect(kv.Value, func(m ast.Node) bool {
					if m == ast.Node(call) {
						hit = true
					}
					if id2, ok := m.(*ast.Ident); ok && tainted[info.Uses[id2]] {
						hit = true
					}
					return !hit
				})
				if hit && class != "Escapes" {
					class = "CacheExpiry"
				}
			}
		}
		return true
	})
	visit(scope, false)
	if pkgShort == "mjml/debug" {
		return "LogOnly", "debug logging package"
	}
	return class, why
}

func nondetFacts(l *loader) ([]rangeSite, []ndCall) {
	var ranges []rangeSite
	var calls []ndCall
	for _, p := range sortedKeys(l.files) {
		if !isProdPkg(p) {
			continue
		}
		info := l.infos[p]
		for _, f := range l.files[p] {
			ast.Inspect(f, func(n ast.Node) bool {
				switch x := n.(type) {
				case *ast.RangeStmt:
					if t := info.TypeOf(x.X); t != nil {
						if _, isMap := t.Underlying().(*types.Map); isMap {
							file, line := l.pos(x.Pos())
							fn := ""
							if fd := enclosing(f, x.Pos()); fd != nil {
								fn = funcName(fd)
							}
							shape, why := classifyRange(info, x, blockFollowing(f, x))
							ranges = append(ranges, rangeSite{file, line, fn, types.ExprString(x.X), shape, why})
						}
					}
				case *ast.GoStmt:
					file, line := l.pos(x.Pos())
					fn := ""
					if fd := enclosing(f, x.Pos()); fd != nil {
						fn = funcName(fd)
					}
					calls = append(calls, ndCall{file, line, fn, "go-statement", "Goroutine", ""})
				case *ast.SelectStmt:
					file, line := l.pos(x.Pos())
					fn := ""
					if fd := enclosing(f, x.Pos()); fd != nil {
						fn = funcName(fd)
					}
					calls = append(calls, ndCall{file, line, fn, "select-statement", "Goroutine", ""})
				case *ast.CallExpr:
					q := qualifiedCallee(info, x)
					if q == "" {
						return true
					}
					sq := shortCallee(q)
					file, line := l.pos(x.Pos())
					fd := enclosing(f, x.Pos())
					fn := ""
					if fd != nil {
						fn = funcName(fd)
					}
					switch {
					case strings.HasPrefix(q, "math/rand.") || strings.HasPrefix(q, "math/rand/v2.") || strings.HasPrefix(q, "crypto/rand."):
						calls = append(calls, ndCall{file, line, fn, sq, "Random", ""})
					case q == "hash/maphash.MakeSeed":
						calls = append(calls, ndCall{file, line, fn, sq, "HashSeed", ""})
					case ndFuncs[sq] || ndFuncs[q]:
						class, why := "Escapes", "outside a function"
						if fd != nil {
							class, why = classifyTimeUse(info, fd, x, short(p))
						}
						calls = append(calls, ndCall{file, line, fn, sq, class, why})
					}
				}
				return true
			})
		}
	}
	return ranges, calls
}

func sortedKeys[V any](m map[string]V) []string {
	var ks []string
	for k := range m {
		ks = append(ks, k)
	}
	sortStrings(ks)
	return ks
}
