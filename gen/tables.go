package main

func tablesFacts(l *loader, out string, all map[string]any) {}
