package main

import (
	"encoding/json"
	"fmt"
	"go/ast"
	"go/constant"
	"go/token"
	"go/types"
	"os"
	"path/filepath"
	"sort"
	"strings"
)

func tablesFacts(l *loader, out string, all map[string]any) {
	allowedFacts(l, out, all)
	factoryFacts(l, out, all)
	accessorFacts(l, out, all)
	pathsFacts(l, out, all)
	parserConsts(l, out, all)
	sitesFacts(l, out, all)
}

// ---- allowed attributes (C17) -------------------------------------------------------------------
func allowedFacts(l *loader, out string, all map[string]any) {
	raw, err := os.ReadFile(filepath.Join(l.root, "mjml/components/allowed-css-attributes.json"))
	if err != nil {
		fmt.Fprintln(os.Stderr, err)
		os.Exit(1)
	}
	table := map[string]map[string]string{}
	if err := json.Unmarshal(raw, &table); err != nil {
		fmt.Fprintln(os.Stderr, err)
		os.Exit(1)
	}
	// global names and prefixes from the source of allowed_attributes.go
	var globalNames, prefixes []string
	p := modPath + "/mjml/components"
	info := l.infos[p]
	for _, f := range l.files[p] {
		ast.Inspect(f, func(n ast.Node) bool {
			switch x := n.(type) {
			case *ast.ValueSpec:
				for i, name := range x.Names {
					if name.Name == "globalAllowedAttributes" && i < len(x.Values) {
						if cl, ok := x.Values[i].(*ast.CompositeLit); ok {
							for _, el := range cl.Elts {
								if kv, ok := el.(*ast.KeyValueExpr); ok {
									if tv, ok := info.Types[kv.Key]; ok && tv.Value != nil {
										globalNames = append(globalNames, constant.StringVal(tv.Value))
									}
								}
							}
						}
					}
				}
			case *ast.FuncDecl:
				if x.Name.Name == "isGloballyAllowedAttribute" {
					ast.Inspect(x.Body, func(m ast.Node) bool {
						if c, ok := m.(*ast.CallExpr); ok {
							if sel, ok := c.Fun.(*ast.SelectorExpr); ok && sel.Sel.Name == "HasPrefix" && len(c.Args) == 2 {
								if tv, ok := info.Types[c.Args[1]]; ok && tv.Value != nil {
									prefixes = append(prefixes, constant.StringVal(tv.Value))
								}
							}
						}
						return true
					})
				}
			}
			return true
		})
	}
	sort.Strings(globalNames)
	sort.Strings(prefixes)
	var sb strings.Builder
	sb.WriteString(header)
	sb.WriteString("Definition allowed_table : list (string * list string) := [\n")
	var tags []string
	for t := range table {
		tags = append(tags, t)
	}
	sort.Strings(tags)
	for i, t := range tags {
		var names []string
		for a := range table[t] {
			names = append(names, a)
		}
		sort.Strings(names)
		if i > 0 {
			sb.WriteString(";\n")
		}
		fmt.Fprintf(&sb, "  (%s, %s)", coqStr(t), coqStrList(names))
	}
	sb.WriteString("].\n")
	fmt.Fprintf(&sb, "Definition global_names : list string := %s.\n", coqStrList(globalNames))
	fmt.Fprintf(&sb, "Definition global_prefixes : list string := %s.\n", coqStrList(prefixes))
	writeFile(out, "Allowed.v", sb.String())
	all["allowed_table"] = table
	all["global_names"] = globalNames
	all["global_prefixes"] = prefixes
}

// ---- factory (C04, C17): which tags CreateComponent constructs, which constructors validate -----
func factoryFacts(l *loader, out string, all map[string]any) {
	p := modPath + "/mjml"
	info := l.infos[p]
	var tags []string
	for _, f := range l.files[p] {
		for _, d := range f.Decls {
			fd, ok := d.(*ast.FuncDecl)
			if !ok || fd.Name.Name != "CreateComponent" || fd.Body == nil {
				continue
			}
			ast.Inspect(fd.Body, func(n ast.Node) bool {
				if sw, ok := n.(*ast.SwitchStmt); ok {
					if id, ok := sw.Tag.(*ast.Ident); ok && id.Name == "tagName" {
						for _, c := range sw.Body.List {
							for _, e := range c.(*ast.CaseClause).List {
								if tv, ok := info.Types[e]; ok && tv.Value != nil {
									tags = append(tags, constant.StringVal(tv.Value))
								}
							}
						}
					}
				}
				return true
			})
		}
	}
	sort.Strings(tags)
	// constructors that do not go through NewBaseComponent (and hence never validate)
	cp := modPath + "/mjml/components"
	var noBase []string
	for _, f := range l.files[cp] {
		for _, d := range f.Decls {
			fd, ok := d.(*ast.FuncDecl)
			if !ok || fd.Body == nil || fd.Recv != nil || !strings.HasPrefix(fd.Name.Name, "NewMJ") {
				continue
			}
			calls := false
			ast.Inspect(fd.Body, func(n ast.Node) bool {
				if c, ok := n.(*ast.CallExpr); ok {
					if id, ok := c.Fun.(*ast.Ident); ok && id.Name == "NewBaseComponent" {
						calls = true
					}
				}
				return true
			})
			if !calls {
				noBase = append(noBase, fd.Name.Name)
			}
		}
	}
	sort.Strings(noBase)
	// does NewBaseComponent call the validation hook?
	validates := false
	for _, f := range l.files[cp] {
		for _, d := range f.Decls {
			if fd, ok := d.(*ast.FuncDecl); ok && fd.Name.Name == "NewBaseComponent" && fd.Body != nil {
				ast.Inspect(fd.Body, func(n ast.Node) bool {
					if c, ok := n.(*ast.CallExpr); ok {
						if id, ok := c.Fun.(*ast.Ident); ok && id.Name == "validateComponentAttributes" {
							validates = true
						}
					}
					return true
				})
			}
		}
	}
	var sb strings.Builder
	sb.WriteString(header)
	fmt.Fprintf(&sb, "Definition factory_tags : list string := %s.\n", coqStrList(tags))
	fmt.Fprintf(&sb, "Definition constructors_without_base : list string := %s.\n", coqStrList(noBase))
	fmt.Fprintf(&sb, "Definition base_constructor_validates : bool := %v.\n", validates)
	writeFile(out, "Factory.v", sb.String())
	all["factory_tags"] = tags
	all["constructors_without_base"] = noBase
	all["base_constructor_validates"] = validates
}

// ---- attribute accessors and defaults (C09, C11, C12) ---------------------------------------------
type accSite struct {
	File string `json:"file"`
	Line int    `json:"line"`
	Comp string `json:"comp"` // receiver component type of the enclosing method
	Attr string `json:"attr"` // "?" when not a constant
	Kind string `json:"kind"` // Full | Fast | NoGlobal | NodeOnly | Wrapper:<name> | AttrsMap
	Func string `json:"func"`
}

func recvTypeName(fd *ast.FuncDecl) string {
	if fd == nil || fd.Recv == nil || len(fd.Recv.List) == 0 {
		return ""
	}
	t := fd.Recv.List[0].Type
	if s, ok := t.(*ast.StarExpr); ok {
		t = s.X
	}
	if id, ok := t.(*ast.Ident); ok {
		return id.Name
	}
	return ""
}

func accessorFacts(l *loader, out string, all map[string]any) {
	cp := modPath + "/mjml/components"
	info := l.infos[cp]
	var sites []accSite
	// forwarding wrappers: func (c *X) getAttribute(name string) string { return c.<accessor>(..., name) }
	wrappers := map[string]string{} // "X.getAttribute" -> kind
	kindOf := func(method string, recv types.Type) string {
		switch method {
		case "GetAttributeWithDefault":
			return "Full"
		case "GetAttributeFast":
			return "Fast"
		case "GetAttribute":
			if recv != nil && strings.Contains(recv.String(), "parser.MJMLNode") {
				return "NodeOnly"
			}
			return "NoGlobal"
		}
		return ""
	}
	// custom accessors: a method with a single string parameter that forwards it as the attribute name to
	// one or more accessors; its kind is the weakest of those (NodeOnly < NoGlobal < Full). Iterated to a
	// fixpoint so that wrappers of wrappers are resolved.
	weaker := func(a, b string) string {
		rank := map[string]int{"NodeOnly": 0, "NoGlobal": 1, "Fast": 2, "Full": 2}
		if a == "" {
			return b
		}
		if rank[b] < rank[a] {
			return b
		}
		return a
	}
	for round := 0; round < 3; round++ {
		for _, f := range l.files[cp] {
			for _, d := range f.Decls {
				fd, ok := d.(*ast.FuncDecl)
				if !ok || fd.Body == nil || fd.Recv == nil || fd.Type.Params == nil {
					continue
				}
				// exactly one parameter of type string (possibly after others? keep it strict: last parameter)
				pl := fd.Type.Params.List
				if len(pl) == 0 || len(pl[len(pl)-1].Names) != 1 {
					continue
				}
				pname := pl[len(pl)-1].Names[0]
				if t := info.TypeOf(pl[len(pl)-1].Type); t == nil || t.String() != "string" {
					continue
				}
				pobj := info.Defs[pname]
				own := recvTypeName(fd) + "." + fd.Name.Name
				if own == "BaseComponent.GetAttributeWithDefault" || own == "BaseComponent.GetAttributeFast" || own == "BaseComponent.GetAttribute" {
					continue
				}
				kind := ""
				ast.Inspect(fd.Body, func(n ast.Node) bool {
					call, ok := n.(*ast.CallExpr)
					if !ok || len(call.Args) == 0 {
						return true
					}
					sel, ok := call.Fun.(*ast.SelectorExpr)
					if !ok {
						return true
					}
					last, ok := call.Args[len(call.Args)-1].(*ast.Ident)
					if !ok || info.Uses[last] != pobj {
						return true
					}
					k := kindOf(sel.Sel.Name, info.TypeOf(sel.X))
					if k == "" {
						if rt := info.TypeOf(sel.X); rt != nil {
							name := rt.String()
							name = name[strings.LastIndex(name, ".")+1:]
							k = wrappers[name+"."+sel.Sel.Name]
						}
					}
					if k != "" {
						kind = weaker(kind, k)
					}
					return true
				})
				if kind != "" {
					wrappers[own] = kind
				}
			}
		}
	}
	for _, f := range l.files[cp] {
		ast.Inspect(f, func(n ast.Node) bool {
			call, ok := n.(*ast.CallExpr)
			if !ok {
				return true
			}
			sel, ok := call.Fun.(*ast.SelectorExpr)
			if !ok || len(call.Args) == 0 {
				return true
			}
			fd := enclosing(f, call.Pos())
			comp := recvTypeName(fd)
			fn := ""
			if fd != nil {
				fn = funcName(fd)
			}
			kind := kindOf(sel.Sel.Name, info.TypeOf(sel.X))
			if kind == "" {
				// call of a forwarding wrapper?
				rt := info.TypeOf(sel.X)
				if rt != nil {
					name := rt.String()
					name = name[strings.LastIndex(name, ".")+1:]
					if k, ok := wrappers[name+"."+sel.Sel.Name]; ok {
						kind = k
						if comp == "" {
							comp = name
						}
					}
				}
			}
			if kind == "" {
				return true
			}
			if fd != nil && wrappers[comp+"."+fd.Name.Name] != "" {
				return true // the wrapper's own body
			}
			// which component does the accessed object belong to? (a method of X reading c.Parent... is rare; use the receiver type of sel.X when it is a component)
			if rt := info.TypeOf(sel.X); rt != nil {
				name := rt.String()
				name = name[strings.LastIndex(name, ".")+1:]
				if strings.HasPrefix(name, "MJ") && strings.HasSuffix(name, "Component") {
					comp = name
				}
			}
			arg := call.Args[len(call.Args)-1]
			attr := "?"
			if tv, ok := info.Types[arg]; ok && tv.Value != nil && tv.Value.Kind() == constant.String {
				attr = constant.StringVal(tv.Value)
			}
			file, line := l.pos(call.Pos())
			sites = append(sites, accSite{file, line, comp, attr, kind, fn})
			return true
		})
	}
	// defaults: switch name { case "a": return "lit" } in GetDefaultAttribute methods
	type def struct {
		Comp string `json:"comp"`
		Attr string `json:"attr"`
		Val  string `json:"val"`
		Dyn  bool   `json:"dynamic"`
	}
	var defs []def
	tagOf := map[string]string{} // component type -> tag (from GetTagName methods returning a literal)
	for _, f := range l.files[cp] {
		for _, d := range f.Decls {
			fd, ok := d.(*ast.FuncDecl)
			if !ok || fd.Body == nil || fd.Recv == nil {
				continue
			}
			if fd.Name.Name == "GetTagName" && len(fd.Body.List) == 1 {
				if r, ok := fd.Body.List[0].(*ast.ReturnStmt); ok && len(r.Results) == 1 {
					if tv, ok := info.Types[r.Results[0]]; ok && tv.Value != nil {
						tagOf[recvTypeName(fd)] = constant.StringVal(tv.Value)
					}
				}
			}
			if fd.Name.Name != "GetDefaultAttribute" {
				continue
			}
			ast.Inspect(fd.Body, func(n ast.Node) bool {
				sw, ok := n.(*ast.SwitchStmt)
				if !ok {
					return true
				}
				for _, c := range sw.Body.List {
					cc := c.(*ast.CaseClause)
					for _, e := range cc.List {
						tv, ok := info.Types[e]
						if !ok || tv.Value == nil {
							continue
						}
						name := constant.StringVal(tv.Value)
						dv := def{Comp: recvTypeName(fd), Attr: name, Dyn: true}
						if len(cc.Body) == 1 {
							if r, ok := cc.Body[0].(*ast.ReturnStmt); ok && len(r.Results) == 1 {
								if rv, ok := info.Types[r.Results[0]]; ok && rv.Value != nil && rv.Value.Kind() == constant.String {
									dv.Val, dv.Dyn = constant.StringVal(rv.Value), false
								}
							}
						}
						defs = append(defs, dv)
					}
				}
				return false
			})
		}
	}
	sort.Slice(sites, func(i, j int) bool {
		if sites[i].File != sites[j].File {
			return sites[i].File < sites[j].File
		}
		return sites[i].Line < sites[j].Line
	})
	var sb strings.Builder
	sb.WriteString(header)
	sb.WriteString("Inductive akind := Full | Fast | NoGlobal | NodeOnly.\n")
	sb.WriteString("Record acc_site := { as_file : string ; as_line : N ; as_comp : string ; as_attr : string ; as_kind : akind }.\n")
	sb.WriteString("Definition acc_sites : list acc_site := [\n")
	for i, s := range sites {
		if i > 0 {
			sb.WriteString(";\n")
		}
		fmt.Fprintf(&sb, "  {| as_file := %s ; as_line := %d ; as_comp := %s ; as_attr := %s ; as_kind := %s |}", coqStr(s.File), s.Line, coqStr(s.Comp), coqStr(s.Attr), s.Kind)
	}
	sb.WriteString("].\n")
	sb.WriteString("Definition comp_tags : list (string * string) := [\n")
	var comps []string
	for c := range tagOf {
		comps = append(comps, c)
	}
	sort.Strings(comps)
	for i, c := range comps {
		if i > 0 {
			sb.WriteString(";\n")
		}
		fmt.Fprintf(&sb, "  (%s, %s)", coqStr(c), coqStr(tagOf[c]))
	}
	sb.WriteString("].\n")
	writeFile(out, "Accessors.v", sb.String())
	all["acc_sites"] = sites
	all["defaults"] = defs
	all["comp_tags"] = tagOf
	_ = token.NoPos
}

// ---- paths (C08): every public entry installs the per-render store before building components; the
// process-wide getters are only reached as a fallback ---------------------------------------------
type entryFact struct {
	Func       string `json:"func"`
	SetsStore  bool   `json:"sets_store_before_create"`
	CallsBuild bool   `json:"calls_create_component"`
}
type legacySite struct {
	File    string `json:"file"`
	Line    int    `json:"line"`
	Func    string `json:"func"`
	Callee  string `json:"callee"`
	Guarded bool   `json:"guarded"`
}

// endsInReturn: the block's last statement is an unconditional return
func endsInReturn(b *ast.BlockStmt) bool {
	if b == nil || len(b.List) == 0 {
		return false
	}
	_, ok := b.List[len(b.List)-1].(*ast.ReturnStmt)
	return ok
}

func pathsFacts(l *loader, out string, all map[string]any) {
	p := modPath + "/mjml"
	info := l.infos[p]
	var entries []entryFact
	for _, f := range l.files[p] {
		for _, d := range f.Decls {
			fd, ok := d.(*ast.FuncDecl)
			if !ok || fd.Body == nil || fd.Recv != nil || !fd.Name.IsExported() {
				continue
			}
			// an entry point is an exported function that (transitively through local helpers is not
			// followed) calls CreateComponent directly
			var createPos, storePos token.Pos
			ast.Inspect(fd.Body, func(n ast.Node) bool {
				switch x := n.(type) {
				case *ast.CallExpr:
					if id, ok := x.Fun.(*ast.Ident); ok && id.Name == "CreateComponent" && createPos == token.NoPos {
						createPos = x.Pos()
					}
				case *ast.AssignStmt:
					for _, lhs := range x.Lhs {
						if sel, ok := lhs.(*ast.SelectorExpr); ok && sel.Sel.Name == "GlobalAttributes" && storePos == token.NoPos {
							storePos = x.Pos()
						}
					}
				}
				return true
			})
			if fd.Name.Name == "CreateComponent" {
				continue
			}
			if createPos != token.NoPos {
				entries = append(entries, entryFact{fd.Name.Name, storePos != token.NoPos && storePos < createPos, true})
			}
		}
	}
	_ = info
	var sites []legacySite
	for _, pk := range sortedKeys(l.files) {
		if !isProdPkg(pk) || short(pk) == "mjml/globals" {
			continue
		}
		pinfo := l.infos[pk]
		for _, f := range l.files[pk] {
			ast.Inspect(f, func(n ast.Node) bool {
				call, ok := n.(*ast.CallExpr)
				if !ok {
					return true
				}
				q := qualifiedCallee(pinfo, call)
				if !strings.HasPrefix(q, modPath+"/mjml/globals.Get") {
					return true
				}
				fd := enclosing(f, call.Pos())
				guarded := false
				fn := ""
				if fd != nil {
					fn = funcName(fd)
					// an earlier "if ... GlobalAttributes != nil { ... return ... }" (or a reassignment of the
					// getter variable under that condition) makes this call the fallback
					ast.Inspect(fd.Body, func(m ast.Node) bool {
						ifs, ok := m.(*ast.IfStmt)
						if !ok || ifs.Pos() > call.Pos() && !(ifs.Pos() <= call.Pos() && call.End() <= ifs.End()) {
							return true
						}
						if strings.Contains(types.ExprString(ifs.Cond), "GlobalAttributes != nil") {
							// the branch taken when the per-render store exists must leave the function on every
							// path (its last statement is a return, no conditional fall-through)
							if endsInReturn(ifs.Body) {
								guarded = true
							}
						}
						return true
					})
					// also the pattern where the legacy getter is only the initial value of a variable that the
					// guarded branch overrides (call appears as a bare function value, handled above)
				}
				file, line := l.pos(call.Pos())
				sites = append(sites, legacySite{file, line, fn, shortCallee(q), guarded})
				return true
			})
			// function values (not calls): getGlobal := globals.GetGlobalAttribute
			ast.Inspect(f, func(n ast.Node) bool {
				as, ok := n.(*ast.AssignStmt)
				if !ok {
					return true
				}
				for _, rhs := range as.Rhs {
					if sel, ok := rhs.(*ast.SelectorExpr); ok {
						if id, ok := sel.X.(*ast.Ident); ok {
							if pn, ok := pinfo.Uses[id].(*types.PkgName); ok && pn.Imported().Path() == modPath+"/mjml/globals" && strings.HasPrefix(sel.Sel.Name, "Get") {
								fd := enclosing(f, as.Pos())
								guarded := false
								fn := ""
								if fd != nil {
									fn = funcName(fd)
									ast.Inspect(fd.Body, func(m ast.Node) bool {
										if ifs, ok := m.(*ast.IfStmt); ok && ifs.Pos() > as.Pos() && strings.Contains(types.ExprString(ifs.Cond), "GlobalAttributes != nil") {
											guarded = true
										}
										return true
									})
								}
								file, line := l.pos(as.Pos())
								sites = append(sites, legacySite{file, line, fn, "globals." + sel.Sel.Name + " (function value)", guarded})
							}
						}
					}
				}
				return true
			})
		}
	}
	var sb strings.Builder
	sb.WriteString(header)
	sb.WriteString("Definition entry_points : list (string * bool) := [\n")
	for i, e := range entries {
		if i > 0 {
			sb.WriteString(";\n")
		}
		fmt.Fprintf(&sb, "  (%s, %v)", coqStr(e.Func), e.SetsStore)
	}
	sb.WriteString("].\n")
	sb.WriteString("Definition legacy_getter_sites : list (string * N * string * bool) := [\n")
	for i, s := range sites {
		if i > 0 {
			sb.WriteString(";\n")
		}
		fmt.Fprintf(&sb, "  (%s, %d, %s, %v)", coqStr(s.File), s.Line, coqStr(s.Func), s.Guarded)
	}
	sb.WriteString("].\n")
	writeFile(out, "Paths.v", sb.String())
	all["entry_points"] = entries
	all["legacy_getter_sites"] = sites
}

// ---- parser constants (C18): entity names, void elements, the entity replacement table ------------
func coqBytes(s string) string {
	parts := make([]string, len(s))
	for i := 0; i < len(s); i++ {
		parts[i] = fmt.Sprintf("x%02x", s[i])
	}
	return "[" + strings.Join(parts, "; ") + "]"
}

func mapKeys(info *types.Info, f *ast.File, varName string) []string {
	var keys []string
	ast.Inspect(f, func(n ast.Node) bool {
		vs, ok := n.(*ast.ValueSpec)
		if !ok {
			return true
		}
		for i, name := range vs.Names {
			if name.Name == varName && i < len(vs.Values) {
				if cl, ok := vs.Values[i].(*ast.CompositeLit); ok {
					for _, el := range cl.Elts {
						if kv, ok := el.(*ast.KeyValueExpr); ok {
							if tv, ok := info.Types[kv.Key]; ok && tv.Value != nil {
								keys = append(keys, constant.StringVal(tv.Value))
							}
						}
					}
				}
			}
		}
		return true
	})
	return keys
}

func parserConsts(l *loader, out string, all map[string]any) {
	p := modPath + "/parser"
	info := l.infos[p]
	var named, voids []string
	var pairs [][2]string
	consts := map[string]string{}
	for _, f := range l.files[p] {
		named = append(named, mapKeys(info, f, "namedHTMLEntities")...)
		voids = append(voids, mapKeys(info, f, "htmlVoidElements")...)
		for _, d := range f.Decls {
			if fd, ok := d.(*ast.FuncDecl); ok && fd.Name.Name == "preprocessHTMLEntities" && fd.Body != nil {
				ast.Inspect(fd.Body, func(n ast.Node) bool {
					if c, ok := n.(*ast.CallExpr); ok && qualifiedCallee(info, c) == "strings.ReplaceAll" && len(c.Args) == 3 {
						a, okA := info.Types[c.Args[1]]
						b, okB := info.Types[c.Args[2]]
						if okA && okB && a.Value != nil && b.Value != nil {
							pairs = append(pairs, [2]string{constant.StringVal(a.Value), constant.StringVal(b.Value)})
						}
					}
					return true
				})
			}
			if gd, ok := d.(*ast.GenDecl); ok && gd.Tok == token.CONST {
				for _, sp := range gd.Specs {
					vs := sp.(*ast.ValueSpec)
					for i, nm := range vs.Names {
						if i < len(vs.Values) {
							if tv, ok := info.Types[vs.Values[i]]; ok && tv.Value != nil && tv.Value.Kind() == constant.String {
								consts[nm.Name] = constant.StringVal(tv.Value)
							}
						}
					}
				}
			}
		}
	}
	sort.Strings(voids) // buildVoidElementsRegexPattern sorts them
	var sb strings.Builder
	sb.WriteString("(* GENERATED by gen/gomjml-facts from /repo's working tree on every check run. Do not edit. *)\n")
	sb.WriteString("From Coq Require Import List.\nFrom Coq.Strings Require Import Byte.\nImport ListNotations.\n\n")
	wl := func(name string, l []string) {
		fmt.Fprintf(&sb, "Definition %s : list (list byte) := [\n", name)
		for i, s := range l {
			if i > 0 {
				sb.WriteString(";\n")
			}
			sb.WriteString("  " + coqBytes(s))
		}
		sb.WriteString("].\n")
	}
	wl("named_entities", named)
	wl("void_names", voids)
	sb.WriteString("Definition entity_table : list (list byte * list byte) := [\n")
	for i, pr := range pairs {
		if i > 0 {
			sb.WriteString(";\n")
		}
		fmt.Fprintf(&sb, "  (%s, %s)", coqBytes(pr[0]), coqBytes(pr[1]))
	}
	sb.WriteString("].\n")
	for _, k := range []string{"openNeedle", "closeNeedle", "cdataStart", "cdataEnd", "cdataEndSafe"} {
		fmt.Fprintf(&sb, "Definition src_%s : list byte := %s.\n", k, coqBytes(consts[k]))
	}
	writeFile(out, "ParserConsts.v", sb.String())
	all["named_entities"] = named
	all["void_names"] = voids
	all["entity_table"] = pairs
}

// ---- misc sites (C12): every read of RenderOpts.DebugTags -------------------------------------------
func sitesFacts(l *loader, out string, all map[string]any) {
	type site struct {
		File  string `json:"file"`
		Line  int    `json:"line"`
		Func  string `json:"func"`
		Write bool   `json:"write"`
	}
	var sites []site
	for _, p := range sortedKeys(l.files) {
		if !isProdPkg(p) {
			continue
		}
		for _, f := range l.files[p] {
			// writes: selector on the LHS of an assignment
			lhs := map[ast.Node]bool{}
			ast.Inspect(f, func(n ast.Node) bool {
				if as, ok := n.(*ast.AssignStmt); ok {
					for _, e := range as.Lhs {
						lhs[e] = true
					}
				}
				return true
			})
			ast.Inspect(f, func(n ast.Node) bool {
				sel, ok := n.(*ast.SelectorExpr)
				if !ok || sel.Sel.Name != "DebugTags" {
					return true
				}
				fd := enclosing(f, sel.Pos())
				fn := ""
				if fd != nil {
					fn = funcName(fd)
				}
				file, line := l.pos(sel.Pos())
				sites = append(sites, site{file, line, fn, lhs[sel]})
				return true
			})
		}
	}
	var sb strings.Builder
	sb.WriteString(header)
	sb.WriteString("Definition debug_flag_sites : list (string * N * string * bool) := [\n")
	for i, s := range sites {
		if i > 0 {
			sb.WriteString(";\n")
		}
		fmt.Fprintf(&sb, "  (%s, %d, %s, %v)", coqStr(s.File), s.Line, coqStr(s.Func), s.Write)
	}
	sb.WriteString("].\n")
	writeFile(out, "Sites.v", sb.String())
	all["debug_flag_sites"] = sites
}
