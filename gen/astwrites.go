package main

import (
	"go/ast"
	"go/token"
	"go/types"
	"strings"
)

type astWrite struct {
	File string `json:"file"`
	Line int    `json:"line"`
	Func string `json:"func"`
	What string `json:"what"`
	Kind string `json:"kind"`
}

type unsafeUse struct {
	File string `json:"file"`
	Line int    `json:"line"`
	What string `json:"what"`
}

// treeTypes: the named types of package parser a parsed tree consists of (MJMLNode and whatever its fields reach);
// nil until astWriteFacts has computed it - then parse-time helpers such as the line lookup are not "the tree".
var treeTypes map[*types.TypeName]bool

func computeTreeTypes(pkg *types.Package) {
	treeTypes = map[*types.TypeName]bool{}
	root, _ := pkg.Scope().Lookup("MJMLNode").(*types.TypeName)
	if root == nil {
		treeTypes = nil
		return
	}
	var walk func(t types.Type)
	walk = func(t types.Type) {
		switch x := types.Unalias(t).(type) {
		case *types.Named:
			if x.Obj().Pkg() == nil || x.Obj().Pkg().Path() != modPath+"/parser" || treeTypes[x.Obj()] {
				return
			}
			treeTypes[x.Obj()] = true
			walk(x.Underlying())
		case *types.Pointer:
			walk(x.Elem())
		case *types.Slice:
			walk(x.Elem())
		case *types.Array:
			walk(x.Elem())
		case *types.Map:
			walk(x.Key())
			walk(x.Elem())
		case *types.Struct:
			for i := 0; i < x.NumFields(); i++ {
				walk(x.Field(i).Type())
			}
		}
	}
	walk(root.Type())
}

func isParserNamed(t types.Type) bool {
	if t == nil {
		return false
	}
	if n, ok := t.(*types.Named); ok && n.Obj().Pkg() != nil {
		if n.Obj().Pkg().Path() != modPath+"/parser" {
			return false
		}
		return treeTypes == nil || treeTypes[n.Obj()]
	}
	if a, ok := t.(*types.Alias); ok {
		return isParserNamed(types.Unalias(a))
	}
	return false
}

func isPtrToParser(t types.Type) bool {
	if t == nil {
		return false
	}
	if p, ok := types.Unalias(t).Underlying().(*types.Pointer); ok {
		return isParserNamed(p.Elem())
	}
	return false
}

func isRefType(t types.Type) bool {
	if t == nil {
		return false
	}
	switch t.Underlying().(type) {
	case *types.Slice, *types.Map:
		return true
	}
	return false
}

// one function declaration of the product, with what the whole-program pre-pass learnt about it
type wfn struct {
	pkg   string
	info  *types.Info
	fd    *ast.FuncDecl
	obj   *types.Func
	name  string
	scan  bool // its statements are subject to the "no write through tree memory" rule
	alias map[types.Object]bool
}

// in-place mutators of the slices package (besides sort.* / slices.Sort* / slices.Reverse)
var slicesMutators = map[string]bool{"slices.Delete": true, "slices.DeleteFunc": true, "slices.Insert": true, "slices.Replace": true,
	"slices.Compact": true, "slices.CompactFunc": true}

// astWrites: every statement that may write memory of the parsed tree while a document is compiled.
//
// Scope: every function outside package parser; inside package parser the methods of the tree's own types (the
// getters the renderer calls) and every parser function that is handed a reference into the tree by a function in
// scope.  References flow across calls: a slice / map parameter that receives a tree slice at some call site is tree
// memory inside the callee, and a function that returns a tree slice yields tree memory at its call sites (computed
// to a fixed point over the whole product).
func astWriteFacts(l *loader) ([]astWrite, []unsafeUse, int) {
	var out []astWrite
	var uns []unsafeUse
	scanned := 0
	var fns []*wfn
	byObj := map[*types.Func]*wfn{}
	if pp := l.pkgs[modPath+"/parser"]; pp != nil {
		computeTreeTypes(pp)
	}
	for _, p := range sortedKeys(l.files) {
		if !isProdPkg(p) {
			continue
		}
		info := l.infos[p]
		for _, f := range l.files[p] {
			if short(p) != "parser" {
				for _, imp := range f.Imports {
					path := strings.Trim(imp.Path.Value, `"`)
					if path == "unsafe" || path == "reflect" {
						file, line := l.pos(imp.Pos())
						uns = append(uns, unsafeUse{file, line, "import " + path})
					}
				}
			}
			for _, d := range f.Decls {
				fd, ok := d.(*ast.FuncDecl)
				if !ok || fd.Body == nil {
					continue
				}
				obj, _ := info.Defs[fd.Name].(*types.Func)
				w := &wfn{pkg: p, info: info, fd: fd, obj: obj, name: funcName(fd), alias: map[types.Object]bool{}}
				if short(p) != "parser" {
					w.scan = true
				} else if fd.Recv != nil && len(fd.Recv.List) > 0 {
					t := info.TypeOf(fd.Recv.List[0].Type)
					if isParserNamed(t) || isPtrToParser(t) {
						w.scan = true
					}
				}
				fns = append(fns, w)
				if obj != nil {
					byObj[obj] = w
				}
			}
		}
	}
	paramAlias := map[types.Object]bool{}
	retTree := map[*types.Func]bool{}

	calleeOf := func(info *types.Info, call *ast.CallExpr) *types.Func {
		switch f := call.Fun.(type) {
		case *ast.Ident:
			fn, _ := info.Uses[f].(*types.Func)
			return fn
		case *ast.SelectorExpr:
			fn, _ := info.Uses[f.Sel].(*types.Func)
			return fn
		}
		return nil
	}

	// the two judgements of one function under the current whole-program knowledge
	type judge struct {
		reach     func(e ast.Expr) bool // the lvalue e designates tree memory
		treeValue func(e ast.Expr) bool // the value of e is a reference (slice / map / pointer) into the tree
	}
	mkJudge := func(w *wfn) judge {
		info := w.info
		var j judge
		j.treeValue = func(e ast.Expr) bool {
			switch x := e.(type) {
			case *ast.ParenExpr:
				return j.treeValue(x.X)
			case *ast.Ident:
				o := info.Uses[x]
				return w.alias[o] || paramAlias[o]
			case *ast.SelectorExpr:
				t := info.TypeOf(x.X)
				if isPtrToParser(t) || (isParserNamed(t) && j.reach(x.X)) {
					switch info.TypeOf(x).Underlying().(type) {
					case *types.Slice, *types.Map, *types.Pointer:
						return true
					}
				}
				return false
			case *ast.SliceExpr:
				return j.treeValue(x.X)
			case *ast.IndexExpr:
				if j.treeValue(x.X) {
					return isRefType(info.TypeOf(x))
				}
				return false
			case *ast.CallExpr:
				if fn := calleeOf(info, x); fn != nil && retTree[fn] {
					return true
				}
				return false
			}
			return false
		}
		j.reach = func(e ast.Expr) bool {
			switch x := e.(type) {
			case *ast.ParenExpr:
				return j.reach(x.X)
			case *ast.StarExpr:
				return isPtrToParser(info.TypeOf(x.X))
			case *ast.SelectorExpr:
				t := info.TypeOf(x.X)
				if isPtrToParser(t) {
					return true
				}
				if t != nil {
					if _, isStruct := t.Underlying().(*types.Struct); isStruct {
						return j.reach(x.X)
					}
				}
				return false
			case *ast.IndexExpr:
				t := info.TypeOf(x.X)
				if t == nil {
					return false
				}
				switch t.Underlying().(type) {
				case *types.Slice, *types.Map:
					return j.treeValue(x.X)
				case *types.Array:
					return j.reach(x.X)
				}
				return false
			}
			return false
		}
		return j
	}
	// local aliases: variables that hold a slice / map obtained from the tree
	localAliases := func(w *wfn, j judge) {
		info := w.info
		for pass := 0; pass < 2; pass++ {
			ast.Inspect(w.fd.Body, func(n ast.Node) bool {
				switch s := n.(type) {
				case *ast.AssignStmt:
					for i, lhs := range s.Lhs {
						if i < len(s.Rhs) && len(s.Lhs) == len(s.Rhs) {
							if id, ok := lhs.(*ast.Ident); ok && j.treeValue(s.Rhs[i]) {
								obj := info.Defs[id]
								if obj == nil {
									obj = info.Uses[id]
								}
								if obj != nil {
									w.alias[obj] = true
								}
							}
						}
					}
				case *ast.RangeStmt:
					if j.treeValue(s.X) && s.Value != nil {
						if id, ok := s.Value.(*ast.Ident); ok && isRefType(info.TypeOf(s.Value)) {
							if obj := info.Defs[id]; obj != nil {
								w.alias[obj] = true
							}
						}
					}
				}
				return true
			})
		}
	}
	// whole-program fixed point: parameters that receive tree references, functions that return them
	for changed := true; changed; {
		changed = false
		for _, w := range fns {
			if !w.scan {
				continue
			}
			j := mkJudge(w)
			localAliases(w, j)
			ast.Inspect(w.fd.Body, func(n ast.Node) bool {
				switch s := n.(type) {
				case *ast.CallExpr:
					fn := calleeOf(w.info, s)
					cw := byObj[fn]
					if fn == nil || cw == nil {
						return true
					}
					sig, _ := fn.Type().(*types.Signature)
					if sig == nil {
						return true
					}
					for i, a := range s.Args {
						k := i
						if k >= sig.Params().Len() {
							k = sig.Params().Len() - 1
						}
						if k < 0 {
							break
						}
						pv := sig.Params().At(k)
						if isRefType(pv.Type()) && j.treeValue(a) {
							if !paramAlias[pv] {
								paramAlias[pv] = true
								changed = true
							}
							if !cw.scan {
								cw.scan = true
								changed = true
							}
						}
					}
				case *ast.ReturnStmt:
					for _, r := range s.Results {
						if w.obj != nil && isRefType(w.info.TypeOf(r)) && j.treeValue(r) && !retTree[w.obj] {
							retTree[w.obj] = true
							changed = true
						}
					}
				}
				return true
			})
		}
	}
	// the scan proper
	for _, w := range fns {
		if !w.scan {
			continue
		}
		info := w.info
		j := mkJudge(w)
		localAliases(w, j)
		add := func(pos token.Pos, what, kind string) {
			file, line := l.pos(pos)
			out = append(out, astWrite{file, line, w.name, what, kind})
		}
		ast.Inspect(w.fd.Body, func(n ast.Node) bool {
			switch s := n.(type) {
			case *ast.AssignStmt:
				scanned++
				if s.Tok == token.DEFINE {
					return true
				}
				for _, lhs := range s.Lhs {
					if j.reach(lhs) {
						add(lhs.Pos(), types.ExprString(lhs), "assignment")
					}
				}
			case *ast.IncDecStmt:
				scanned++
				if j.reach(s.X) {
					add(s.Pos(), types.ExprString(s.X), "inc/dec")
				}
			case *ast.CallExpr:
				if id, ok := s.Fun.(*ast.Ident); ok && len(s.Args) > 0 {
					switch id.Name {
					case "append":
						scanned++
						if j.treeValue(s.Args[0]) {
							add(s.Pos(), types.ExprString(s.Args[0]), "append to a tree slice (shared backing array)")
						}
					case "delete", "copy", "clear":
						scanned++
						if j.treeValue(s.Args[0]) {
							add(s.Pos(), types.ExprString(s.Args[0]), id.Name)
						}
					}
				}
				q := qualifiedCallee(info, s)
				if strings.HasPrefix(q, "sort.") || strings.HasPrefix(q, "slices.Sort") || strings.HasPrefix(q, "slices.Reverse") || slicesMutators[q] {
					scanned++
					if len(s.Args) > 0 && j.treeValue(s.Args[0]) {
						add(s.Pos(), types.ExprString(s.Args[0]), q)
					}
				}
			case *ast.UnaryExpr:
				// &node.Field escaping: conservative flag for non-call contexts is too noisy; the
				// only address-of forms on tree memory are reported.
				if s.Op == token.AND && j.reach(s.X) {
					add(s.Pos(), types.ExprString(s.X), "address of tree memory taken")
				}
			}
			return true
		})
	}
	return out, uns, scanned
}
