package main

import (
	"go/ast"
	"go/token"
	"go/types"
	"strings"
)

type astWrite struct {
	File string `json:"file"`
	Line int    `json:"line"`
	Func string `json:"func"`
	What string `json:"what"`
	Kind string `json:"kind"`
}

type unsafeUse struct {
	File string `json:"file"`
	Line int    `json:"line"`
	What string `json:"what"`
}

func isParserNamed(t types.Type) bool {
	if t == nil {
		return false
	}
	if n, ok := t.(*types.Named); ok && n.Obj().Pkg() != nil {
		return n.Obj().Pkg().Path() == modPath+"/parser"
	}
	if a, ok := t.(*types.Alias); ok {
		return isParserNamed(types.Unalias(a))
	}
	return false
}

func isPtrToParser(t types.Type) bool {
	if t == nil {
		return false
	}
	if p, ok := types.Unalias(t).Underlying().(*types.Pointer); ok {
		return isParserNamed(p.Elem())
	}
	return false
}

// astWrites: every statement outside package parser that may write memory of the parsed tree.
func astWriteFacts(l *loader) ([]astWrite, []unsafeUse, int) {
	var out []astWrite
	var uns []unsafeUse
	scanned := 0
	for _, p := range sortedKeys(l.files) {
		if !isProdPkg(p) || short(p) == "parser" {
			continue
		}
		info := l.infos[p]
		for _, f := range l.files[p] {
			for _, imp := range f.Imports {
				path := strings.Trim(imp.Path.Value, `"`)
				if path == "unsafe" || path == "reflect" {
					file, line := l.pos(imp.Pos())
					uns = append(uns, unsafeUse{file, line, "import " + path})
				}
			}
			for _, d := range f.Decls {
				fd, ok := d.(*ast.FuncDecl)
				if !ok || fd.Body == nil {
					continue
				}
				fname := funcName(fd)
				// aliases: locals that hold a slice/map/pointer obtained from the tree
				alias := map[types.Object]bool{}
				var reach func(e ast.Expr) bool     // the lvalue e designates tree memory
				var treeValue func(e ast.Expr) bool // the value of e is a reference (slice/map/pointer) into the tree
				treeValue = func(e ast.Expr) bool {
					switch x := e.(type) {
					case *ast.ParenExpr:
						return treeValue(x.X)
					case *ast.Ident:
						return alias[info.Uses[x]]
					case *ast.SelectorExpr:
						t := info.TypeOf(x.X)
						if isPtrToParser(t) || (isParserNamed(t) && reach(x.X)) {
							switch info.TypeOf(x).Underlying().(type) {
							case *types.Slice, *types.Map, *types.Pointer:
								return true
							}
						}
						return false
					case *ast.SliceExpr:
						return treeValue(x.X)
					case *ast.IndexExpr:
						// element of a tree slice that is itself a reference
						if treeValue(x.X) {
							switch info.TypeOf(x).Underlying().(type) {
							case *types.Slice, *types.Map:
								return true
							}
						}
						return false
					}
					return false
				}
				reach = func(e ast.Expr) bool {
					switch x := e.(type) {
					case *ast.ParenExpr:
						return reach(x.X)
					case *ast.StarExpr:
						return isPtrToParser(info.TypeOf(x.X))
					case *ast.SelectorExpr:
						t := info.TypeOf(x.X)
						if isPtrToParser(t) {
							return true
						}
						if t != nil {
							if _, isStruct := t.Underlying().(*types.Struct); isStruct {
								return reach(x.X)
							}
						}
						return false
					case *ast.IndexExpr:
						t := info.TypeOf(x.X)
						if t == nil {
							return false
						}
						switch t.Underlying().(type) {
						case *types.Slice, *types.Map:
							return treeValue(x.X)
						case *types.Array:
							return reach(x.X)
						}
						return false
					}
					return false
				}
				add := func(pos token.Pos, what, kind string) {
					file, line := l.pos(pos)
					out = append(out, astWrite{file, line, fname, what, kind})
				}
				// two passes so that aliases defined later in source order are still seen in loops
				for pass := 0; pass < 2; pass++ {
					ast.Inspect(fd.Body, func(n ast.Node) bool {
						switch s := n.(type) {
						case *ast.AssignStmt:
							for i, lhs := range s.Lhs {
								if i < len(s.Rhs) && len(s.Lhs) == len(s.Rhs) {
									if id, ok := lhs.(*ast.Ident); ok && treeValue(s.Rhs[i]) {
										obj := info.Defs[id]
										if obj == nil {
											obj = info.Uses[id]
										}
										if obj != nil {
											alias[obj] = true
										}
									}
								}
							}
						case *ast.RangeStmt:
							// for _, v := range node.Children: v is a copy of an element; if elements are
							// slices/maps they alias the tree
							if treeValue(s.X) && s.Value != nil {
								if id, ok := s.Value.(*ast.Ident); ok {
									switch info.TypeOf(s.Value).Underlying().(type) {
									case *types.Slice, *types.Map:
										if obj := info.Defs[id]; obj != nil {
											alias[obj] = true
										}
									}
								}
							}
						}
						return true
					})
				}
				ast.Inspect(fd.Body, func(n ast.Node) bool {
					switch s := n.(type) {
					case *ast.AssignStmt:
						scanned++
						if s.Tok == token.DEFINE {
							return true
						}
						for _, lhs := range s.Lhs {
							if reach(lhs) {
								add(lhs.Pos(), types.ExprString(lhs), "assignment")
							}
						}
					case *ast.IncDecStmt:
						scanned++
						if reach(s.X) {
							add(s.Pos(), types.ExprString(s.X), "inc/dec")
						}
					case *ast.CallExpr:
						if id, ok := s.Fun.(*ast.Ident); ok && len(s.Args) > 0 {
							switch id.Name {
							case "append":
								scanned++
								if treeValue(s.Args[0]) {
									add(s.Pos(), types.ExprString(s.Args[0]), "append to a tree slice (shared backing array)")
								}
							case "delete", "copy", "clear":
								scanned++
								if treeValue(s.Args[0]) {
									add(s.Pos(), types.ExprString(s.Args[0]), id.Name)
								}
							}
						}
						q := qualifiedCallee(info, s)
						if strings.HasPrefix(q, "sort.") || strings.HasPrefix(q, "slices.Sort") || strings.HasPrefix(q, "slices.Reverse") {
							scanned++
							if len(s.Args) > 0 && treeValue(s.Args[0]) {
								add(s.Pos(), types.ExprString(s.Args[0]), q)
							}
						}
					case *ast.UnaryExpr:
						// &node.Field escaping: conservative flag for non-call contexts is too noisy; the
						// only address-of forms on tree memory are reported.
						if s.Op == token.AND && reach(s.X) {
							add(s.Pos(), types.ExprString(s.X), "address of tree memory taken")
						}
					}
					return true
				})
			}
		}
	}
	return out, uns, scanned
}
