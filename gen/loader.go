// Command gomjml-facts: the translator (tie T). It re-reads /repo's working tree on every run with
// go/parser + go/types and emits the source facts the Coq development's recomputed theorems range over.
package main

import (
	"fmt"
	"go/ast"
	"go/build"
	"go/importer"
	"go/parser"
	"go/token"
	"go/types"
	"os"
	"path/filepath"
	"sort"
	"strings"
)

const modPath = "github.com/preslavrachev/gomjml"

type loader struct {
	root  string
	fset  *token.FileSet
	pkgs  map[string]*types.Package
	infos map[string]*types.Info
	files map[string][]*ast.File
	std   types.Importer
	ctxt  build.Context
	errs  []string
}

func newLoader(root string) *loader {
	l := &loader{root: root, fset: token.NewFileSet(), pkgs: map[string]*types.Package{}, infos: map[string]*types.Info{},
		files: map[string][]*ast.File{}}
	l.ctxt = build.Default
	l.ctxt.BuildTags = []string{"verif"}
	l.std = importer.ForCompiler(l.fset, "source", nil)
	return l
}

// fakePackages stand in for third-party imports (cobra etc.) that only cmd/ uses: cmd/ is read
// syntactically, the library packages are fully type-checked.
func (l *loader) Import(path string) (*types.Package, error) {
	if p, ok := l.pkgs[path]; ok {
		return p, nil
	}
	if !strings.HasPrefix(path, modPath) {
		return l.std.Import(path)
	}
	dir := filepath.Join(l.root, strings.TrimPrefix(path, modPath))
	bp, err := l.ctxt.ImportDir(dir, 0)
	if err != nil {
		return nil, err
	}
	var files []*ast.File
	for _, f := range bp.GoFiles {
		af, err := parser.ParseFile(l.fset, filepath.Join(dir, f), nil, parser.ParseComments)
		if err != nil {
			return nil, err
		}
		files = append(files, af)
	}
	info := &types.Info{Types: map[ast.Expr]types.TypeAndValue{}, Uses: map[*ast.Ident]types.Object{},
		Defs: map[*ast.Ident]types.Object{}, Selections: map[*ast.SelectorExpr]*types.Selection{},
		Implicits: map[ast.Node]types.Object{}}
	conf := types.Config{Importer: l, Error: func(err error) { l.errs = append(l.errs, err.Error()) }}
	p, _ := conf.Check(path, l.fset, files, info)
	if p == nil {
		return nil, fmt.Errorf("type-check of %s failed", path)
	}
	l.pkgs[path] = p
	l.infos[path] = info
	// the verif-tagged hook files are type-checked with their package but are not part of the
	// product: the analyses do not range over them
	var prod []*ast.File
	for _, af := range files {
		if !strings.HasPrefix(filepath.Base(l.fset.Position(af.Pos()).Filename), "verif_") {
			prod = append(prod, af)
		}
	}
	l.files[path] = prod
	return p, nil
}

// libPackages: every non-test package under parser/ and mjml/ (discovered, not listed, so a new
// package is picked up).
func (l *loader) discover() []string {
	var out []string
	for _, top := range []string{"parser", "mjml"} {
		filepath.Walk(filepath.Join(l.root, top), func(p string, fi os.FileInfo, err error) error {
			if err != nil || !fi.IsDir() {
				return nil
			}
			if fi.Name() == "testdata" || fi.Name() == "testutils" {
				return filepath.SkipDir
			}
			bp, err := l.ctxt.ImportDir(p, 0)
			if err == nil && len(bp.GoFiles) > 0 {
				rel, _ := filepath.Rel(l.root, p)
				out = append(out, modPath+"/"+filepath.ToSlash(rel))
			}
			return nil
		})
	}
	sort.Strings(out)
	return out
}

func (l *loader) pos(p token.Pos) (string, int) {
	ps := l.fset.Position(p)
	rel, err := filepath.Rel(l.root, ps.Filename)
	if err != nil {
		rel = ps.Filename
	}
	return filepath.ToSlash(rel), ps.Line
}

func short(pkgPath string) string {
	return strings.TrimPrefix(strings.TrimPrefix(pkgPath, modPath), "/")
}

// test-support packages are not part of what a compilation executes
func isProdPkg(p string) bool {
	s := short(p)
	return s != "mjml/testutils"
}
