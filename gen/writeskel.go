package main

import (
	"fmt"
	"go/ast"
	"go/token"
	"go/types"
	"strings"
)

// prog: the write skeleton of a function that receives the caller's io.StringWriter.
//
//	W            a write whose error is tested immediately and returned unchanged
//	Bad why      any other use of the writer (result dropped, error wrapped or swallowed, deferred, stored, ...)
//	Call f       a call passing the writer on, error tested immediately and returned unchanged
//	Seq/If/Loop  control structure; Skip = statements not touching the writer; Ret = return
type prog struct {
	Op   string  `json:"op"`
	Arg  string  `json:"arg,omitempty"`
	Kids []*prog `json:"kids,omitempty"`
}

type skelFunc struct {
	Name   string `json:"name"`
	File   string `json:"file"`
	Line   int    `json:"line"`
	Prog   *prog  `json:"prog"`
	Writes int    `json:"writes"`
	Calls  int    `json:"calls"`
	Bad    int    `json:"bad"`
}

func pSeq(a, b *prog) *prog {
	if a == nil || a.Op == "Skip" {
		return b
	}
	if b == nil || b.Op == "Skip" {
		return a
	}
	return &prog{Op: "Seq", Kids: []*prog{a, b}}
}

var pSkip = &prog{Op: "Skip"}

func isStringWriterType(t types.Type) bool {
	return t != nil && t.String() == "io.StringWriter"
}

type skelBuilder struct {
	l     *loader
	info  *types.Info
	ws    map[types.Object]bool
	out   *[]skelFunc
	pkg   string
	fname string
	// switch nesting since the innermost loop, and whether the current statement list is a case clause body
	inSwitch  int
	clauseTop bool
}

func (b *skelBuilder) usesW(n ast.Node) bool {
	if n == nil {
		return false
	}
	found := false
	ast.Inspect(n, func(x ast.Node) bool {
		if _, ok := x.(*ast.FuncLit); ok {
			// a literal that closes over w uses it; one with its own writer parameter does not
			fl := x.(*ast.FuncLit)
			own := false
			if fl.Type.Params != nil {
				for _, fld := range fl.Type.Params.List {
					if isStringWriterType(b.info.TypeOf(fld.Type)) {
						own = true
					}
				}
			}
			if own {
				return false
			}
		}
		if id, ok := x.(*ast.Ident); ok && b.ws[b.info.Uses[id]] {
			found = true
		}
		return !found
	})
	return found
}

func isErrNotNil(e ast.Expr) bool {
	be, ok := e.(*ast.BinaryExpr)
	if !ok || be.Op != token.NEQ {
		return false
	}
	x, ok1 := be.X.(*ast.Ident)
	y, ok2 := be.Y.(*ast.Ident)
	return ok1 && ok2 && x.Name == "err" && y.Name == "nil"
}

// body is "[statements not touching w;] return [.., ] err"
func (b *skelBuilder) returnsErrUnchanged(body *ast.BlockStmt) (bool, string) {
	if len(body.List) == 0 {
		return false, "error ignored"
	}
	for _, st := range body.List[:len(body.List)-1] {
		if b.usesW(st) {
			return false, "writes again after a failed write"
		}
	}
	r, ok := body.List[len(body.List)-1].(*ast.ReturnStmt)
	if !ok || len(r.Results) == 0 {
		return false, "error swallowed"
	}
	id, ok := r.Results[len(r.Results)-1].(*ast.Ident)
	if !ok || id.Name != "err" {
		return false, "error wrapped or replaced"
	}
	return true, ""
}

// the single writer-using call of an expression/statement: "W" for w.WriteString, "Call f" otherwise
func (b *skelBuilder) callOf(n ast.Node) *prog {
	var calls []*ast.CallExpr
	ast.Inspect(n, func(x ast.Node) bool {
		if c, ok := x.(*ast.CallExpr); ok {
			direct := false
			if sel, ok := c.Fun.(*ast.SelectorExpr); ok {
				if id, ok := sel.X.(*ast.Ident); ok && b.ws[b.info.Uses[id]] {
					direct = true
				}
			}
			for _, a := range c.Args {
				if id, ok := a.(*ast.Ident); ok && b.ws[b.info.Uses[id]] {
					direct = true
				}
			}
			if direct {
				calls = append(calls, c)
			}
		}
		return true
	})
	if len(calls) != 1 {
		return &prog{Op: "Bad", Arg: fmt.Sprintf("%d writer uses in one statement", len(calls))}
	}
	c := calls[0]
	if sel, ok := c.Fun.(*ast.SelectorExpr); ok {
		if id, ok := sel.X.(*ast.Ident); ok && b.ws[b.info.Uses[id]] {
			if sel.Sel.Name == "WriteString" {
				return &prog{Op: "W"}
			}
			return &prog{Op: "Bad", Arg: "method " + sel.Sel.Name + " on the writer"}
		}
		// result type must end in error
		if !lastResultIsError(b.info.TypeOf(c)) {
			return &prog{Op: "Bad", Arg: "callee " + sel.Sel.Name + " does not return an error"}
		}
		return &prog{Op: "Call", Arg: sel.Sel.Name}
	}
	if id, ok := c.Fun.(*ast.Ident); ok {
		if !lastResultIsError(b.info.TypeOf(c)) {
			return &prog{Op: "Bad", Arg: "callee " + id.Name + " does not return an error"}
		}
		return &prog{Op: "Call", Arg: id.Name}
	}
	return &prog{Op: "Bad", Arg: "indirect call with the writer"}
}

func lastResultIsError(t types.Type) bool {
	if t == nil {
		return false
	}
	if tup, ok := t.(*types.Tuple); ok {
		if tup.Len() == 0 {
			return false
		}
		t = tup.At(tup.Len() - 1).Type()
	}
	return t.String() == "error"
}

func (b *skelBuilder) block(bs *ast.BlockStmt) *prog {
	if bs == nil {
		return pSkip
	}
	nb := *b
	nb.clauseTop = false
	return nb.seq(bs.List)
}

func (b *skelBuilder) loopBody(bs *ast.BlockStmt) *prog {
	nb := *b
	nb.inSwitch = 0
	nb.clauseTop = false
	return nb.seq(bs.List)
}

func (b *skelBuilder) seq(stmts []ast.Stmt) *prog {
	var acc *prog = pSkip
	for i := 0; i < len(stmts); i++ {
		st := stmts[i]
		var p *prog
		switch s := st.(type) {
		case *ast.IfStmt:
			switch {
			case s.Init != nil && b.usesW(s.Init):
				if isErrNotNil(s.Cond) && s.Else == nil {
					if ok, why := b.returnsErrUnchanged(s.Body); ok {
						p = b.callOf(s.Init)
					} else {
						p = &prog{Op: "Bad", Arg: why}
					}
				} else {
					p = &prog{Op: "Bad", Arg: "write result not tested by 'err != nil'"}
				}
			case b.usesW(s.Cond):
				p = &prog{Op: "Bad", Arg: "writer used in a condition"}
			default:
				thenP := b.block(s.Body)
				elseP := pSkip
				switch e := s.Else.(type) {
				case *ast.BlockStmt:
					elseP = b.block(e)
				case *ast.IfStmt:
					elseP = b.seq([]ast.Stmt{e})
				}
				if thenP.Op == "Skip" && elseP.Op == "Skip" {
					p = pSkip
				} else {
					p = &prog{Op: "If", Kids: []*prog{thenP, elseP}}
				}
			}
		case *ast.ReturnStmt:
			if b.usesW(s) {
				p = pSeq(b.callOf(s), &prog{Op: "Ret"})
			} else {
				p = &prog{Op: "Ret"}
			}
		case *ast.AssignStmt:
			if b.usesW(s) {
				okNext := false
				// must be followed by "return err" or "if err != nil { return err }"
				if i+1 < len(stmts) {
					switch nx := stmts[i+1].(type) {
					case *ast.ReturnStmt:
						if len(nx.Results) > 0 {
							if id, k := nx.Results[len(nx.Results)-1].(*ast.Ident); k && id.Name == "err" && !b.usesW(nx) {
								okNext = true
								p = pSeq(b.callOf(s), &prog{Op: "Ret"})
								i++
							}
						}
					case *ast.IfStmt:
						if nx.Init == nil && isErrNotNil(nx.Cond) && nx.Else == nil {
							if ok, _ := b.returnsErrUnchanged(nx.Body); ok {
								okNext = true
								p = b.callOf(s)
								i++
							}
						}
					}
				}
				if !okNext {
					// does the assignment capture err at all?
					p = &prog{Op: "Bad", Arg: "write result not checked by the next statement"}
				}
			} else {
				p = pSkip
			}
		case *ast.ExprStmt:
			if b.usesW(s) {
				p = &prog{Op: "Bad", Arg: "write result dropped"}
			} else {
				p = pSkip
			}
		case *ast.BlockStmt:
			p = b.block(s)
		case *ast.ForStmt:
			if b.usesW(s.Init) || b.usesW(s.Cond) || b.usesW(s.Post) {
				p = &prog{Op: "Bad", Arg: "writer used in a loop header"}
			} else if body := b.loopBody(s.Body); body.Op == "Skip" {
				p = pSkip
			} else {
				p = &prog{Op: "Loop", Kids: []*prog{body}}
			}
		case *ast.RangeStmt:
			if b.usesW(s.X) {
				p = &prog{Op: "Bad", Arg: "writer used in a range header"}
			} else if body := b.loopBody(s.Body); body.Op == "Skip" {
				p = pSkip
			} else {
				p = &prog{Op: "Loop", Kids: []*prog{body}}
			}
		case *ast.SwitchStmt, *ast.TypeSwitchStmt:
			var clauses []ast.Stmt
			if sw, ok := s.(*ast.SwitchStmt); ok {
				if b.usesW(sw.Init) || b.usesW(sw.Tag) {
					p = &prog{Op: "Bad", Arg: "writer used in a switch header"}
					break
				}
				clauses = sw.Body.List
			} else {
				clauses = s.(*ast.TypeSwitchStmt).Body.List
			}
			p = pSkip
			for j := len(clauses) - 1; j >= 0; j-- {
				nb := *b
				nb.inSwitch++
				nb.clauseTop = true
				cp := nb.seq(clauses[j].(*ast.CaseClause).Body)
				if cp.Op == "Skip" && p.Op == "Skip" {
					continue
				}
				p = &prog{Op: "If", Kids: []*prog{cp, p}}
			}
		case *ast.DeferStmt, *ast.GoStmt:
			if b.usesW(s) {
				p = &prog{Op: "Bad", Arg: "writer used in defer/go"}
			} else {
				p = pSkip
				// a deferred recover would turn a panic into something else
				ast.Inspect(s, func(n ast.Node) bool {
					if c, ok := n.(*ast.CallExpr); ok {
						if id, ok := c.Fun.(*ast.Ident); ok && id.Name == "recover" {
							p = &prog{Op: "Bad", Arg: "recover"}
						}
					}
					return true
				})
			}
		case *ast.BranchStmt:
			switch {
			case s.Label != nil || s.Tok == token.GOTO || s.Tok == token.FALLTHROUGH:
				p = &prog{Op: "Bad", Arg: "labelled branch / goto / fallthrough"}
			case s.Tok == token.CONTINUE:
				// ends the iteration of the enclosing loop; a switch is encoded as a transparent chain
				// of PIf, so the effect propagates to the loop's iteration boundary
				p = &prog{Op: "Brk"}
			case s.Tok == token.BREAK && b.inSwitch > 0:
				// leaves the switch only: fine when it is the last statement of its clause
				if i == len(stmts)-1 && b.clauseTop {
					p = pSkip
				} else {
					p = &prog{Op: "Bad", Arg: "break inside a switch"}
				}
			default:
				p = &prog{Op: "Brk"} // continue / break of the enclosing loop: ends the iteration
			}
		case *ast.LabeledStmt:
			p = b.seq([]ast.Stmt{s.Stmt})
		default:
			if b.usesW(s) {
				p = &prog{Op: "Bad", Arg: fmt.Sprintf("writer used in %T", s)}
			} else {
				p = pSkip
			}
		}
		acc = pSeq(acc, p)
	}
	return acc
}

func countProg(p *prog, w, c, bad *int) {
	if p == nil {
		return
	}
	switch p.Op {
	case "W":
		*w++
	case "Call":
		*c++
	case "Bad":
		*bad++
	}
	for _, k := range p.Kids {
		countProg(k, w, c, bad)
	}
}

func (b *skelBuilder) scan(name string, ft *ast.FuncType, body *ast.BlockStmt, pos token.Pos) {
	ws := map[types.Object]bool{}
	if ft.Params != nil {
		for _, fld := range ft.Params.List {
			if isStringWriterType(b.info.TypeOf(fld.Type)) {
				for _, n := range fld.Names {
					ws[b.info.Defs[n]] = true
				}
			}
		}
	}
	// nested literals with their own writer parameter are separate skeletons
	k := 0
	ast.Inspect(body, func(n ast.Node) bool {
		if fl, ok := n.(*ast.FuncLit); ok {
			k++
			nb := *b
			nb.scan(fmt.Sprintf("%s$%d", name, k), fl.Type, fl.Body, fl.Pos())
			return false
		}
		return true
	})
	if len(ws) == 0 {
		return
	}
	nb := *b
	nb.ws = ws
	p := nb.seq(body.List)
	file, line := b.l.pos(pos)
	sf := skelFunc{Name: name, File: file, Line: line, Prog: p}
	countProg(p, &sf.Writes, &sf.Calls, &sf.Bad)
	*b.out = append(*b.out, sf)
}

func writeSkelFacts(l *loader) []skelFunc {
	var out []skelFunc
	for _, p := range sortedKeys(l.files) {
		if !isProdPkg(p) {
			continue
		}
		info := l.infos[p]
		for _, f := range l.files[p] {
			for _, d := range f.Decls {
				fd, ok := d.(*ast.FuncDecl)
				if !ok || fd.Body == nil {
					continue
				}
				b := &skelBuilder{l: l, info: info, out: &out, pkg: short(p)}
				b.scan(short(p)+"."+funcName(fd), fd.Type, fd.Body, fd.Pos())
			}
		}
	}
	return out
}

func coqProg(p *prog) string {
	if p == nil {
		return "PSkip"
	}
	switch p.Op {
	case "W":
		return "PWrite"
	case "Bad":
		return "(PBad " + coqStr(p.Arg) + ")"
	case "Call":
		return "(PCall " + coqStr(p.Arg) + ")"
	case "Skip":
		return "PSkip"
	case "Ret":
		return "PRet"
	case "Brk":
		return "PBrk"
	case "Seq":
		// flatten right-nested sequences into PSeqs [..] for readability and shallow terms
		var items []string
		var flat func(q *prog)
		flat = func(q *prog) {
			if q.Op == "Seq" {
				flat(q.Kids[0])
				flat(q.Kids[1])
			} else {
				items = append(items, coqProg(q))
			}
		}
		flat(p)
		return "(PSeqs [" + strings.Join(items, "; ") + "])"
	case "If":
		return "(PIf " + coqProg(p.Kids[0]) + " " + coqProg(p.Kids[1]) + ")"
	case "Loop":
		return "(PLoop " + coqProg(p.Kids[0]) + ")"
	}
	return "(PBad \"unknown\")"
}
