module gvfacts

go 1.24.4
