package main

import (
	"go/ast"
	"go/token"
	"go/types"
	"sort"
	"strings"
)

type access struct {
	File  string   `json:"file"`
	Line  int      `json:"line"`
	Func  string   `json:"func"`
	Locks []string `json:"locks"`
	Once  string   `json:"once,omitempty"`
	Write bool     `json:"write"`
	How   string   `json:"how,omitempty"`
}

type globalVar struct {
	Pkg    string   `json:"pkg"`
	Name   string   `json:"name"`
	Type   string   `json:"type"`
	Class  string   `json:"class"` // Immutable | Sync | Guarded | OnceInit | Unguarded
	Guard  string   `json:"guard,omitempty"`
	Writes []access `json:"writes"`
	Reads  int      `json:"reads"`
	BadAcc []access `json:"bad_accesses,omitempty"`
}

func filepathBase(p string) string {
	if i := strings.LastIndex(p, "/"); i >= 0 {
		return p[i+1:]
	}
	return p
}

func isSyncType(t string) bool {
	for _, s := range []string{"sync.Mutex", "sync.RWMutex", "sync.Once", "sync.Map", "sync.WaitGroup", "sync/atomic.", "atomic.", "sync.Pool"} {
		if strings.Contains(t, s) {
			return true
		}
	}
	return false
}

// rootIdent: x in x, x.f, x[i], *x, x.f[i].g ...
func rootIdent(e ast.Expr) *ast.Ident {
	for {
		switch x := e.(type) {
		case *ast.Ident:
			return x
		case *ast.SelectorExpr:
			e = x.X
		case *ast.IndexExpr:
			e = x.X
		case *ast.StarExpr:
			e = x.X
		case *ast.ParenExpr:
			e = x.X
		case *ast.SliceExpr:
			e = x.X
		default:
			return nil
		}
	}
}

type lockCtx struct {
	locks map[string]bool
	once  string
}

func (c lockCtx) clone() lockCtx {
	n := lockCtx{locks: map[string]bool{}, once: c.once}
	for k := range c.locks {
		n.locks[k] = true
	}
	return n
}

func (c lockCtx) list() []string {
	var l []string
	for k := range c.locks {
		l = append(l, k)
	}
	sort.Strings(l)
	return l
}

func lockCall(s ast.Stmt) (name, op string) {
	var call *ast.CallExpr
	switch x := s.(type) {
	case *ast.ExprStmt:
		call, _ = x.X.(*ast.CallExpr)
	case *ast.DeferStmt:
		call = x.Call
		if call != nil {
			if sel, ok := call.Fun.(*ast.SelectorExpr); ok {
				if sel.Sel.Name == "Unlock" || sel.Sel.Name == "RUnlock" {
					return types.ExprString(sel.X), "defer-unlock"
				}
			}
		}
		return "", ""
	}
	if call == nil {
		return "", ""
	}
	if sel, ok := call.Fun.(*ast.SelectorExpr); ok {
		switch sel.Sel.Name {
		case "Lock", "RLock":
			return types.ExprString(sel.X), "lock"
		case "Unlock", "RUnlock":
			return types.ExprString(sel.X), "unlock"
		}
	}
	return "", ""
}

func globalsFacts(l *loader) []globalVar {
	var out []globalVar
	for _, p := range sortedKeys(l.files) {
		if !isProdPkg(p) {
			continue
		}
		info := l.infos[p]
		pkg := l.pkgs[p]
		vars := map[types.Object]*globalVar{}
		scope := pkg.Scope()
		for _, n := range scope.Names() {
			if v, ok := scope.Lookup(n).(*types.Var); ok {
				if strings.HasPrefix(filepathBase(l.fset.Position(v.Pos()).Filename), "verif_") {
					continue // declared by a verification hook file
				}
				gv := &globalVar{Pkg: short(p), Name: n, Type: types.TypeString(v.Type(), func(q *types.Package) string { return q.Name() })}
				vars[v] = gv
			}
		}
		type doSite struct {
			fn   string
			line int
		}
		onceDo := map[string][]doSite{} // once expression -> where its Do(...) is called
		record := func(obj types.Object, a access) {
			gv := vars[obj]
			if gv == nil {
				return
			}
			if a.Write {
				gv.Writes = append(gv.Writes, a)
			} else {
				gv.Reads++
			}
			gv.BadAcc = append(gv.BadAcc, a) // filtered below
		}
		for _, f := range l.files[p] {
			for _, d := range f.Decls {
				fd, ok := d.(*ast.FuncDecl)
				if !ok || fd.Body == nil {
					continue
				}
				fname := funcName(fd)
				if fname == "init" {
					continue
				}
				var walkStmts func(stmts []ast.Stmt, ctx lockCtx)
				var walkExpr func(e ast.Node, ctx lockCtx, write bool, how string)
				mk := func(pos token.Pos, ctx lockCtx, w bool, how string) access {
					file, line := l.pos(pos)
					return access{File: file, Line: line, Func: fname, Locks: ctx.list(), Once: ctx.once, Write: w, How: how}
				}
				walkExpr = func(e ast.Node, ctx lockCtx, write bool, how string) {
					if e == nil {
						return
					}
					ast.Inspect(e, func(n ast.Node) bool {
						switch x := n.(type) {
						case *ast.FuncLit:
							walkStmts(x.Body.List, ctx.clone())
							return false
						case *ast.CallExpr:
							// once.Do(func(){...})
							if sel, ok := x.Fun.(*ast.SelectorExpr); ok && sel.Sel.Name == "Do" && len(x.Args) == 1 {
								if fl, ok := x.Args[0].(*ast.FuncLit); ok {
									if t := info.TypeOf(sel.X); t != nil && strings.Contains(t.String(), "sync.Once") {
										c2 := ctx.clone()
										c2.once = types.ExprString(sel.X)
										_, dl := l.pos(x.Pos())
										onceDo[c2.once] = append(onceDo[c2.once], doSite{fname, dl})
										walkStmts(fl.Body.List, c2)
										walkExpr(sel.X, ctx, false, "")
										return false
									}
								}
							}
							// delete(x, k), builtin writes
							if id, ok := x.Fun.(*ast.Ident); ok && (id.Name == "delete" || id.Name == "copy" || id.Name == "clear") && len(x.Args) > 0 {
								if r := rootIdent(x.Args[0]); r != nil {
									if obj := info.Uses[r]; vars[obj] != nil {
										record(obj, mk(x.Pos(), ctx, true, id.Name))
									}
								}
							}
						case *ast.UnaryExpr:
							if x.Op == token.AND {
								if r := rootIdent(x.X); r != nil {
									if obj := info.Uses[r]; vars[obj] != nil && !isSyncType(vars[obj].Type) {
										record(obj, mk(x.Pos(), ctx, true, "address taken"))
									}
								}
							}
						case *ast.Ident:
							if obj := info.Uses[x]; vars[obj] != nil {
								record(obj, mk(x.Pos(), ctx, false, ""))
							}
						}
						return true
					})
				}
				walkStmts = func(stmts []ast.Stmt, ctx lockCtx) {
					for _, st := range stmts {
						if name, op := lockCall(st); op != "" {
							switch op {
							case "lock", "defer-unlock":
								if op == "lock" {
									ctx.locks[name] = true
								}
							case "unlock":
								delete(ctx.locks, name)
							}
							continue
						}
						switch s := st.(type) {
						case *ast.AssignStmt:
							for _, lhs := range s.Lhs {
								if r := rootIdent(lhs); r != nil {
									if obj := info.Uses[r]; vars[obj] != nil {
										record(obj, mk(lhs.Pos(), ctx, true, "assignment"))
									}
								}
								// index expressions etc. on the LHS also read
								if _, isId := lhs.(*ast.Ident); !isId {
									walkExpr(lhs, ctx, false, "")
								}
							}
							for _, rhs := range s.Rhs {
								walkExpr(rhs, ctx, false, "")
							}
						case *ast.IncDecStmt:
							if r := rootIdent(s.X); r != nil {
								if obj := info.Uses[r]; vars[obj] != nil {
									record(obj, mk(s.Pos(), ctx, true, "inc/dec"))
								}
							}
						case *ast.BlockStmt:
							walkStmts(s.List, ctx.clone())
						case *ast.IfStmt:
							c2 := ctx.clone()
							if s.Init != nil {
								walkStmts([]ast.Stmt{s.Init}, c2)
							}
							walkExpr(s.Cond, c2, false, "")
							walkStmts(s.Body.List, c2.clone())
							if s.Else != nil {
								walkStmts([]ast.Stmt{s.Else}, c2.clone())
							}
						case *ast.ForStmt:
							c2 := ctx.clone()
							if s.Init != nil {
								walkStmts([]ast.Stmt{s.Init}, c2)
							}
							walkExpr(s.Cond, c2, false, "")
							if s.Post != nil {
								walkStmts([]ast.Stmt{s.Post}, c2)
							}
							walkStmts(s.Body.List, c2.clone())
						case *ast.RangeStmt:
							walkExpr(s.X, ctx, false, "")
							walkStmts(s.Body.List, ctx.clone())
						case *ast.SwitchStmt:
							if s.Init != nil {
								walkStmts([]ast.Stmt{s.Init}, ctx)
							}
							walkExpr(s.Tag, ctx, false, "")
							for _, c := range s.Body.List {
								cc := c.(*ast.CaseClause)
								for _, e := range cc.List {
									walkExpr(e, ctx, false, "")
								}
								walkStmts(cc.Body, ctx.clone())
							}
						case *ast.TypeSwitchStmt:
							walkExpr(s.Assign, ctx, false, "")
							for _, c := range s.Body.List {
								walkStmts(c.(*ast.CaseClause).Body, ctx.clone())
							}
						case *ast.SelectStmt:
							for _, c := range s.Body.List {
								cc := c.(*ast.CommClause)
								if cc.Comm != nil {
									walkStmts([]ast.Stmt{cc.Comm}, ctx.clone())
								}
								walkStmts(cc.Body, ctx.clone())
							}
						case *ast.GoStmt:
							// a new goroutine does not inherit the locks held by its creator
							walkExpr(s.Call, lockCtx{locks: map[string]bool{}}, false, "")
						default:
							walkExpr(st, ctx, false, "")
						}
					}
				}
				walkStmts(fd.Body.List, lockCtx{locks: map[string]bool{}})
			}
		}
		var names []string
		byName := map[string]*globalVar{}
		for _, gv := range vars {
			names = append(names, gv.Name)
			byName[gv.Name] = gv
		}
		sort.Strings(names)
		for _, n := range names {
			gv := byName[n]
			all := gv.BadAcc
			gv.BadAcc = nil
			switch {
			case isSyncType(gv.Type):
				gv.Class = "Sync"
			case len(gv.Writes) == 0:
				gv.Class = "Immutable"
			default:
				// one common lock over all accesses?
				common := map[string]int{}
				onceAll := true
				once := ""
				for _, a := range gv.Writes {
					if a.Once == "" {
						onceAll = false
					} else if once == "" {
						once = a.Once
					} else if once != a.Once {
						onceAll = false
					}
				}
				for _, a := range all {
					for _, lk := range a.Locks {
						common[lk]++
					}
				}
				guard := ""
				for lk, c := range common {
					if c == len(all) {
						guard = lk
					}
				}
				switch {
				case guard != "":
					gv.Class, gv.Guard = "Guarded", guard
				case onceAll && once != "":
					gv.Class, gv.Guard = "OnceInit", once
					// a read in the function that calls once.Do, lexically before that call, is not ordered
					// after the initialisation (double-checked "fast path"): not safe
					for _, a := range all {
						if a.Write || a.Once != "" {
							continue
						}
						for _, d := range onceDo[once] {
							if d.fn == a.Func && a.Line < d.line {
								gv.Class = "Unguarded"
								gv.BadAcc = append(gv.BadAcc, a)
							}
						}
					}
				default:
					gv.Class = "Unguarded"
					for _, a := range all {
						if len(a.Locks) == 0 && a.Once == "" {
							gv.BadAcc = append(gv.BadAcc, a)
						}
					}
					if len(gv.BadAcc) > 6 {
						gv.BadAcc = gv.BadAcc[:6]
					}
				}
			}
			out = append(out, *gv)
		}
	}
	return out
}
