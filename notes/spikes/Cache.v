(* Design spike: sequential model of the AST cache (mjml/render.go:122-308) and the
   transparency theorem for arbitrary operation histories. *)
From Coq Require Import List ZArith Bool Lia.
Import ListNotations.
Open Scope Z_scope.

Section Cache.
  Variables (doc ast err : Type).
  Variable hash : doc -> Z.
  Variable parse : doc -> ast + err.

  Record entry := { node : ast ; expires : Z }.
  Record cleaner := { every : Z }.
  Record state := { cache : list (Z * entry) ; ttl : Z ; interval : Z ;
                    ttl_once : bool ; int_once : bool ; cl : option cleaner ;
                    now : Z ; dead : bool }.

  Inductive op := Render (d : doc) (cached : bool) | Advance (dt : Z) | Tick
                | SetTTL (d : Z) | SetInterval (d : Z) | Stop.
  Inductive out := OAst (a : ast) (parsed : bool) | OErr (e : err) | ONone.

  Fixpoint lookup (k : Z) (m : list (Z * entry)) : option entry :=
    match m with [] => None | (k', e) :: r => if Z.eqb k k' then Some e else lookup k r end.
  Definition remove (k : Z) (m : list (Z * entry)) := filter (fun p => negb (Z.eqb k (fst p))) m.
  Definition insert (k : Z) (e : entry) (m : list (Z * entry)) := (k, e) :: remove k m.
  Definition sweep (t : Z) (m : list (Z * entry)) := filter (fun p => negb (Z.ltb (expires (snd p)) t)) m.

  Definition with_cache (s : state) (c : list (Z * entry)) : state :=
    {| cache := c ; ttl := ttl s ; interval := interval s ; ttl_once := ttl_once s ;
       int_once := int_once s ; cl := cl s ; now := now s ; dead := dead s |}.

  (* startASTCacheCleanup: start a cleaner if none; a non-positive interval kills the process *)
  Definition start (s : state) : state :=
    match cl s with
    | Some _ => s
    | None => {| cache := cache s ; ttl := ttl s ; interval := interval s ; ttl_once := ttl_once s ;
                 int_once := int_once s ; cl := Some {| every := interval s |} ; now := now s ;
                 dead := dead s || (interval s <=? 0) |}
    end.

  Definition step (s : state) (o : op) : state * out :=
    if dead s then (s, ONone) else
    match o with
    | Render d false =>
        (s, match parse d with inl a => OAst a true | inr e => OErr e end)
    | Render d true =>
        let s1 := start s in
        let k := hash d in
        match lookup k (cache s1) with
        | Some e =>
            if now s1 <? expires e then (s1, OAst (node e) false)
            else let s2 := with_cache s1 (remove k (cache s1)) in
                 match parse d with
                 | inl a => (with_cache s2 (insert k {| node := a ; expires := now s2 + ttl s2 |} (cache s2)), OAst a true)
                 | inr e' => (s2, OErr e')
                 end
        | None =>
            match parse d with
            | inl a => (with_cache s1 (insert k {| node := a ; expires := now s1 + ttl s1 |} (cache s1)), OAst a true)
            | inr e' => (s1, OErr e')
            end
        end
    | Advance dt => ({| cache := cache s ; ttl := ttl s ; interval := interval s ; ttl_once := ttl_once s ;
                        int_once := int_once s ; cl := cl s ; now := now s + Z.max 0 dt ; dead := dead s |}, ONone)
    | Tick => match cl s with Some _ => (with_cache s (sweep (now s) (cache s)), ONone) | None => (s, ONone) end
    | SetTTL d =>
        if ttl_once s then (s, ONone)
        else ({| cache := cache s ; ttl := d ; interval := if int_once s then interval s else d / 2 ;
                 ttl_once := true ; int_once := true ; cl := cl s ; now := now s ; dead := dead s |}, ONone)
    | SetInterval d =>
        if int_once s then (s, ONone)
        else ({| cache := cache s ; ttl := ttl s ; interval := d ; ttl_once := ttl_once s ;
                 int_once := true ; cl := cl s ; now := now s ; dead := dead s |}, ONone)
    | Stop => ({| cache := cache s ; ttl := ttl s ; interval := interval s ; ttl_once := ttl_once s ;
                  int_once := int_once s ; cl := None ; now := now s ; dead := dead s |}, ONone)
    end.

  Fixpoint run (s : state) (h : list op) : list out :=
    match h with [] => [] | o :: r => let (s', x) := step s o in x :: run s' r end.

  (* what an uncached compilation returns *)
  Definition uncached (d : doc) : ast + err := parse d.
  Definition agrees (x : out) (r : ast + err) : Prop :=
    match x, r with OAst a _, inl a' => a = a' | OErr e, inr e' => e = e' | _, _ => False end.

  (* the documents a history mentions *)
  Fixpoint docs (h : list op) : list doc :=
    match h with [] => [] | Render d _ :: r => d :: docs r | _ :: r => docs r end.
  Definition hash_inj_on (ds : list doc) : Prop :=
    forall d d', In d ds -> In d' ds -> hash d = hash d' -> d = d'.

  (* invariant: every entry is the successful parse of a document of the universe with that hash *)
  Definition Inv (U : list doc) (s : state) : Prop :=
    forall k e, In (k, e) (cache s) -> exists d, In d U /\ hash d = k /\ parse d = inl (node e).

  Lemma lookup_In k m e : lookup k m = Some e -> In (k, e) m.
  Proof.
    induction m as [|[k0 e0] m IH]; cbn; [discriminate|].
    destruct (Z.eqb k k0) eqn:E.
    - intros H; inversion H; subst. apply Z.eqb_eq in E; subst. now left.
    - intros H. right. auto.
  Qed.

  Lemma inv_filter U s f : Inv U s -> Inv U (with_cache s (filter f (cache s))).
  Proof. intros I k e H. cbn in H. apply filter_In in H. exact (I _ _ (proj1 H)). Qed.

  Lemma inv_insert U s d a t : Inv U s -> In d U -> parse d = inl a ->
    Inv U (with_cache s (insert (hash d) {| node := a ; expires := t |} (cache s))).
  Proof.
    intros I Hd Hp k e. cbn. intros [H|H].
    - inversion H; subst; cbn. exists d. auto.
    - apply filter_In in H. exact (I _ _ (proj1 H)).
  Qed.

  Lemma inv_start U s : Inv U s -> Inv U (start s).
  Proof. unfold start. destruct (cl s); auto. Qed.

  Definition render_ok (o : op) (x : out) : Prop :=
    match o with Render d _ => agrees x (uncached d) | _ => True end.

  (* one step: invariant preserved, and a Render's output agrees with the uncached compilation *)
  Lemma step_ok U s o : hash_inj_on U -> Inv U s -> (forall d c, o = Render d c -> In d U) ->
    dead (fst (step s o)) = false ->
    Inv U (fst (step s o)) /\ render_ok o (snd (step s o)).
  Proof.
    intros Hinj I HU. unfold step. destruct (dead s) eqn:Hdead; [cbn; congruence|].
    destruct o as [d [|]| dt | | t | t | ]; cbn [render_ok].
    - (* cached render *)
      pose proof (HU d true eq_refl) as HdU. pose proof (inv_start U s I) as I1.
      destruct (lookup (hash d) (cache (start s))) as [e|] eqn:Hl.
      + destruct (now (start s) <? expires e) eqn:Hlt; cbn [fst snd].
        * intros _. split; [exact I1|].
          destruct (I1 _ _ (lookup_In _ _ _ Hl)) as (d' & Hd' & Hh & Hp).
          assert (d' = d) by (apply Hinj; auto). subst. unfold uncached. rewrite Hp. reflexivity.
        * destruct (parse d) as [a|e'] eqn:Hp; cbn [fst snd]; intros _.
          -- split.
             ++ apply (inv_insert U (with_cache (start s) (remove (hash d) (cache (start s)))) d a); auto.
                apply inv_filter; exact I1.
             ++ unfold uncached. rewrite Hp. reflexivity.
          -- split; [apply inv_filter; exact I1|]. unfold uncached. rewrite Hp. reflexivity.
      + destruct (parse d) as [a|e'] eqn:Hp; cbn [fst snd]; intros _.
        * split; [apply inv_insert; auto|]. unfold uncached. rewrite Hp. reflexivity.
        * split; [exact I1|]. unfold uncached. rewrite Hp. reflexivity.
    - (* uncached render *)
      cbn [fst snd]. intros _. split; [exact I|]. unfold uncached. destruct (parse d); reflexivity.
    - cbn. intros _. split; [exact I|exact Logic.I].
    - destruct (cl s); cbn [fst snd]; intros _; (split; [|exact Logic.I]); [apply inv_filter|]; exact I.
    - destruct (ttl_once s); cbn [fst snd]; intros _; (split; [exact I|exact Logic.I]).
    - destruct (int_once s); cbn [fst snd]; intros _; (split; [exact I|exact Logic.I]).
    - cbn. intros _. split; [exact I|exact Logic.I].
  Qed.

  (* the theorem over whole histories: as long as the process is alive, every render
     (cached or not) returns what an uncached compilation returns *)
  Fixpoint all_ok (s : state) (h : list op) : Prop :=
    match h with
    | [] => True
    | o :: r => let s' := fst (step s o) in
                (dead s' = false -> render_ok o (snd (step s o))) /\ all_ok s' r
    end.

  Theorem transparent : forall h s, hash_inj_on (docs h) -> Inv (docs h) s -> all_ok s h.
  Proof.
    intros h s Hinj. revert s.
    (* generalise the universe so it stays fixed while the history shrinks *)
    assert (G : forall U, hash_inj_on U -> forall h s, incl (docs h) U -> Inv U s -> all_ok s h).
    { clear. intros U Hinj h. induction h as [|o r IH]; intros s Hincl I; cbn [all_ok]; [exact Logic.I|].
      assert (HU : forall d c, o = Render d c -> In d U).
      { intros d c ->. apply Hincl. cbn. now left. }
      assert (Hincl' : incl (docs r) U).
      { intros x Hx. apply Hincl. destruct o; cbn; auto. }
      destruct (dead (fst (step s o))) eqn:Hd.
      - split; [discriminate|].
        (* a dead process stays dead and answers nothing; all_ok is trivially true from here *)
        clear IH. generalize dependent (fst (step s o)). clear. intros s' Hd.
        revert s' Hd. induction r as [|o r IHr]; intros s' Hd; cbn [all_ok]; [exact Logic.I|].
        assert (E : step s' o = (s', ONone)) by (unfold step; rewrite Hd; reflexivity).
        rewrite E. cbn [fst snd]. split; [congruence|]. apply IHr. exact Hd.
      - destruct (step_ok U s o Hinj I HU Hd) as [I' R]. split; [intros _; exact R|].
        apply IH; assumption. }
    intros s I. apply (G (docs h)); auto. apply incl_refl.
  Qed.
End Cache.
Print Assumptions transparent.
