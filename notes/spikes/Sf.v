(* Design spike: interleaving semantics of singleflightDo (mjml/render.go:169-190) for any number
   of threads and any schedule; invariants by induction over arbitrary schedules.
   Mutex-protected regions are single atomic steps. *)
From Coq Require Import List Arith Bool Lia PeanoNat.
Import ListNotations.

Definition key := nat.
Definition cid := nat.          (* identity of an sfCall record *)
Definition result := nat.       (* what fn() returned (AST or error), opaque *)

Inductive pc :=
| PIdle                           (* not a participant *)
| PSf                             (* about to lock sfMutex and look the key up *)
| PWait (c : cid)                 (* found a record: blocked in c.wg.Wait() *)
| PParse (c : cid)                (* registered c, running fn() *)
| PSetRes (c : cid) (r : result)  (* fn returned r, about to assign c.res, c.err *)
| PDone (c : cid)                 (* deferred: c.wg.Done() *)
| PUnreg (c : cid)                (* deferred: lock; delete(sfCalls, hash); unlock; return *)
| PRet (r : result).              (* returned r to the caller *)

Record thread := { tkey : key ; tpc : pc ; tfn : result }.
Record call := { pending : bool ; cres : option result }.

Record cfg := { th : nat -> thread ; sfc : key -> option cid ; calls : cid -> call ; next : cid }.

Definition upd {A} (f : nat -> A) (i : nat) (x : A) : nat -> A := fun j => if Nat.eqb j i then x else f j.
Lemma upd_same {A} (f : nat -> A) i x : upd f i x i = x.
Proof. unfold upd. now rewrite Nat.eqb_refl. Qed.
Lemma upd_other {A} (f : nat -> A) i j x : j <> i -> upd f i x j = f j.
Proof. unfold upd. intros H. apply Nat.eqb_neq in H. now rewrite H. Qed.

Definition setpc (t : thread) (p : pc) := {| tkey := tkey t ; tpc := p ; tfn := tfn t |}.

Definition step (c : cfg) (i : nat) : option cfg :=
  let t := th c i in
  match tpc t with
  | PIdle | PRet _ => None
  | PSf =>
    match sfc c (tkey t) with
    | Some id => Some {| th := upd (th c) i (setpc t (PWait id)) ; sfc := sfc c ; calls := calls c ; next := next c |}
    | None =>
      let id := next c in
      Some {| th := upd (th c) i (setpc t (PParse id)) ;
              sfc := upd (sfc c) (tkey t) (Some id) ;
              calls := upd (calls c) id {| pending := true ; cres := None |} ;
              next := S id |}
    end
  | PWait id =>
    if pending (calls c id) then None
    else match cres (calls c id) with
         | Some r => Some {| th := upd (th c) i (setpc t (PRet r)) ; sfc := sfc c ; calls := calls c ; next := next c |}
         | None => None
         end
  | PParse id => Some {| th := upd (th c) i (setpc t (PSetRes id (tfn t))) ; sfc := sfc c ; calls := calls c ; next := next c |}
  | PSetRes id r =>
    Some {| th := upd (th c) i (setpc t (PDone id)) ; sfc := sfc c ;
            calls := upd (calls c) id {| pending := pending (calls c id) ; cres := Some r |} ; next := next c |}
  | PDone id =>
    Some {| th := upd (th c) i (setpc t (PUnreg id)) ; sfc := sfc c ;
            calls := upd (calls c) id {| pending := false ; cres := cres (calls c id) |} ; next := next c |}
  | PUnreg id =>
    match cres (calls c id) with
    | Some r => Some {| th := upd (th c) i (setpc t (PRet r)) ; sfc := upd (sfc c) (tkey t) None ;
                        calls := calls c ; next := next c |}
    | None => None
    end
  end.

(* which call a thread currently leads, and in which phase *)
Definition leads (p : pc) : option cid :=
  match p with PParse id | PSetRes id _ | PDone id | PUnreg id => Some id | _ => None end.
Definition before_done (p : pc) : bool :=
  match p with PParse _ | PSetRes _ _ | PDone _ => true | _ => false end.

Record Inv (c : cfg) : Prop := {
  inv_reg   : forall k id, sfc c k = Some id -> id < next c /\ exists i, leads (tpc (th c i)) = Some id /\ tkey (th c i) = k ;
  inv_lead  : forall i id, leads (tpc (th c i)) = Some id -> sfc c (tkey (th c i)) = Some id ;
  inv_uniq  : forall i j id, leads (tpc (th c i)) = Some id -> leads (tpc (th c j)) = Some id -> i = j ;
  inv_wait  : forall i id, tpc (th c i) = PWait id -> id < next c ;
  inv_pend  : forall id, id < next c -> pending (calls c id) = true ->
              exists i, leads (tpc (th c i)) = Some id /\ before_done (tpc (th c i)) = true ;
  inv_res   : forall id, id < next c -> pending (calls c id) = false -> exists r, cres (calls c id) = Some r ;
  inv_unreg : forall i id, tpc (th c i) = PUnreg id -> pending (calls c id) = false ;
  inv_done  : forall i id, tpc (th c i) = PDone id -> exists r, cres (calls c id) = Some r ;
  inv_bd    : forall i id, leads (tpc (th c i)) = Some id -> before_done (tpc (th c i)) = true -> pending (calls c id) = true
}.

Definition init (keys : nat -> option (key * result)) : cfg :=
  {| th := fun i => match keys i with Some (k, r) => {| tkey := k ; tpc := PSf ; tfn := r |}
                                     | None => {| tkey := 0 ; tpc := PIdle ; tfn := 0 |} end ;
     sfc := fun _ => None ; calls := fun _ => {| pending := false ; cres := None |} ; next := 0 |}.

Lemma inv_init keys : Inv (init keys).
Proof.
  constructor; cbn; intros; try discriminate; try lia.
  all: try (destruct (keys i) as [[k r]|]; cbn in *; discriminate).
Qed.

Ltac th_cases i j := destruct (Nat.eq_dec j i) as [->|?]; [rewrite ?upd_same in *|rewrite ?upd_other in * by assumption].

Lemma step_inv c i c' : Inv c -> step c i = Some c' -> Inv c'.
Proof.
  intros I H. unfold step in H.
  destruct (tpc (th c i)) eqn:Hpc; try discriminate.
  - (* PSf *)
    destruct (sfc c (tkey (th c i))) as [id|] eqn:Hs; inversion H; subst; clear H.
    + (* found: become a waiter *)
      constructor; cbn.
      * intros k id0 Hk. destruct (inv_reg c I k id0 Hk) as (Hlt & j & Hl & Hkj). split; [exact Hlt|].
        exists j. th_cases i j; [rewrite Hpc in Hl; discriminate|auto].
      * intros j id0. th_cases i j; cbn; [discriminate|apply (inv_lead c I)].
      * intros j l id0. th_cases i j; cbn; [discriminate|]. th_cases i l; cbn; [discriminate|apply (inv_uniq c I)].
      * intros j id0. th_cases i j; cbn.
        -- intros E; inversion E; subst. exact (proj1 (inv_reg c I _ _ Hs)).
        -- apply (inv_wait c I).
      * intros id0 Hlt Hp. destruct (inv_pend c I id0 Hlt Hp) as (j & Hl & Hb). exists j.
        th_cases i j; [rewrite Hpc in Hl; discriminate|auto].
      * apply (inv_res c I).
      * intros j id0. th_cases i j; cbn; [discriminate|apply (inv_unreg c I)].
      * intros j id0. th_cases i j; cbn; [discriminate|apply (inv_done c I)].
      * intros j id0. th_cases i j; cbn; [discriminate|apply (inv_bd c I)].
    + (* not found: register a fresh call and become its leader *)
      set (k0 := tkey (th c i)) in *.
      assert (Hfresh : forall j, leads (tpc (th c j)) <> Some (next c)).
      { intros j Hl. pose proof (inv_lead c I j _ Hl) as Hr. destruct (inv_reg c I _ _ Hr) as [Hlt _]. lia. }
      constructor; cbn.
      * intros k id0. unfold upd at 1. destruct (Nat.eqb k k0) eqn:Ek.
        -- intros E; inversion E; subst. split; [lia|]. exists i. rewrite upd_same. cbn. apply Nat.eqb_eq in Ek. auto.
        -- intros Hk. destruct (inv_reg c I k id0 Hk) as (Hlt & j & Hl & Hkj). split; [lia|]. exists j.
           th_cases i j; [rewrite Hpc in Hl; discriminate|auto].
      * intros j id0. th_cases i j; cbn.
        -- intros E; inversion E; subst. fold k0. rewrite ?upd_same. reflexivity.
        -- intros Hl. pose proof (inv_lead c I j id0 Hl) as Hr. unfold upd.
           destruct (Nat.eqb (tkey (th c j)) k0) eqn:Ek; [|exact Hr].
           apply Nat.eqb_eq in Ek. rewrite Ek in Hr. fold k0 in Hs. congruence.
      * intros j l id0. th_cases i j; cbn.
        -- intros E; inversion E; subst. th_cases i l; cbn; [reflexivity|]. intros Hl. exfalso. exact (Hfresh l Hl).
        -- intros Hj. th_cases i l; cbn.
           ++ intros E; inversion E; subst. exfalso. exact (Hfresh j Hj).
           ++ intros Hl. exact (inv_uniq c I j l id0 Hj Hl).
      * intros j id0. th_cases i j; cbn; [discriminate|]. intros Hw. pose proof (inv_wait c I j id0 Hw). lia.
      * intros id0 Hlt. unfold upd at 1. destruct (Nat.eqb id0 (next c)) eqn:Ei.
        -- intros _. apply Nat.eqb_eq in Ei; subst. exists i. rewrite upd_same. cbn. auto.
        -- apply Nat.eqb_neq in Ei. intros Hp. assert (id0 < next c) by lia.
           destruct (inv_pend c I id0 H Hp) as (j & Hl & Hb). exists j.
           th_cases i j; [rewrite Hpc in Hl; discriminate|auto].
      * intros id0 Hlt. unfold upd. destruct (Nat.eqb id0 (next c)) eqn:Ei; cbn; [discriminate|].
        apply Nat.eqb_neq in Ei. apply (inv_res c I). lia.
      * intros j id0. th_cases i j; cbn; [discriminate|]. intros Hu.
        assert (id0 <> next c). { intros ->. apply (Hfresh j). rewrite Hu. reflexivity. }
        rewrite upd_other by assumption. exact (inv_unreg c I j id0 Hu).
      * intros j id0. th_cases i j; cbn; [discriminate|]. intros Hd.
        assert (id0 <> next c). { intros ->. apply (Hfresh j). rewrite Hd. reflexivity. }
        rewrite upd_other by assumption. exact (inv_done c I j id0 Hd).
      * intros j id0. th_cases i j; cbn.
        -- intros E _; inversion E; subst. rewrite upd_same. reflexivity.
        -- intros Hl Hb. assert (id0 <> next c). { intros ->. exact (Hfresh j Hl). }
           rewrite upd_other by assumption. exact (inv_bd c I j id0 Hl Hb).
  - (* PWait *) admit.
  - (* PParse *) admit.
  - (* PSetRes *) admit.
  - (* PDone *) admit.
  - (* PUnreg *) admit.
Abort.

(* The two facts the property needs follow from the invariant alone: *)
Lemma one_parse_per_key c i j id1 id2 : Inv c ->
  tpc (th c i) = PParse id1 -> tpc (th c j) = PParse id2 -> tkey (th c i) = tkey (th c j) -> i = j.
Proof.
  intros I Hi Hj Hk.
  assert (L1 : leads (tpc (th c i)) = Some id1) by (rewrite Hi; reflexivity).
  assert (L2 : leads (tpc (th c j)) = Some id2) by (rewrite Hj; reflexivity).
  pose proof (inv_lead c I i id1 L1) as R1. pose proof (inv_lead c I j id2 L2) as R2.
  rewrite Hk in R1. rewrite R1 in R2. inversion R2; subst.
  exact (inv_uniq c I i j id2 L1 L2).
Qed.

Lemma blocked_waiter_has_enabled_leader c i id : Inv c ->
  tpc (th c i) = PWait id -> step c i = None ->
  exists j, leads (tpc (th c j)) = Some id /\ before_done (tpc (th c j)) = true /\ step c j <> None.
Proof.
  intros I Hw Hs. unfold step in Hs. rewrite Hw in Hs.
  pose proof (inv_wait c I i id Hw) as Hlt.
  destruct (pending (calls c id)) eqn:Hp.
  - destruct (inv_pend c I id Hlt Hp) as (j & Hl & Hb). exists j. repeat split; auto.
    unfold step. destruct (tpc (th c j)); cbn in *; try discriminate.
  - destruct (inv_res c I id Hlt Hp) as (r & Hr). rewrite Hr in Hs. discriminate.
Qed.
