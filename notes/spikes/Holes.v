From Coq Require Import List Arith Bool Lia.
Import ListNotations.

(* ---------- events and the tag stack ---------- *)
Definition name := nat.
Inductive ev := O (n : name) | C (n : name) | V (n : name).

Fixpoint run (st : list name) (l : list ev) : option (list name) :=
  match l with
  | [] => Some st
  | O n :: l' => run (n :: st) l'
  | V _ :: l' => run st l'
  | C n :: l' => match st with
                 | m :: st' => if Nat.eqb n m then run st' l' else None
                 | [] => None
                 end
  end.

Lemma run_app st a b : run st (a ++ b) = match run st a with Some st' => run st' b | None => None end.
Proof.
  revert st; induction a as [|e a IH]; intros st; cbn [app run]; [reflexivity|].
  destruct e as [n|n|n]; try apply IH.
  destruct st as [|m st']; [reflexivity|]. destruct (Nat.eqb n m); [apply IH|reflexivity].
Qed.

Definition wb (l : list ev) : Prop := forall st, run st l = Some st.

Lemma wb_app a b : wb a -> wb b -> wb (a ++ b).
Proof. intros Ha Hb st. rewrite run_app, Ha. apply Hb. Qed.

(* ---------- skeleton tokens and the two views ---------- *)
Inductive stok := E (e : ev) | MsoOpen | MsoEnd | NotMsoOpen | NotMsoEnd | Txt (id : nat).
Inductive cst := Closed | InMso | InNot.
Inductive view := Std | Mso.

(* one step of the comment automaton: new state + emitted events; None = malformed *)
Definition vstep (v : view) (c : cst) (t : stok) : option (cst * list ev) :=
  match c, t with
  | Closed, E e => Some (Closed, [e])
  | Closed, Txt _ => Some (Closed, [])
  | Closed, MsoOpen => Some (InMso, [])
  | Closed, NotMsoOpen => Some (InNot, [])
  | Closed, _ => None
  | InMso, E e => Some (InMso, match v with Std => [] | Mso => [e] end)
  | InMso, Txt _ => Some (InMso, [])
  | InMso, MsoEnd => Some (Closed, [])
  | InMso, _ => None
  | InNot, E e => Some (InNot, match v with Std => [e] | Mso => [] end)
  | InNot, Txt _ => Some (InNot, [])
  | InNot, NotMsoEnd => Some (Closed, [])
  | InNot, _ => None
  end.

Fixpoint vrun (v : view) (c : cst) (l : list stok) : option (cst * list ev) :=
  match l with
  | [] => Some (c, [])
  | t :: l' => match vstep v c t with
               | None => None
               | Some (c', es) => match vrun v c' l' with
                                  | None => None
                                  | Some (c'', es') => Some (c'', es ++ es')
                                  end
               end
  end.

Lemma vrun_app v c a b :
  vrun v c (a ++ b) =
  match vrun v c a with
  | None => None
  | Some (c', ea) => match vrun v c' b with None => None | Some (c'', eb) => Some (c'', ea ++ eb) end
  end.
Proof.
  revert c; induction a as [|t a IH]; intros c; cbn [app vrun].
  - destruct (vrun v c b) as [[c'' eb]|]; reflexivity.
  - destruct (vstep v c t) as [[c' es]|]; [|reflexivity].
    rewrite IH. destruct (vrun v c' a) as [[c1 ea]|]; [|reflexivity].
    destruct (vrun v c1 b) as [[c2 eb]|]; [|reflexivity].
    now rewrite app_assoc.
Qed.

(* a fragment that is fine as a child: comment-closed to comment-closed and balanced, in view v *)
Definition child_ok (v : view) (l : list stok) : Prop :=
  exists es, vrun v Closed l = Some (Closed, es) /\ wb es.

(* ---------- items with holes ---------- *)
Inductive item := Tok (t : stok) | Hole (i : nat).

Fixpoint subst (rho : nat -> list stok) (its : list item) : list stok :=
  match its with
  | [] => []
  | Tok t :: r => t :: subst rho r
  | Hole i :: r => rho i ++ subst rho r
  end.

(* evaluator: comment state + stack, holes are skipped but demand state Closed *)
Fixpoint eval (v : view) (c : cst) (st : list name) (its : list item) : option (cst * list name) :=
  match its with
  | [] => Some (c, st)
  | Tok t :: r => match vstep v c t with
                  | None => None
                  | Some (c', es) => match run st es with
                                     | None => None
                                     | Some st' => eval v c' st' r
                                     end
                  end
  | Hole _ :: r => match c with Closed => eval v Closed st r | _ => None end
  end.

Theorem eval_sound v rho : (forall i, child_ok v (rho i)) ->
  forall its c st c' st', eval v c st its = Some (c', st') ->
  exists es, vrun v c (subst rho its) = Some (c', es) /\ run st es = Some st'.
Proof.
  intros Hrho its; induction its as [|it r IH]; intros c st c' st' H; cbn [eval subst] in *.
  - inversion H; subst. exists []. split; reflexivity.
  - destruct it as [t|i].
    + destruct (vstep v c t) as [[c1 es1]|] eqn:Hs; [|discriminate].
      destruct (run st es1) as [st1|] eqn:Hr; [|discriminate].
      destruct (IH _ _ _ _ H) as (es & Hv & Hrun).
      exists (es1 ++ es). split.
      * change (t :: subst rho r) with ([t] ++ subst rho r). cbn [app vrun]. rewrite Hs, Hv. reflexivity.
      * rewrite run_app, Hr. exact Hrun.
    + destruct c; try discriminate.
      destruct (IH _ _ _ _ H) as (es & Hv & Hrun).
      destruct (Hrho i) as (ei & Hvi & Hwb).
      exists (ei ++ es). split.
      * rewrite vrun_app, Hvi, Hv. reflexivity.
      * rewrite run_app, Hwb. exact Hrun.
Qed.

Corollary items_child_ok v rho its : (forall i, child_ok v (rho i)) ->
  (forall st, eval v Closed st its = Some (Closed, st)) -> child_ok v (subst rho its).
Proof.
  intros Hrho H.
  destruct (eval_sound v rho Hrho its Closed [] Closed [] (H [])) as (es & Hv & _).
  exists es; split; [exact Hv|]. intros st.
  destruct (eval_sound v rho Hrho its Closed st Closed st (H st)) as (es' & Hv' & Hr').
  rewrite Hv in Hv'. inversion Hv'; subst. exact Hr'.
Qed.

(* ---------- a miniature "section" with flags, to see the computational step ---------- *)
Definition table := 1. Definition tr := 2. Definition td := 3. Definition div := 4. Definition tbody := 5.
Definition vrect := 6. Definition vtextbox := 7.
Record flags := { full : bool ; bg : bool ; pend_in : bool ; leave_open : bool }.
Definition all_flags : list flags :=
  flat_map (fun a => flat_map (fun b => flat_map (fun c => map (fun d => Build_flags a b c d) [true;false]) [true;false]) [true;false]) [true;false].

Definition mso (l : list ev) := [MsoOpen] ++ map E l ++ [MsoEnd].
Definition sec_items (f : flags) : list item :=
  map Tok
   ((if full f then map E [O table; O tbody; O tr; O td] else []) ++
    (if pend_in f && negb (full f) then [] else [MsoOpen]) ++ map E [O table; O tr; O td] ++
    (if bg f then map E [O vrect; O vtextbox] else []) ++ [MsoEnd] ++
    map E [O div; O table; O tbody; O tr; O td]) ++
  [Hole 0] ++
  map Tok
   (map E [C td; C tr; C tbody; C table; C div] ++
    [MsoOpen] ++ (if bg f then map E [C vtextbox; C vrect] else []) ++ map E [C td; C tr; C table] ++
    (if leave_open f && negb (full f) then [] else [MsoEnd]) ++
    (if full f then map E [C td; C tr; C tbody; C table] else [])).

(* entry/exit comment states dictated by the chain protocol *)
Definition c_in (f : flags) := if pend_in f && negb (full f) then InMso else Closed.
Definition c_out (f : flags) := if leave_open f && negb (full f) then InMso else Closed.

Definition sec_ok (v : view) (f : flags) : bool :=
  match eval v (c_in f) [] (sec_items f) with
  | Some (c, []) => match c, c_out f with Closed, Closed | InMso, InMso => true | _, _ => false end
  | _ => false
  end.

Lemma sec_all_ok : forallb (fun f => sec_ok Std f && sec_ok Mso f) all_flags = true.
Proof. vm_compute. reflexivity. Qed.

Print Assumptions eval_sound.
Print Assumptions sec_all_ok.
