"""C03 — the output is well-formed for Outlook. Same machinery as C02, second reading of every output."""
import json

import vlib
from checks import common
from checks import c02


def run(ck):
    ck.cov["trusted_base"] = vlib.TRUSTED_COMMON + [
        "the lexer Base.Tok.lex and the Outlook reading (content of <!--[if mso | IE]> blocks spliced in, <!--[if !mso]><!--> blocks dropped) model what Outlook/IE parse (assumption; validated on the reference outputs)",
        "extraction (ExtrOcamlBasic only) and the OCaml driver",
        "context-freeness of blocks is validated exhaustively for the enumerated sequences, not proved",
    ]
    ck.assumptions = ["author-written HTML is balanced and free of conditional comments"]
    ok, mlog = ck.prove("Properties/C03.v")
    failing = c02.explore(ck, 1, "C03")
    if failing is None:
        return
    # listed known finding: full-width section inside a wrapper (replayed below); a failing input that matches it is not new
    masked = [f for f in failing if "src" in f[0] and c02.known_mask(f[0]["src"]) and f[1].startswith("Outlook reading malformed")]
    failing = [f for f in failing if f not in masked]
    ck.cov["failing_inputs_matching_known_finding"] = len(masked)
    hb, _ = vlib.build_harness()
    mr, _ = vlib.build_model_runner()
    from checks import viewslib as vl
    for k in vlib.known_findings("C03"):
        res, _d = vl.render_all(hb, [k["src"]])
        v = vl.check_outputs(mr, [res[0]["html"]])[0] if 0 in res else None
        if v is not None and v[1] != "1":
            ck.known("%s: %s" % (k["id"], k["what"]))
    from checks import emitlib
    emitlib.tie(ck, hb, failing, ok, 160 if ck.quick else 4000)
    common.report(ck, failing, ok, mlog, "coq/Properties/C03.v (cone) no longer compiles")


replay = c02.replay
