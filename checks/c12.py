"""C12 — non-semantic variation of source or options does not change the email.

Theorems: coq/Properties/C12.v (attribute order, white space, leading junk, debug attributes; debug-flag sites recomputed).
Tie (H, metamorphic): every generated document / fixture x every rewrite instance (indentation, LF / CRLF, attribute order
reversed / sorted, single vs double quotes, self-closing vs explicitly closed empty elements, comments / blank lines
before the root): outputs equal up to white space between tags; debug on/off: equal after deleting data-mj-debug-*.
"""
import json
import re

import docgen
import vlib
from checks import common

REWRITES = [
    ("indent-2", dict(indent=2)),
    ("indent-4-crlf", dict(indent=4, crlf=True)),
    ("attrs-reversed", dict(attr_order="rev")),
    ("attrs-sorted", dict(attr_order="sorted")),
    ("single-quotes", dict(quote="'")),
    ("explicit-close", dict(selfclose=False)),
    ("attrs-on-lines", dict(indent=2, attr_lines=True)),
    ("attrs-on-lines-crlf", dict(indent=2, attr_lines=True, crlf=True)),
    ("all", dict(indent=1, crlf=True, attr_order="rev", quote="'", selfclose=False)),
]


def canon(html):
    h = re.sub(r"[0-9a-f]{16}", "ID", html)
    return re.sub(r">\s+<", "><", h).strip()


def quote_safe(d):
    """values containing a quote character cannot switch quote style without re-escaping: keep them out of that rewrite"""
    return not any(("'" in v or '"' in v) for n in docgen.walk(d) for v in n["attrs"].values())


def run(ck):
    ck.cov["trusted_base"] = vlib.TRUSTED_COMMON + [
        "encoding/xml delivers the same token stream for <x/> and <x></x>, for CRLF and LF between elements, and for either quote style (standard library)",
        "the generator's printer applies each rewrite without changing the document's meaning",
    ]
    ok, mlog = common.prove_with_facts(ck, "Properties/C12.v")
    facts = vlib.load_facts()
    ck.fact_obligations(len(facts.get("debug_flag_sites", [])), ok)
    hb, msg = vlib.build_harness()
    g = docgen.Gen(ck.rng, attr_prob=0.2)
    docs = [g.document() for _ in range(200 if ck.quick else 5000)]
    jobs, meta = [], []
    for i, d in enumerate(docs):
        base = docgen.to_mjml(d)
        jobs.append({"id": len(jobs), "src": base})
        meta.append((i, "base"))
        for name, kw in REWRITES:
            if ("quote" in kw) and not quote_safe(d):
                continue
            jobs.append({"id": len(jobs), "src": docgen.to_mjml(d, **kw)})
            meta.append((i, name))
        junk = "".join(ck.rng.choice(["<!-- c -->", "\n", "  ", "\r\n", "<!--a\nb-->", "\t"]) for _ in range(ck.rng.randint(1, 5)))
        jobs.append({"id": len(jobs), "src": junk + base})
        meta.append((i, "leading-junk"))
        jobs.append({"id": len(jobs), "src": base, "debug": True})
        meta.append((i, "debug"))
    # textual rewrites of the fixtures (their authors' formatting varies a lot)
    fx = common.fixture_docs(8 if ck.quick else 1)
    for k, (n, s) in enumerate(fx):
        if "<mj-raw" in s or "<mj-text" in s and "\n" in re.sub(r"(?s)<mj-text.*?</mj-text>", "", s) == s:
            pass
        jobs.append({"id": len(jobs), "src": s})
        meta.append((("fx", k), "base"))
        jobs.append({"id": len(jobs), "src": "<!-- lead -->\n\n" + s})
        meta.append((("fx", k), "leading-junk"))
        jobs.append({"id": len(jobs), "src": s, "debug": True})
        meta.append((("fx", k), "debug"))
    res, dead = common.run_jobs(hb, "render", jobs)
    base = {}
    for j, (i, name) in zip(jobs, meta):
        if name == "base":
            base[i] = res.get(j["id"])
    failing = []
    for j, (i, name) in zip(jobs, meta):
        if name == "base":
            continue
        r, b = res.get(j["id"]), base.get(i)
        if not r or not b:
            continue
        ck.count("%s|%s" % (name, j["src"]), True, tags=["rewrite:" + name])
        if name == "debug":
            got = re.sub(r' data-mj-debug-[a-z-]+="[^"]*"', "", r["html"])
            if canon(got) != canon(b["html"]) or r["err"]["class"] != b["err"]["class"]:
                failing.append(({"src": j["src"], "rewrite": "debug tags on"}, "enabling debug tags changes more than data-mj-debug-* attributes"))
            continue
        if canon(r["html"]) != canon(b["html"]) or r["err"]["class"] != b["err"]["class"]:
            a, c = canon(r["html"]), canon(b["html"])
            k = next((x for x in range(min(len(a), len(c))) if a[x] != c[x]), min(len(a), len(c)))
            failing.append(({"src_rewritten": j["src"], "rewrite": name, "first_difference": [a[max(0, k - 60):k + 60], c[max(0, k - 60):k + 60]],
                             "errors": [r["err"]["class"], b["err"]["class"]]},
                            "rewrite '%s' changes the output beyond white space between tags" % name))
    ck.sample({"rewrite": "all", "document": docgen.to_mjml(docs[0], **REWRITES[-1][1])[:400]})
    ck.cov["rule"] = ("generated full-grammar documents (typed attribute values, all components) x 7 printer rewrites (indent 2, indent 4 + CRLF, attributes "
                      "reversed, attributes sorted, single quotes, explicitly closed empty elements, all together) + random leading comments / blank lines + "
                      "debug on; fixtures x (leading junk, debug). Outputs compared byte for byte after deleting white space between tags (ids unified). "
                      "Non-trivial: every rewrite instance; distinct by (rewrite, source).")
    common.report(ck, failing, ok, mlog, "coq/Properties/C12.v (cone) no longer compiles", limit=4)


def replay(ck, path):
    rp = json.load(open(path))
    print(json.dumps(rp.get("input"), indent=1)[:2500])
    ck.count(json.dumps(rp.get("input"))[:300])
    ck.cov["distinct_nontrivial"] = 2
