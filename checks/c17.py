"""C17 — validation errors are exact and never suppress the HTML.

Theorems: coq/Properties/C17.v over the tables re-read from the source (T: Facts/Allowed.v, Facts/Factory.v).
Tie (H): the (tag x attribute name) matrix, exhaustive, and generated documents with invalid attributes injected (multi-line
tags, leading comments / blank lines); observed (tag, attribute, line) lists vs the model's report evaluated by vm_compute.
"""
import concurrent.futures
import copy
import json
import re

import docgen
import vlib
from checks import common

MSG = re.compile(r"Invalid attribute '(.*)' for tag <(.*)>")

# minimal placements: tag -> function(node) -> document tree
def N(tag, attrs=None, kids=None, text=None):
    return {"tag": tag, "attrs": dict(attrs or {}), "children": list(kids or []), "text": text}


def place(tag, node):
    col = lambda x: N("mj-section", kids=[N("mj-column", kids=[x])])
    body = lambda *x: N("mjml", kids=[N("mj-body", kids=list(x))])
    head = lambda *x: N("mjml", kids=[N("mj-head", kids=list(x)), N("mj-body", kids=[col(N("mj-text", text="t"))])])
    if tag == "mj-body":
        node["children"] = [col(N("mj-text", text="t"))]
        return N("mjml", kids=[node])
    if tag == "mj-head":
        node["children"] = [N("mj-title", text="t")]
        return N("mjml", kids=[node, N("mj-body", kids=[col(N("mj-text", text="t"))])])
    if tag in ("mj-title", "mj-preview", "mj-font", "mj-style", "mj-breakpoint", "mj-attributes"):
        if tag in ("mj-title", "mj-preview", "mj-style"):
            node["text"] = "x"
        return head(node)
    if tag == "mj-all":
        return head(N("mj-attributes", kids=[node]))
    if tag in ("mj-section", "mj-wrapper", "mj-hero"):
        if tag == "mj-section":
            node["children"] = [N("mj-column", kids=[N("mj-text", text="t")])]
        return body(node)
    if tag == "mj-column":
        node["children"] = [N("mj-text", text="t")]
        return body(N("mj-section", kids=[node]))
    if tag == "mj-group":
        node["children"] = [N("mj-column", kids=[N("mj-text", text="t")])]
        return body(N("mj-section", kids=[node]))
    if tag == "mj-social-element":
        node["text"] = "s"
        node["attrs"].setdefault("name", "facebook")
        return body(col(N("mj-social", kids=[node])))
    if tag == "mj-navbar-link":
        node["text"] = "l"
        return body(col(N("mj-navbar", kids=[node])))
    if tag == "mj-accordion-element":
        node["children"] = [N("mj-accordion-title", text="a"), N("mj-accordion-text", text="b")]
        return body(col(N("mj-accordion", kids=[node])))
    if tag in ("mj-accordion-title", "mj-accordion-text"):
        node["text"] = "a"
        return body(col(N("mj-accordion", kids=[N("mj-accordion-element", kids=[node])])))
    if tag == "mj-carousel-image":
        node["attrs"].setdefault("src", "https://x/a.png")
        return body(col(N("mj-carousel", kids=[node])))
    if tag == "mj-carousel":
        node["children"] = [N("mj-carousel-image", {"src": "https://x/a.png"})]
    if tag == "mj-social":
        node["children"] = [N("mj-social-element", {"name": "facebook"}, text="s")]
    if tag == "mj-navbar":
        node["children"] = [N("mj-navbar-link", text="l")]
    if tag == "mj-accordion":
        node["children"] = [N("mj-accordion-element", kids=[N("mj-accordion-title", text="a"), N("mj-accordion-text", text="b")])]
    if tag == "mj-image":
        node["attrs"].setdefault("src", "https://x/a.png")
    if tag in ("mj-text", "mj-button", "mj-table", "mj-raw"):
        node["text"] = "x"
    return body(col(node))


def print_lines(n, out, multiline=False):
    """one element per line; returns nothing, annotates n['_l0'] (line of '<') and n['_l1'] (line of the start tag's '>');
    attribute values and text content may themselves contain line breaks"""
    def emit(text):
        out.extend(text.split("\n"))
    n["_l0"] = len(out) + 1
    at = ['%s="%s"' % (k, docgen.esc_attr(v)) for k, v in n["attrs"].items()]
    if multiline and at:
        emit("<" + n["tag"])
        for a in at[:-1]:
            emit("    " + a)
        last = "    " + at[-1]
    else:
        last = "<" + n["tag"] + "".join(" " + a for a in at)
    if not n["children"] and n.get("text") is None:
        emit(last + " />")
        n["_l1"] = len(out)
        return
    if n.get("text") is not None and not n["children"]:
        n["_l1"] = len(out) + 1 + last.count("\n")
        emit(last + ">" + n["text"] + "</" + n["tag"] + ">")
        return
    emit(last + ">")
    n["_l1"] = len(out)
    for c in n["children"]:
        print_lines(c, out, multiline)
    out.append("</" + n["tag"] + ">")


def coq_tree(n):
    return 'T %s [%s] %d [%s]' % (vlib.coq_string(n["tag"]),
                                  "; ".join("(%s, %s)" % (vlib.coq_string(k), vlib.coq_string(v)) for k, v in n["attrs"].items()),
                                  n["_l1"], "; ".join("(" + coq_tree(c) + ")" for c in n["children"]))


def observed(r):
    out = []
    for tag, msg, line in r["err"].get("details") or []:
        m = MSG.match(msg)
        out.append((tag, m.group(1) if m else msg, int(line)))
    return sorted(out)


def ideal(doc, table, gnames, gprefixes, factory_tags=None):
    """the property's own reading: every element whose tag has a table entry and that carries an unaccepted attribute"""
    out = []
    under_attributes = set()
    for n in docgen.walk(doc):
        if n["tag"] == "mj-attributes":
            under_attributes |= {id(x) for x in docgen.walk(n)}
    for n in docgen.walk(doc):
        if id(n) in under_attributes:
            continue  # listed known finding unconstructed:mj-attributes>* (replayed separately)
        names = table.get(n["tag"])
        if names is None:
            continue
        if factory_tags is not None and n["tag"] not in factory_tags:
            continue  # listed known finding unconstructed:mj-breakpoint
        for a in n["attrs"]:
            if a and (a in gnames or any(a.startswith(p) for p in gprefixes)):
                continue
            if a not in names:
                out.append((n["tag"], a, n["_l0"], n["_l1"]))
    return out


def run(ck):
    ck.cov["trusted_base"] = vlib.TRUSTED_COMMON + [
        "translator gen/tables.go: allowed-css-attributes.json, globalAllowedAttributes literal, HasPrefix arguments, CreateComponent's tag switch",
        "the factory port Valid.Model.constructed is hand-written; it is compared with the implementation on every run (matrix + documents)",
        "encoding/xml offsets (line of a start tag = line on which it ends)",
    ]
    ok, mlog = common.prove_with_facts(ck, "Properties/C17.v")
    ck.prove  # noqa
    okc, mlogc, _ = vlib.coq_make(["Valid/Check.vo"])
    facts = vlib.load_facts()
    table = {t: set(a) for t, a in facts["allowed_table"].items()}
    gnames, gpre = set(facts["global_names"]), facts["global_prefixes"]
    ck.fact_obligations(sum(len(a) for a in table.values()) + len(facts["factory_tags"]), ok)
    hb, msg = vlib.build_harness()
    allnames = sorted(set().union(*table.values()))
    extra = ["bogus", "data-x", "aria-label", "class", "css-class", "mj-class", "colour", "Padding", "xmlns-foo"]
    tags = [t for t in facts["factory_tags"] if t != "mjml"] + ["mj-breakpoint"]
    docs = []  # (doc tree, src, meta)
    names = allnames + extra
    if ck.quick:
        names = allnames[::4] + extra
    for t in tags:
        for a in names:
            if a in ("mj-class",):
                val = "nope"
            elif a == "full-width":
                val = "full-width"
            else:
                val = "1"
            d = place(t, N(t, {a: val}))
            docs.append((d, False, 0, "matrix:%s" % t))
    # generated documents with invalid attributes injected, multi-line tags, leading junk
    g = docgen.Gen(ck.rng, attr_prob=0.15)
    for _ in range(300 if ck.quick else 10000):
        d = g.document()
        nodes = [n for n in docgen.walk(d)]
        for n in ck.rng.sample(nodes, min(len(nodes), ck.rng.choice([0, 1, 2, 3]))):
            n["attrs"][ck.rng.choice(["bogus", "colour", "data-ok", "aria-x", "widht", "Padding"])] = "1"
        for n in nodes:      # attribute values may span lines
            if n["tag"] in ("mj-image", "mj-button", "mj-section", "mj-column", "mj-text") and ck.rng.random() < 0.08:
                n["attrs"]["css-class"] = "first\n  second"
        docs.append((d, ck.rng.random() < 0.5, ck.rng.choice([0, 0, 1, 3, 5]), "generated"))
    jobs, cases = [], []
    for i, (d, multi, junk, kind) in enumerate(docs):
        lines = []
        for k in range(junk):
            lines.append("<!-- leading comment %d -->" % k if k % 2 == 0 else "")
        if junk and ck.rng.random() < 0.5:
            lines.append("<!-- a comment")
            lines.append("   over two lines -->")
        print_lines(d, lines, multi)
        src = "\n".join(lines) + "\n"
        jobs.append({"id": i, "src": src})
    res, dead = common.run_jobs(hb, "render", jobs)
    failing = []
    # HTML unaffected: the same document without the invalid attributes
    jobs2 = []
    for i, (d, multi, junk, kind) in enumerate(docs):
        r = res.get(i)
        if r is None:
            continue
        obs = observed(r)
        ck.count(jobs[i]["src"], bool(obs) or kind == "generated", tags=[kind.split(":")[0]] + (["multi-line-tags"] if multi else []) + (["leading-junk"] if junk else []))
        cases.append("(%d%%N, %s, [%s])" % (i, coq_tree(d), "; ".join("(%s, %s, %d%%N)" % (vlib.coq_string(t), vlib.coq_string(a), l) for t, a, l in obs)))
        if kind == "generated":
            want = ideal(d, table, gnames, gpre, set(facts["factory_tags"]))
            wset = sorted((t, a) for t, a, _, _ in want)
            oset = sorted((t, a) for t, a, _ in obs)
            if wset != oset:
                failing.append(({"src": jobs[i]["src"], "expected": wset, "reported": oset}, "reported set differs from the set of unaccepted attributes"))
            else:
                for (t, a, l0, l1) in want:
                    ls = [l for (t2, a2, l) in obs if (t2, a2) == (t, a)]
                    if not any(l0 <= l <= l1 for l in ls):
                        failing.append(({"src": jobs[i]["src"], "tag": t, "attr": a, "start_tag_lines": [l0, l1], "reported_lines": ls},
                                        "reported line is not a line of the element's start tag"))
                        break
            if obs and r["err"]["class"] != "validation":
                failing.append(({"src": jobs[i]["src"]}, "details without a validation error"))
            if obs:
                d2 = copy.deepcopy(d)
                for n in docgen.walk(d2):
                    for a in list(n["attrs"]):
                        if (n["tag"], a) in wset:
                            del n["attrs"][a]
                jobs2.append({"id": i, "src": docgen.to_mjml(d2), "nohtml": True})
        if obs and not r["html"]:
            failing.append(({"src": jobs[i]["src"]}, "validation error suppressed the HTML"))
    res2, _ = common.run_jobs(hb, "render", jobs2)
    for j in jobs2:
        r2, r1 = res2.get(j["id"]), res.get(j["id"])
        if r2 and r1 and r2["err"]["class"] == "none":
            # the compact re-print differs in whitespace only between tags; compare modulo whitespace runs
            norm = lambda h: re.sub(r"[0-9a-f]{16}", "ID", re.sub(r"\s+", "", h))
            if norm(r1["html"]) != norm(common_html(hb, j["src"])):
                failing.append(({"src": jobs[j["id"]]["src"]}, "HTML returned with the error differs from the HTML of the same document without the invalid attributes"))
    ck.sample({"matrix_case": jobs[5]["src"]})
    ck.sample({"generated": jobs[-1]["src"][:400]})
    # model vs implementation
    mism, errs = [], []
    if ok and okc:
        shards = [cases[i:i + 120] for i in range(0, len(cases), 120)]

        def work(arg):
            k, sh = arg
            body = ("From Coq Require Import List String Bool NArith.\nFrom GV Require Import Valid.Model Valid.Check.\nImport ListNotations.\n"
                    "Open Scope string_scope.\nDefinition cases : list vcase := [\n" + ";\n".join(sh) + "].\n"
                    "Definition M := Eval vm_compute in mismatches cases.\nPrint M.\n")
            eok, so, se, dt = vlib.coq_eval("c17_%d" % k, body)
            m = re.search(r"M\s*=\s*(\[.*?\])\s*:\s*list", so.replace("\n", " "))
            if not eok or not m:
                return None, (se or so)[-500:]
            return [int(x) for x in re.findall(r"(\d+)%N", m.group(1))], ""
        with concurrent.futures.ThreadPoolExecutor(16) as ex:
            for r, e in ex.map(work, list(enumerate(shards))):
                if r is None:
                    errs.append(e)
                else:
                    mism += r
    ck.cov["model_cases_evaluated_in_coq"] = len(cases) if not errs else 0
    ck.cov["model_mismatches"] = len(mism)
    ck.cov["first_mismatching_sources"] = [jobs[i]["src"][:300] for i in mism[:3]]
    ck.cov["exhaustive"] = not ck.quick
    ck.cov["rule"] = ("matrix: every constructible tag (%d) x every known attribute name (%d, quick: every 4th) + 9 invented / always-accepted "
                      "names, each in a minimal valid placement (exhaustive in the thorough tier); generated documents with 0-3 invalid attributes "
                      "injected, start tags on one or several lines, 0-7 leading comment/blank lines. Non-trivial: a case with a report, or any "
                      "generated document; distinct by source." % (len(tags), len(allnames)))
    # known findings
    for k in vlib.known_findings("C17"):
        rr, _ = common.run_jobs(hb, "render", [{"id": 0, "src": k["src"]}])
        obs = observed(rr[0]) if 0 in rr else []
        if (k["tag"], k["attr"]) not in [(t, a) for t, a, _ in obs]:
            ck.known("%s: %s" % (k["id"], k["what"]))
    if common.report(ck, failing, ok and okc, mlog + mlogc, "coq/Properties/C17.v or Valid/Check.v no longer compile"):
        return
    if mism or errs:
        ck.violation({"kind": "correspondence-broken", "what": "Valid.Check.mismatches: the validation/factory model and the implementation "
                      "report different (tag, attribute, line) multisets", "examples": [{"src": jobs[i]["src"], "observed": observed(res[i])} for i in mism[:3]],
                      "evaluation_errors": errs[:2]}, no_input=True)


_html_cache = {}


def common_html(hb, src):
    if src not in _html_cache:
        rr, _ = common.run_jobs(hb, "render", [{"id": 0, "src": src}])
        _html_cache[src] = rr[0]["html"] if 0 in rr else ""
    return _html_cache[src]


def replay(ck, path):
    rp = json.load(open(path))
    hb, msg = vlib.build_harness()
    rr, _ = common.run_jobs(hb, "render", [{"id": 0, "src": rp["input"]["src"]}])
    ck.count(rp["input"]["src"])
    ck.cov["distinct_nontrivial"] = 2
    print(json.dumps({"reported": observed(rr[0]) if 0 in rr else None, "expected": rp["input"].get("expected")}, indent=1))
