"""C07 — concurrent compilations are isolated from each other.

T: gen/globals.go lists every package-level variable with its write sites and lexical locksets; C07_lockset_drf and
C07_shared_state_accounted are recomputed; C07_noninterference is proved for every schedule and thread count.
H: N goroutines render documents with different heads, with and without the cache; every output is compared with the
document's solo output. Thorough tier: the same under the Go race detector.
"""
import json

import docgen
import vlib
from checks import common


def head_doc(i, rng):
    c = "#%02x%02x%02x" % (16 * i % 256, (40 * i + 7) % 256, (90 * i + 3) % 256)
    font = docgen.FONTS[i % len(docgen.FONTS)]
    return ('<mjml><mj-head><mj-attributes><mj-text color="%s" font-size="%dpx"/><mj-button background-color="%s"/>'
            '<mj-class name="k" font-family="%s" padding="%dpx"/><mj-all font-family="%s"/><mj-section padding="%dpx"/></mj-attributes>'
            '<mj-style inline="inline">.c%d { color: %s; }</mj-style><mj-font name="F%d" href="https://f.example/%d.css"/></mj-head>'
            '<mj-body><mj-section><mj-column><mj-text mj-class="k" css-class="c%d">t%d</mj-text><mj-button>b</mj-button>'
            '<mj-text font-family="F%d">u</mj-text></mj-column></mj-section></mj-body></mjml>') % (
                c, 10 + i, c, font, i, font, 3 * i, i, c, i, i, i, i, i)


def explore(ck, hb, sets, race=False):
    jobs = []
    for docs in sets:
        for n in (2, 4, 8):
            for cache in (False, True):
                jobs.append({"id": len(jobs), "docs": docs, "n": n, "reps": 40 if not race else 15, "cache": cache})
    res, dead = common.run_jobs(hb, "conc", jobs, procs=4, timeout=1500)
    failing = []
    for j in jobs:
        r = res.get(j["id"])
        if r is None:
            continue
        ck.count(json.dumps([j["docs"], j["n"], j["cache"]]), r.get("distinct_solo_outputs", 0) >= 2,
                 tags=["n:%d" % j["n"], "cache:%s" % j["cache"]])
        if r["contaminated"]:
            failing.append(({"docs": j["docs"], "goroutines": j["n"], "cache": j["cache"], "first": r["first"]},
                            "contaminated outputs: %d of %d concurrent renders differ from the solo output" % (r["contaminated"], r["runs"])))
    for j, rc, se in dead:
        why = "DATA RACE reported by the race detector" if "DATA RACE" in se else "process died"
        failing.append(({"docs": j["docs"], "goroutines": j["n"], "cache": j["cache"]}, why + ": " + se[-600:]))
    # cold start: the concurrent compilations are the first ones of a fresh process (lazy initialisation is exercised concurrently);
    # one document carries an invalid attribute so that the validation tables decide the result
    bad_doc = sets[0][0].replace("<mj-button>", '<mj-button no-such-attribute="1">', 1)
    for k in range(6 if not race else 10):
        j = {"id": 0, "docs": [bad_doc] + sets[k % len(sets)][:2], "n": 8, "reps": 2, "cache": k % 2 == 1, "cold": True}
        rc, r, se = vlib.harness(hb, "conc", [j], timeout=300)
        if not r or "DATA RACE" in se:
            why = "DATA RACE reported by the race detector" if "DATA RACE" in se else "process died"
            failing.append(({"docs": j["docs"], "goroutines": 8, "cache": j["cache"], "cold_start": True}, why + " (cold start): " + se[-600:]))
            continue
        ck.count(json.dumps(["cold", k, j["docs"]]), True, tags=["cold-start"])
        if r[0]["contaminated"]:
            failing.append(({"docs": j["docs"], "goroutines": 8, "cache": j["cache"], "cold_start": True, "first": r[0]["first"]},
                            "cold start: %d of %d first concurrent renders of a fresh process differ from the solo result" % (r[0]["contaminated"], r[0]["runs"])))
    return failing


def run(ck):
    ck.cov["trusted_base"] = vlib.TRUSTED_COMMON + [
        "translator gen/globals.go: package-level variable inventory, write-site detection, lexical locksets, sync.Once closures",
        "frame conditions of C07_noninterference (a compilation writes only cells reachable from its own RenderOpts / component tree) are "
        "established for package-level state by the recomputed facts; heap objects shared through the AST cache are covered by C13/C15/C16",
        "the Go memory model is not modelled: absence of data races is the lockset theorem plus the race-detector run of the thorough tier",
    ]
    ck.assumptions = ["sync.Once initialisation happens-before every reader that called the ensure function (OnceInit class)"]
    ok, mlog = common.prove_with_facts(ck, "Properties/C07.v")
    facts = vlib.load_facts()
    gl = facts.get("globals", [])
    unguarded = [g for g in gl if g["class"] == "Unguarded"]
    ck.fact_obligations(len(gl), ok)
    ck.cov["package_variables"] = {c: sum(1 for g in gl if g["class"] == c) for c in ("Immutable", "Sync", "Guarded", "OnceInit", "Unguarded")}
    race = not ck.quick
    hb, msg = vlib.build_harness(race=race)
    if not hb:
        ck.violation({"kind": "build-failed", "log": msg[-2000:]}, no_input=True)
        return
    rng = ck.rng
    sets = [[head_doc(i, rng) for i in range(4)], [head_doc(i, rng) for i in range(5, 7)]]
    g = docgen.Gen(rng, attr_prob=0.3)
    for _ in range(6 if ck.quick else 60):
        sets.append([docgen.to_mjml(g.document(with_head=True)) for _ in range(rng.choice([2, 3, 4]))])
    failing = explore(ck, hb, sets, race=race)
    ck.sample({"documents": sets[0][:2], "goroutines": [2, 4, 8], "cache": [False, True]})
    ck.cov["race_detector"] = race
    ck.cov["rule"] = ("sets of 2-4 documents whose heads differ (mj-attributes per tag, mj-class, mj-all, inline mj-style, mj-font) rendered by "
                      "N in {2,4,8} goroutines x {no cache, cache}, 40 renders per goroutine, each compared with the solo output; thorough tier "
                      "under -race. Non-trivial: the set has >= 2 distinct solo outputs; distinct by (set, N, cache).")
    what = "C07_lockset_drf / C07_shared_state_accounted: %s" % json.dumps(
        [{"var": g["pkg"] + "." + g["name"], "class": g["class"], "unguarded_accesses": g.get("bad_accesses")} for g in gl if g["class"] != "Immutable"])[:2500]
    if not failing and unguarded and not race:
        hb2, _ = vlib.build_harness(race=True)
        if hb2:
            failing = explore(ck, hb2, sets[:3], race=True)
    common.report(ck, failing, ok, mlog, what)


def replay(ck, path):
    rp = json.load(open(path))
    hb, msg = vlib.build_harness(race=True)
    f = explore(ck, hb, [rp["input"]["docs"]], race=True)
    ck.cov["distinct_nontrivial"] = 2
    print(f or "isolated on this input")
    if f:
        ck.violation({"kind": "replayed", "why": f[0][1], "input": rp["input"]})
