"""C01 — reference parity on the corpus, closed under block composition.

Theorems: coq/Properties/C01.v (the comparator Norm.html_equiv is an equivalence and a congruence for concatenation;
block-wise parity lifts to sequences of any length).
Tie (H): (1) all 207 fixture pairs judged by the extracted comparator (exhaustive); (2) for context-free fixtures at
parity, every ordered pair A;B placed in one document: gomjml's body must be equivalent to the reference fragments of
A and B concatenated with the seam merged as MJML merges it (exhaustive in the thorough tier, all seam kinds in quick).
"""
import json
import os
import re

import vlib
from checks import common
from checks import viewslib as vl

SEAM = re.compile(r"<!\[endif\]-->\s*<!--\[if mso \| IE\]>")
ENDIF_TAIL = re.compile(r"<!\[endif\]-->\s*$")
OPEN_HEAD = re.compile(r"^\s*<!--\[if mso \| IE\]>")


def unify(h):
    return re.sub(r"[0-9a-f]{16}", "ID", h)


def mjml_body_inner(src):
    m = re.search(r"<mj-body\b([^>]*)>(.*)</mj-body>", src, re.S)
    return (m.group(1).strip(), m.group(2)) if m else (None, None)


def context_free(src):
    """no head, default body: the blocks mean the same in any document"""
    if "<mj-head" in src or "mj-class" in src or "<mj-include" in src:
        return False
    attrs, inner = mjml_body_inner(src)
    return inner is not None and attrs == "" and inner.strip() != ""


def block_kinds(inner):
    """(kind of the first top-level block, kind of the last one) of an mj-body inner source"""
    tops = re.findall(r"<(mj-[a-z-]+)\b([^>]*?)/?>", inner)
    # top-level tags only: walk with a depth counter
    depth, kinds = 0, []
    for m in re.finditer(r"<(/?)(mj-[a-z-]+)\b([^>]*?)(/?)>", inner):
        close, tag, attrs, selfc = m.groups()
        if close:
            depth -= 1
            continue
        if depth == 0:
            k = tag[3:]
            if tag in ("mj-section", "mj-wrapper") and re.search(r"full-width\s*=", attrs):
                k += "-fw"
            if tag == "mj-section" and "background-url" in attrs:
                k += "-bg"
            kinds.append(k)
        if not selfc:
            depth += 1
    return (kinds[0], kinds[-1]) if kinds else (None, None)


def merge_ref(a, b):
    """MJML's mergeOutlookConditionnals at the junction of two body fragments"""
    if ENDIF_TAIL.search(a) and OPEN_HEAD.search(b):
        return ENDIF_TAIL.sub("", a) + OPEN_HEAD.sub("", b)
    return a + b


def run(ck):
    ck.cov["trusted_base"] = vlib.TRUSTED_COMMON + [
        "the reference outputs mjml/testdata/*.html are what MJML (JavaScript) produces for the fixtures",
        "extraction and the OCaml driver: the comparator the runner executes is the Coq definition Norm.first_diff (norm (lex a)) (norm (lex b))",
        "context-freeness of the chosen fixtures (no head, default body) - the composed document's reference body is taken to be the fixtures' reference bodies concatenated with MJML's seam merge",
    ]
    ck.assumptions = ["attribute-level byte output of the 26 components is not modelled: parity per document / block pair is a finite computation, lifted to sequences by C01_compose"]
    ok, mlog = ck.prove("Properties/C01.v")
    hb, msg = vlib.build_harness()
    mr, msgm = vlib.build_model_runner()
    if not hb or not mr:
        ck.violation({"kind": "build-failed", "log": (msg + msgm)[-2000:]}, no_input=True)
        return
    known = {k["id"]: k for k in vlib.known_findings("C01")}
    announced = set()
    failing = []

    def note_known(kid):
        if kid not in announced:
            announced.add(kid)
            ck.known("%s: %s" % (kid, known[kid]["what"]))

    # (1) corpus parity, all 207
    docs = common.fixture_docs()
    res, dead = common.run_jobs(hb, "render", [{"id": i, "src": s} for i, (n, s) in enumerate(docs)])
    refs = [open(os.path.join(vlib.REPO, "mjml/testdata/%s.html" % n)).read() for n, _ in docs]
    out = vlib.model_run(mr, [("equiv", (unify((res.get(i) or {}).get("html", "")).encode(), unify(refs[i]).encode())) for i in range(len(docs))])
    parity = {}
    for i, (n, s) in enumerate(docs):
        ck.count("fixture:" + n, True, tags=["corpus-parity"])
        parity[n] = out[i] == "EQ"
        if out[i] != "EQ":
            kid = "fixture:" + n
            if kid in known:
                note_known(kid)
            else:
                d = vlib.model_run(mr, [("normdump", unify(res[i]["html"]).encode()), ("normdump", unify(refs[i]).encode())])
                k = int(out[i]) if (out[i] or "").isdigit() else 0
                failing.append(({"fixture": n, "first_difference": {"index": k, "got": (d[0][k] if k < len(d[0]) else None), "want": (d[1][k] if k < len(d[1]) else None)}},
                                "fixture %s is not equivalent to its reference output" % n))
    ck.cov["fixtures_at_parity"] = sum(parity.values())
    ck.cov["fixtures_total"] = len(docs)

    # (2) composition of context-free fixtures
    cf = []
    for i, (n, s) in enumerate(docs):
        if parity[n] and context_free(s):
            gb, rb = vl.body_inner(res[i]["html"]), vl.body_inner(refs[i])
            if gb is not None and rb is not None:
                first, last = block_kinds(mjml_body_inner(s)[1])
                if first:
                    cf.append({"name": n, "inner": mjml_body_inner(s)[1], "ref": rb, "first": first, "last": last})
    ck.cov["context_free_fixtures"] = len(cf)
    pairs = [(a, b) for a in cf for b in cf]
    if ck.quick:
        # every (last kind of A, first kind of B) combination at least 3 times, plus a sample
        byk = {}
        for a, b in pairs:
            byk.setdefault((a["last"], b["first"]), []).append((a, b))
        sel = []
        for k, l in sorted(byk.items()):
            ck.rng.shuffle(l)
            sel += l[:3]
        rest = [p for p in pairs if p not in sel]
        ck.rng.shuffle(rest)
        pairs = sel + rest[:300]
    srcs = ["<mjml><mj-body>%s%s</mj-body></mjml>" % (a["inner"], b["inner"]) for a, b in pairs]
    res2, dead2 = common.run_jobs(hb, "render", [{"id": i, "src": s} for i, s in enumerate(srcs)])
    reqs, idx = [], []
    for i, (a, b) in enumerate(pairs):
        r = res2.get(i)
        if not r or not r.get("html"):
            continue
        gb = vl.body_inner(r["html"])
        if gb is None:
            continue
        want = merge_ref(a["ref"], b["ref"])
        reqs.append(("equiv", (("<div>" + unify(gb) + "</div>").encode(), ("<div>" + unify(want) + "</div>").encode())))
        idx.append(i)
    out2 = vlib.model_run(mr, reqs)
    seam_bad = {}
    for i, o in zip(idx, out2):
        a, b = pairs[i]
        ck.count("pair:%s|%s" % (a["name"], b["name"]), True, tags=["composition", "seam:%s|%s" % (a["last"], b["first"])])
        if o != "EQ":
            kid = "seam:%s|%s" % (a["last"], b["first"])
            if re.search(r"</mj-text\s+>", srcs[i]) and "needle:close-tag-with-whitespace" in known:
                note_known("needle:close-tag-with-whitespace")
            elif kid in known:
                note_known(kid)
            else:
                seam_bad.setdefault(kid, []).append((a["name"], b["name"], srcs[i]))
    for kid, l in sorted(seam_bad.items()):
        a, b, src = l[0]
        failing.append(({"first_fixture": a, "second_fixture": b, "seam": kid, "src": src, "pairs_failing_with_this_seam": len(l)},
                        "composition %s: the body of A;B is not equivalent to the reference fragments of A and B merged as MJML merges them" % kid))
    ck.cov["pairs_compared"] = len(idx)
    # (3) three blocks: a block may depend on more than its immediate neighbour (flags handed from block to block)
    okseam = lambda x, y: ("seam:%s|%s" % (x["last"], y["first"])) not in known and ("seam:%s|%s" % (x["last"], y["first"])) not in seam_bad
    triples = []
    tries = 0
    while len(triples) < (250 if ck.quick else 6000) and tries < 200000 and cf:
        tries += 1
        a, b, c3 = ck.rng.choice(cf), ck.rng.choice(cf), ck.rng.choice(cf)
        if okseam(a, b) and okseam(b, c3) and not re.search(r"</mj-text\s+>", a["inner"] + b["inner"] + c3["inner"]):
            triples.append((a, b, c3))
    # targeted: a block with special Outlook handling (background image, full width, hero, wrapper) between two ordinary ones
    special = [f for f in cf if re.search(r"background-url|full-width|<mj-hero|<mj-wrapper", f["inner"])]
    ordinary = [f for f in cf if f not in special]
    for b in special:
        for _ in range(2 if ck.quick else 10):
            if not ordinary:
                break
            a, c3 = ck.rng.choice(ordinary), ck.rng.choice(ordinary + special)
            if okseam(a, b) and okseam(b, c3) and not re.search(r"</mj-text\s+>", a["inner"] + b["inner"] + c3["inner"]):
                triples.append((a, b, c3))
    tsrcs = ["<mjml><mj-body>%s%s%s</mj-body></mjml>" % (a["inner"], b["inner"], c3["inner"]) for a, b, c3 in triples]
    res3, dead3 = common.run_jobs(hb, "render", [{"id": i, "src": s_} for i, s_ in enumerate(tsrcs)])
    reqs3, idx3 = [], []
    for i, (a, b, c3) in enumerate(triples):
        r = res3.get(i)
        gb = vl.body_inner(r["html"]) if r and r.get("html") else None
        if gb is None:
            continue
        want = merge_ref(merge_ref(a["ref"], b["ref"]), c3["ref"])
        reqs3.append(("equiv", (("<div>" + unify(gb) + "</div>").encode(), ("<div>" + unify(want) + "</div>").encode())))
        idx3.append(i)
    out3 = vlib.model_run(mr, reqs3)
    nbad3 = 0
    for i, o in zip(idx3, out3):
        a, b, c3 = triples[i]
        ck.count("triple:%s|%s|%s" % (a["name"], b["name"], c3["name"]), True, tags=["composition-3"])
        if o != "EQ":
            nbad3 += 1
            if nbad3 <= 2:
                failing.append(({"fixtures": [a["name"], b["name"], c3["name"]], "src": tsrcs[i]},
                                "composition of three blocks: the body of A;B;C is not equivalent to the merged reference fragments although both seams are at parity pairwise"))
    ck.cov["triples_compared"] = len(idx3)
    ck.cov["exhaustive"] = not ck.quick
    ck.sample({"pair": [pairs[0][0]["name"], pairs[0][1]["name"]], "document": srcs[0][:300]})
    ck.cov["rule"] = ("(1) all 207 fixture pairs under the extracted comparator (exhaustive); (2) ordered pairs of the context-free fixtures at parity "
                      "(no head, default body): thorough = all pairs (exhaustive), quick = 3 pairs per (last block kind, first block kind) combination "
                      "+ 300 sampled; the composed body vs the reference bodies concatenated with MJML's seam merge. Non-trivial: every case.")
    common.report(ck, failing, ok, mlog, "coq/Properties/C01.v (cone) no longer compiles", limit=8, key=lambda w: w)


def replay(ck, path):
    rp = json.load(open(path))
    print(json.dumps(rp.get("input"), indent=1)[:2000])
    ck.count(json.dumps(rp.get("input"))[:300])
    ck.cov["distinct_nontrivial"] = 2
