"""C19 — inline CSS is applied completely and touches nothing but style attributes.

Theorems: coq/Properties/C19.v (token-level inliner Inline/Tag.v, rule parser Inline/Css.v).
Tie (H): (a) the real rule parser and the real author-HTML inliner (verif hooks) against the extracted model on generated
rule sets and tag-well-formed author HTML; (b) for every component accepting css-class: the document with an inline
mj-style block vs the same document without it - the body with the block must lex to exactly the inlined token stream of
the body without it (so only style attributes differ, and they carry the declarations in rule order), and the head must
not contain the inlined rules; (c) generated documents with random rule sets shared between components and author HTML.
"""
import json
import re

import docgen
import vlib
from checks import common
from checks.c17 import place, N

CSSP = [".k", ".k2", ".a.b", "div.k", ".k > p", ".k:hover", "#id", ".x,.y", " .k ", ".k-outlook", "p", ".kk"]
DECLS = ["color:red", "font-size: 9px", " margin : 0 ", "x", "a:", "b:c;;", "background:url(a;b)", "line-height:1.5"]
HT = ['<p class="k">', '<p class=k>', '<P CLASS="k x">', "<span class='k2' style='a:b'>", '<br class="k"/>', '<img class="k" src="a>b" />', 'text', '</p>',
      '<!-- class="k" -->', '<div style="x:y;" class="y k">', '<a href="?a=1&b=2" class="a">', '<b>', '<i class="">', '<td class="k" disabled>', '<hr class="k" / >',
      ' ', '<input class="k" disabled/>', '<p class="k" style="">', '<p style=" " class="k2">', '<p class="k"\n id=x>', '<p class="kk k">', "<p class='k' title='a\"b'>"]


def gencss(rng):
    out = ""
    for _ in range(rng.randint(0, 4)):
        sel = ",".join(rng.choice(CSSP) for _ in range(rng.randint(1, 2)))
        decls = ";".join(rng.choice(DECLS) for _ in range(rng.randint(0, 3)))
        out += rng.choice(["", " ", "\n"]) + sel + rng.choice(["{", " {"]) + decls + rng.choice(["}", "; }", "}\n", ""])
    return out


def body_of(html):
    i = html.find("<body")
    return html[i:] if i >= 0 else html


def head_of(html):
    i = html.find("<body")
    return html[:i] if i >= 0 else ""


def with_style(d, css, extra_newline=True):
    import copy
    d = copy.deepcopy(d)
    head = None
    for c in d["children"]:
        if c["tag"] == "mj-head":
            head = c
    if head is None:
        head = N("mj-head")
        d["children"].insert(0, head)
    head["children"].append(N("mj-style", {"inline": "inline"}, text=("\n" + css + "\n") if extra_newline else css))
    return d


def without_style(d):
    import copy
    d = copy.deepcopy(d)
    has_head = any(c["tag"] == "mj-head" for c in d["children"])
    if not has_head:
        d["children"].insert(0, N("mj-head"))
    return d


def run(ck):
    ck.cov["trusted_base"] = vlib.TRUSTED_COMMON + [
        "extraction and the OCaml driver; lexer Base.Tok.lex as the definition of 'same tags, attributes and text'",
        "author HTML is tag-well-formed (no stray '<' or '>' outside quoted attribute values): the property's own domain",
    ]
    ok, mlog = common.prove_with_facts(ck, "Properties/C19.v")
    hb, msg = vlib.build_harness()
    mr, msgm = vlib.build_model_runner()
    if not hb or not mr:
        ck.violation({"kind": "build-failed", "log": (msg + msgm)[-2000:]}, no_input=True)
        return
    rng = ck.rng
    failing = []
    known = {k["id"]: k for k in vlib.known_findings("C19")}
    announced = set()
    # (a) hooks vs model
    cases = [(gencss(rng), "".join(rng.choice(HT) for _ in range(rng.randint(1, 10)))) for _ in range(2500 if ck.quick else 60000)]
    res, dead = common.run_jobs(hb, "inline", [{"id": i, "css": c, "html": h} for i, (c, h) in enumerate(cases)])
    o = vlib.model_run(mr, [("inlinediff", (c.encode(), h.encode(), (res.get(i) or {}).get("out", "").encode())) for i, (c, h) in enumerate(cases)])
    rl = vlib.model_run(mr, [("cssrules", c.encode()) for c, _ in cases])

    def dec(line):
        out = []
        if not line:
            return out
        for ru in line.split("|"):
            s, d = ru.split("/")
            out.append([[bytes.fromhex(x).decode() for x in s.split(",") if x], [[bytes.fromhex(y).decode() for y in kv.split("=")] for kv in d.split(",") if kv]])
        return out
    for i, (c, h) in enumerate(cases):
        r = res.get(i)
        if r is None:
            continue
        ck.count("hook:" + c + "|" + h, "class" in h.lower() and "{" in c, tags=["hook-level"])
        if o[i] != "EQ":
            failing.append(({"css": c, "html": h, "implementation_output": r["out"], "first_differing_token": o[i]},
                            "author-HTML inliner: output is not the token stream with only style attributes changed as the rules demand"))
        impl = [[list(a), [list(x) for x in (b or [])]] for a, b in (r["rules"] or [])]
        if dec(rl[i]) != impl:
            failing.append(({"css": c, "implementation_rules": impl, "model_rules": dec(rl[i])}, "rule parser: implementation and model differ"))
    ck.sample({"css": cases[0][0], "author_html": cases[0][1]})

    # (b) every component accepting css-class
    facts = vlib.load_facts()
    css = ".kk { color: red; font-size: 9px }\n.jj{margin:1px}"
    # css-class is a global attribute (the per-tag table does not list it): every component of the body takes it
    NOT_BODY = {"mjml", "mj-head", "mj-title", "mj-preview", "mj-font", "mj-style", "mj-breakpoint", "mj-attributes", "mj-all", "mj-class", "mj-raw"}
    tags = [t for t in sorted(facts["factory_tags"]) if t not in NOT_BODY]
    docs = []
    SEC = lambda: N("mj-section", kids=[N("mj-column", kids=[N("mj-text", text="t")])])

    def fill(t, node):
        if t == "mj-wrapper":
            node["children"] = [SEC(), SEC()]
        if t == "mj-hero":
            node["children"] = [N("mj-text", text="h")]
        return node
    for t in tags:
        node = fill(t, N(t, {"css-class": "kk"}))
        d = place(t, node)
        docs.append((t, d))
        variants = {"mj-section": [("full-width", {"full-width": "full-width"}), ("background-url", {"background-url": "https://x/b.png"})],
                    "mj-wrapper": [("full-width", {"full-width": "full-width"})],
                    "mj-navbar": [("hamburger", {"hamburger": "hamburger"})],
                    "mj-social": [("vertical", {"mode": "vertical"})],
                    "mj-image": [("href", {"href": "https://x"})],
                    "mj-carousel": [("thumbnails", {"thumbnails": "visible"})]}
        for vn, extra in variants.get(t, []):
            node = fill(t, N(t, dict({"css-class": "kk"}, **extra)))
            docs.append(("%s[%s]" % (t, vn), place(t, node)))
    # the class may also reach the component through <mj-class name="p" css-class="kk"/> + mj-class="p"
    for t in tags:
        if t == "mj-wrapper":
            continue
        node = fill(t, N(t, {"mj-class": "p"}))
        d = place(t, node)
        d["children"].insert(0, N("mj-head", kids=[N("mj-attributes", kids=[N("mj-class", {"name": "p", "css-class": "kk"})])]))
        docs.append(("%s[via-mj-class]" % t, d))
    # rules may target the classes the components generate themselves
    two = N("mjml", kids=[N("mj-body", kids=[N("mj-section", kids=[N("mj-column", kids=[N("mj-text", text="a")]), N("mj-column", kids=[N("mj-text", text="b")])])])])
    docs.append(("built-in-class:mj-column-per-50", two))
    jobs = []
    for i, (t, d) in enumerate(docs):
        c_ = css if not t.startswith("built-in-class") else ".mj-column-per-50 { color: red; font-size: 9px }"
        jobs.append({"id": 2 * i, "src": docgen.to_mjml(without_style(d))})
        jobs.append({"id": 2 * i + 1, "src": docgen.to_mjml(with_style(d, c_))})
    res2, dead2 = common.run_jobs(hb, "render", jobs)
    reqs = []
    for i, (t, d) in enumerate(docs):
        a, b = res2.get(2 * i), res2.get(2 * i + 1)
        c_ = css if not t.startswith("built-in-class") else ".mj-column-per-50 { color: red; font-size: 9px }"
        unid = lambda h: re.sub(r"[0-9a-f]{16}", "ID", h)      # mj-carousel draws a fresh id per compilation
        reqs.append(("inlinerelaxed", (c_.encode(), unid(body_of((a or {}).get("html", ""))).encode(), unid(body_of((b or {}).get("html", ""))).encode())))
    o2 = vlib.model_run(mr, reqs)
    for i, (t, d) in enumerate(docs):
        a, b = res2.get(2 * i), res2.get(2 * i + 1)
        ck.count("component:" + t, True, tags=["component-css-class"])
        if not a or not b:
            continue
        if o2[i] != "EQ":
            kid = "class-site-not-inlined:" + t
            if kid not in known and "class-site-not-inlined:" + t.split("[")[0] in known:
                kid = "class-site-not-inlined:" + t.split("[")[0]       # a variant of a component none of whose variants opts in
            if kid in known:
                if kid not in announced:
                    announced.add(kid)
                    ck.known("%s: %s" % (kid, known[kid]["what"]))
            else:
                failing.append(({"component": t, "src_with_inline_block": jobs[2 * i + 1]["src"], "first_differing_token": o2[i]},
                                "component %s: with the inline block the body is not the body without it plus the rules' declarations on every element of class kk" % t))
        if ".kk" in head_of(b["html"]):
            failing.append(({"component": t, "src": jobs[2 * i + 1]["src"]}, "the inlined rules are not omitted from the head"))
    # single-line inline block: rules must be omitted from the head as well
    d0 = place("mj-text", N("mj-text", {"css-class": "kk"}))
    r1, _ = common.run_jobs(hb, "render", [{"id": 0, "src": docgen.to_mjml(with_style(d0, ".kk{color:red}", extra_newline=False))}])
    ck.count("single-line-inline-block", True, tags=["head-omits-inline"])
    if 0 in r1 and ".kk" in head_of(r1[0]["html"]):
        kid = "head-keeps-inline-rules:single-line-block"
        if kid in known:
            ck.known("%s: %s" % (kid, known[kid]["what"]))
        else:
            failing.append(({"src": docgen.to_mjml(with_style(d0, ".kk{color:red}", extra_newline=False))}, "the inlined rules are not omitted from the head (single-line inline block)"))

    # (c) generated documents with rule sets and classes shared between components and author HTML
    g = docgen.Gen(rng, attr_prob=0.15)
    gd = []
    for _ in range(150 if ck.quick else 6000):
        d = g.document()
        for n in docgen.walk(d):
            if n["tag"] in ("mj-text", "mj-button", "mj-section", "mj-column", "mj-image", "mj-divider", "mj-wrapper", "mj-hero", "mj-group", "mj-spacer", "mj-table") and rng.random() < 0.5:
                n["attrs"]["css-class"] = rng.choice(["k", "k2", "k k2", "zz"])
            if n["tag"] == "mj-text" and rng.random() < 0.6:
                n["text"] = "".join(rng.choice(['<p class="k">', "t", "</p>", "<span class='k2' style='a:b'>", "</span>", '<br class="k"/>', "<b>", "</b>"]) for _ in range(rng.randint(1, 6)))
        if any(c["tag"] == "mj-head" for c in d["children"]):
            d["children"] = [c for c in d["children"] if c["tag"] != "mj-head"]
        pool = [".k,.k2{padding:4px;}", ".k{color:green;}", ".k2{color:red;}", ".k,.zz{margin:0}", ".zz{font-size:9px}", ".k2 { font-size:9px; color:blue }",
                ".k, .k2, .zz { line-height: 1; }", ".k{border:0}"]
        rules = rng.sample(pool, rng.randint(2, 5))
        gd.append((d, "\n".join(rules)))
    jobs3 = []
    for i, (d, c) in enumerate(gd):
        jobs3.append({"id": 2 * i, "src": docgen.to_mjml(without_style(d))})
        jobs3.append({"id": 2 * i + 1, "src": docgen.to_mjml(with_style(d, c))})
    res3, dead3 = common.run_jobs(hb, "render", jobs3)
    reqs3, idx3 = [], []
    for i, (d, c) in enumerate(gd):
        a, b = res3.get(2 * i), res3.get(2 * i + 1)
        if a and b and a["err"]["class"] == "none" and b["err"]["class"] == "none":
            reqs3.append(("inlinerelaxed", (c.encode(), re.sub(r"[0-9a-f]{16}", "ID", body_of(a["html"])).encode(), re.sub(r"[0-9a-f]{16}", "ID", body_of(b["html"])).encode())))
            idx3.append(i)
    o3 = vlib.model_run(mr, reqs3)
    known_tags = {k.split(":", 1)[1] for k in known if k.startswith("class-site-not-inlined:")}
    for i, o_ in zip(idx3, o3):
        d, c = gd[i]
        ck.count("doc:" + jobs3[2 * i]["src"], True, tags=["generated"])
        if o_ != "EQ":
            def site(n):
                out = [n["tag"]]
                for a in ("full-width", "hamburger", "background-url", "href", "thumbnails"):
                    if n["attrs"].get(a):
                        out.append("%s[%s]" % (n["tag"], a))
                if n["attrs"].get("mode") == "vertical":
                    out.append("%s[vertical]" % n["tag"])
                return out
            if any(x in known_tags for n in docgen.walk(d) if "css-class" in n["attrs"] for x in site(n)):
                continue
            if "mj-table[cell]" in known_tags and any(n["tag"] == "mj-table" and "class=" in (n.get("text") or "") for n in docgen.walk(d)):
                kid = "class-site-not-inlined:mj-table[cell]"
                if kid not in announced:
                    announced.add(kid)
                    ck.known("%s: %s" % (kid, known[kid]["what"]))
                continue
            failing.append(({"src_with_inline_block": jobs3[2 * i + 1]["src"], "first_differing_token": o_},
                            "generated document: with the inline block the body is not the inlined token stream of the body without it"))
    ck.cov["exhaustive"] = True
    ck.cov["rule"] = ("(a) generated rule sets (simple / compound / pseudo / id / grouped selectors, empty and malformed declarations) x tag-well-formed author "
                      "HTML (quotes of both kinds, unquoted values, upper-case CLASS, existing / empty style, void and self-closing tags, comments "
                      "mentioning class, '>' inside values) through the real parser and inliner vs the extracted model; (b) every constructible component "
                      "that accepts css-class (exhaustive), with vs without the inline block; (c) generated documents with classes on components and in "
                      "author HTML. Non-trivial: a rule set with a rule and HTML with a class (all component / document cases count).")
    common.report(ck, failing, ok, mlog, "coq/Properties/C19.v (cone) no longer compiles", limit=6, key=lambda w: w)


def replay(ck, path):
    rp = json.load(open(path))
    print(json.dumps(rp.get("input"), indent=1)[:2500])
    ck.count(json.dumps(rp.get("input"))[:300])
    ck.cov["distinct_nontrivial"] = 2
