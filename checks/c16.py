"""C16 — rendering never mutates the parsed AST.

T: gen/astwrites.go lists every statement outside package parser that may write tree memory; theorem
C16_no_tree_writes recomputes 'none' and C16_ast_preserved lifts it to every trace.
H: deep snapshot of the tree before/after every rendering path for fixtures and generated documents.
"""
import json

import docgen
import vlib
from checks import common


def explore(ck, hb, docs):
    jobs = [{"id": i, "src": s, "name": n} for i, (n, s) in enumerate(docs)]
    res, dead = common.run_jobs(hb, "snapshot", jobs)
    failing = []
    for j in jobs:
        r = res.get(j["id"])
        if r is None:
            continue
        ck.count(j["src"], (r.get("nodes") or 0) >= 8, tags=["src:" + ("fixture" if j["name"] != "gen" else "generated")])
        if r.get("panic"):
            failing.append(({"src": j["src"]}, "panic: " + r["panic"]))
        for step in r.get("changed") or []:
            failing.append(({"src": j["src"], "name": j["name"]}, "tree changed after: " + step))
    for j, rc, se in dead:
        failing.append(({"src": j["src"]}, "process died: " + se[-200:]))
    return failing


def run(ck):
    ck.cov["trusted_base"] = vlib.TRUSTED_COMMON + [
        "translator gen/astwrites.go: lvalue/alias classification of writes to objects of package parser's types; region typing of Go (no unsafe/reflect, itself a recomputed fact)",
    ]
    ok, mlog = common.prove_with_facts(ck, "Properties/C16.v")
    facts = vlib.load_facts()
    ck.fact_obligations(facts.get("write_statements_scanned", 0), ok and not facts.get("ast_writes"))
    ck.cov["write_statements_scanned"] = facts.get("write_statements_scanned")
    ck.cov["tree_write_sites"] = facts.get("ast_writes")
    hb, msg = vlib.build_harness()
    docs = common.fixture_docs(1 if not ck.quick else 3)
    g = docgen.Gen(ck.rng)
    for k in range(300 if ck.quick else 10000):
        d = g.document()
        if k % 2:
            docgen.with_inline_classes(d, ck.rng)      # inline rules meeting classes on components and in author HTML
        docs.append(("gen", docgen.to_mjml(d)))
    # placements and contents that generic documents avoid or rarely produce: children a container filters out (mj-raw among navbar links,
    # among social / accordion / carousel children), labels with inline elements whose attributes carry escapes, attribute-heavy elements
    wrapc = lambda x: "<mjml><mj-body><mj-section><mj-column>%s</mj-column></mj-section></mj-body></mjml>" % x
    RAWK = "<mj-raw><!-- r --><p>raw</p></mj-raw>"
    docs += [("special", wrapc(x)) for x in (
        '<mj-navbar><mj-navbar-link href="/a">A</mj-navbar-link>%s<mj-navbar-link href="/b">B</mj-navbar-link></mj-navbar>' % RAWK,
        '<mj-navbar hamburger="hamburger">%s<mj-navbar-link href="/a">A</mj-navbar-link>%s</mj-navbar>' % (RAWK, RAWK),
        '<mj-social><mj-social-element name="facebook">F</mj-social-element>%s<mj-social-element name="github" href="https://x/?a=1&amp;b=2">G <img src="https://x/i.png?a=1&amp;b=2" alt="i &amp; j"/></mj-social-element></mj-social>' % RAWK,
        '<mj-accordion>%s<mj-accordion-element>%s<mj-accordion-title>T &amp; t</mj-accordion-title><mj-accordion-text><a href="https://x/?a=1&amp;b=2">l</a></mj-accordion-text></mj-accordion-element></mj-accordion>' % (RAWK, RAWK),
        '<mj-carousel><mj-carousel-image src="https://x/a.png"/>%s<mj-carousel-image src="https://x/b.png?a=1&amp;b=2"/></mj-carousel>' % RAWK,
        '<mj-button href="https://x/?a=1&amp;b=2"><span title="Terms &amp; conditions apply" data-x="&lt;&gt;&quot;">Read <b class="k">more</b> &amp; more</span></mj-button>',
        '<mj-text><a href="https://x/?a=1&amp;b=2" title="a &amp; b">l</a><br/><img src="https://x/i.png" alt="&quot;q&quot;"/></mj-text>',
        '<mj-table><tr><td title="a &amp; b" class="k">c &amp; d</td></tr></mj-table>',
        '<mj-image src="https://x/a.png?a=1&amp;b=2" href="https://x/?a=1&amp;b=2" alt="a &amp; b" title="t" width="100px" height="50px" padding="1px" border="1px solid #000" border-radius="2px" align="left" target="_self" rel="noopener"/>',
    )]
    failing = explore(ck, hb, docs)
    ck.sample({"document": docs[-1][1][:300], "paths": ["RenderFromAST", "RenderFromAST(debug)", "NewFromAST+RenderComponentString x2", "2 concurrent RenderFromAST", "cached RenderWithAST x3"]})
    ck.cov["rule"] = ("fixtures (quick: every third, thorough: all 207) + generated full-grammar documents; for each: parse once, deep "
                      "snapshot (names, attribute order and values, text, mixed content, child pointers, slice identity, line numbers), run "
                      "5 rendering paths, compare after each. Non-trivial: tree with >= 8 nodes; distinct by source.")
    if not failing and (facts.get("ast_writes") or facts.get("unsafe_uses")):
        # the static obligation broke: try harder to find a document on which the flagged statement shows
        more = [("gen", docgen.to_mjml(docgen.Gen(ck.rng, attr_prob=0.5).document())) for _ in range(3000)]
        failing = explore(ck, hb, more)
    if not common.report(ck, failing, ok, mlog, "C16_no_tree_writes: statements that may write the parsed tree: %s" % json.dumps(facts.get("ast_writes"))[:1500]):
        pass


def replay(ck, path):
    rp = json.load(open(path))
    hb, msg = vlib.build_harness()
    f = explore(ck, hb, [("replay", rp["input"]["src"])])
    ck.cov["distinct_nontrivial"] = 2
    print(f or "tree unchanged on this input")
    if f:
        ck.violation({"kind": "replayed", "why": f[0][1], "input": rp["input"]})
