"""C15 — single-flight parsing and cleanup lifecycle are safe under every schedule.

Theorems: coq/Properties/C15.v (interleaving model Cache/Conc.v, invariants for any number of goroutines and any
schedule; lifecycle model Cache/Cleaner.v).
Tie (H): a controlled scheduler parks every compiling goroutine at the verifYield points and runs exactly one at a
time, so each executed interleaving is a sequence of the model's atomic steps; every executed schedule is replayed
through Cache.ConcCheck (the model must accept it and predict every arrival point, result and parse count).
Thorough tier: free-running stress under the race detector.
"""
import itertools
import json
import re

import vlib
from checks import common
from checks import cachelib as cl

DOCS = [cl.DOCS[0], cl.DOCS[2], cl.DOCS[3]]   # key 0, key 1, key 2 (unparsable)
BAD = [2]


def cases(ck):
    rng = ck.rng
    out = []

    def add(threads, cached=(), strategy="random", picks=(), pct_d=0, expire_at=None):
        j = {"id": len(out), "docs": DOCS, "threads": list(threads), "cached": [{"doc": d, "expired": e} for d, e in cached],
             "strategy": strategy, "picks": list(picks), "pct_d": pct_d, "seed": rng.randrange(1 << 30)}
        if expire_at is not None:
            j["expire_at"] = expire_at
        out.append(j)

    # exhaustive pick lists for two goroutines on one template (and on a failing template)
    L = 8 if ck.quick else 13
    for bits in itertools.product([0, 1], repeat=L):
        add([0, 0], picks=bits, strategy="first")
    for bits in itertools.product([0, 1], repeat=6 if ck.quick else 10):
        add([2, 2], picks=bits, strategy="first")
        add([0, 0], cached=[(0, True)], picks=bits, strategy="first")
    nrand = 400 if ck.quick else 20000
    for _ in range(nrand):
        n = rng.choice([2, 3, 3, 4, 6, 8])
        threads = [rng.choice([0, 0, 0, 1, 2]) for _ in range(n)]
        cached = []
        for d in (0, 1):
            r = rng.random()
            if r < 0.2:
                cached.append((d, False))
            elif r < 0.4:
                cached.append((d, True))
        add(threads, cached, strategy=rng.choice(["random", "pct"]), pct_d=rng.choice([0, 1, 2, 3]),
            expire_at=rng.choice([None, None, rng.randrange(0, 12)]))
    return out


def oracle(j, r):
    """model-free judgement of one executed schedule"""
    if r.get("problem"):
        return r["problem"]
    inparse = {}
    for t, arr, kind, parsed in r["trace"]:
        if t < 0:
            continue
        k = j["threads"][t]
        if arr == 5:
            for t2, k2 in inparse.items():
                if k2 == k and t2 != t:
                    return "parses of the same template overlap (goroutines %d and %d)" % (t, t2)
            inparse[t] = k
        elif t in inparse:
            del inparse[t]
        if arr == 0:
            want = 2 if k in BAD else 1
            if kind != want:
                return "goroutine %d received a result that differs from a fresh compilation of its template" % t
    if r["sf_len"] != 0:
        return "in-flight record left behind (%d)" % r["sf_len"]
    return None


def coq_case(j, r):
    items = []
    for t, arr, kind, parsed in r["trace"]:
        items.append("SExpire" if t < 0 else "SThread %d %d %d %d" % (t, arr, kind, parsed))
    return ("{| sc_id := %d; sc_n := %d; sc_keys := [%s]; sc_bad := [2]; sc_cached := [%s]; sc_trace := [%s]; "
            "sc_final_cache := %d; sc_final_sf := %d |}" % (
                j["id"], len(j["threads"]), "; ".join(map(str, j["threads"])),
                "; ".join("(%d, %s)" % (c["doc"], vlib.coq_bool(c["expired"])) for c in j["cached"]),
                "; ".join(items), r["cache_len"], r["sf_len"]))


def model_mismatches(terms, lifes):
    import concurrent.futures
    shards = [terms[i:i + 1200] for i in range(0, len(terms), 1200)]

    def work(arg):
        k, sh = arg
        body = ("From Coq Require Import List Arith Bool.\nFrom GV Require Import Cache.Conc Cache.ConcCheck.\nImport ListNotations.\n"
                "Definition cases : list sched_case := [\n" + ";\n".join(sh) + "].\n"
                "Definition M := Eval vm_compute in mismatches cases.\nPrint M.\n")
        if k == 0 and lifes:
            body += ("Definition L := Eval vm_compute in cleaner_mismatches [\n" + ";\n".join(lifes) + "].\nPrint L.\n")
        ok, so, se, dt = vlib.coq_eval("c15_%d" % k, body, timeout=1400)
        flat = so.replace("\n", " ")
        m = re.search(r"M\s*=\s*(\[.*?\])\s*:\s*list", flat)
        if not ok or not m:
            return None, None, (se or so)[-600:]
        pairs = [(int(a), int(b)) for a, b in re.findall(r"\(\s*(\d+)\s*,\s*(\d+)\s*\)", m.group(1))]
        lm = None
        if k == 0 and lifes:
            m2 = re.search(r"L\s*=\s*(\[.*?\])\s*:\s*list", flat)
            lm = [int(x) for x in re.findall(r"\d+", m2.group(1))] if m2 else None
        return pairs, lm, ""

    allm, lifem, errs = [], [], []
    with concurrent.futures.ThreadPoolExecutor(8) as ex:
        for pairs, lm, e in ex.map(work, list(enumerate(shards))):
            if pairs is None:
                errs.append(e)
            else:
                allm += pairs
                if lm:
                    lifem += lm
    return allm, lifem, errs


def run(ck):
    ck.cov["trusted_base"] = vlib.TRUSTED_COMMON + [
        "atomicity of the model's steps: yield points lie outside every critical section and sfCalls / cleanupCancel are only accessed under their mutex (recomputed fact C07_lockset_drf)",
        "sync.WaitGroup / sync.Mutex / sync.Map / context semantics (Go standard library)",
        "the controlled scheduler (harness/sched.go): goroutine identity from runtime.Stack, one run token",
        "data races and goroutine leaks are runtime observations (race detector, goroutine counts), not theorems",
    ]
    ck.assumptions = ["weak fairness for termination; a select eventually takes a ready Done case"]
    ok, mlog = ck.prove("Properties/C15.v", extra_targets=["Cache/ConcCheck.v"])
    hb, msg = vlib.build_harness()
    if not hb:
        ck.violation({"kind": "build-failed", "log": msg[-2000:]}, no_input=True)
        return
    jobs = cases(ck)
    res, dead = common.run_jobs(hb, "sched", jobs, timeout=2400)
    failing, terms = [], []
    for j in jobs:
        r = res.get(j["id"])
        if r is None:
            continue
        switches = sum(1 for a, b in zip(r["trace"], r["trace"][1:]) if a[0] != b[0])
        ck.count(json.dumps([j["threads"], j["cached"], [x[0] for x in r["trace"]]]), switches >= 1,
                 tags=["n:%d" % len(j["threads"]), "strategy:" + j["strategy"], "cached:%d" % len(j["cached"])])
        why = oracle(j, r)
        if why:
            failing.append(({"threads": j["threads"], "cached": j["cached"], "schedule": [x[0] for x in r["trace"]], "documents": DOCS,
                             "trace": r["trace"]}, why))
        terms.append(coq_case(j, r))
    for j, rc, se in dead:
        failing.append(({"threads": j["threads"], "cached": j["cached"], "picks": j["picks"]}, "process died: " + se[-300:]))
    ck.sample({"threads(template index)": jobs[-1]["threads"], "executed_schedule": [x[0] for x in (res.get(jobs[-1]["id"]) or {"trace": []})["trace"]]})

    # cleanup lifecycle
    lifejobs, lifeterms = [], []
    opsets = [list(t) for n in (1, 2, 3, 4) for t in itertools.product(["start", "stop", "start-concurrent", "stop-concurrent"], repeat=n)]
    if ck.quick:
        opsets = opsets[::3]
    for ops in opsets:
        lifejobs.append({"id": len(lifejobs), "ops": ops})
    # stops overlapping starts, then a sequential use of the cache: counts as a "start" for the model and the oracle below
    MIX = "start-after-mixed-concurrent"
    for ops in ([MIX], ["start", MIX], ["stop", MIX], [MIX, "stop"], [MIX, MIX], [MIX, "stop", "start"], ["start-concurrent", MIX], [MIX, "stop-concurrent"]):
        for _ in range(2 if ck.quick else 8):
            lifejobs.append({"id": len(lifejobs), "ops": ops, "rounds": 1500 if ck.quick else 10000})
    lres, ldead = common.run_jobs(hb, "cleaner-life", lifejobs, procs=8)
    for j in lifejobs:
        r = lres.get(j["id"])
        if r is None:
            continue
        ck.count("life:" + ",".join(j["ops"]), len(j["ops"]) >= 2, tags=["cleaner-lifecycle"])
        obs = "; ".join("(%s, %d)" % (vlib.coq_bool(s["running"]), s["goroutines"]) for s in r["steps"])
        lifeterms.append("(%d, [%s], [%s])" % (j["id"], "; ".join(vlib.coq_bool(o.startswith("start")) for o in j["ops"]), obs))
        for o, s in zip(j["ops"], r["steps"]):
            if s["goroutines"] > 1:
                failing.append(({"ops": j["ops"], "observed": r["steps"]}, "more than one cleanup goroutine alive"))
            if o.startswith("stop") and (s["running"] or s["goroutines"] != 0):
                failing.append(({"ops": j["ops"], "observed": r["steps"]}, "cleanup goroutine not terminated by stop (leak)"))
            if o.startswith("start") and (not s["running"] or s["goroutines"] != 1):
                failing.append(({"ops": j["ops"], "observed": r["steps"]}, "using the cache did not leave exactly one cleanup goroutine"))
    ck.sample({"cleaner_ops": opsets[-1]})

    # free-running stress (no scheduler: the scheduler only ever resumes a waiter once its leader is done, so a
    # waiter that does not wait would go unnoticed under it)
    stress = [{"id": i, "docs": docs, "n": n, "reps": 25, "cache": True}
              for i, (n, docs) in enumerate([(16, [cl.DOCS[0]]), (16, [cl.DOCS[0], cl.DOCS[2]]), (8, [cl.DOCS[3], cl.DOCS[0]])])]
    for rep in range(4 if ck.quick else 20):
        sres, sdead = common.run_jobs(hb, "conc", stress, procs=3, timeout=600)
        for j in stress:
            r = sres.get(j["id"])
            ck.count("stress:%d:%d" % (j["id"], rep), True, tags=["free-running-stress"])
            if r and r["contaminated"]:
                failing.append(({"goroutines": j["n"], "docs": j["docs"], "first": r["first"]},
                                "free-running stress: %d of %d cached results differ from the solo result" % (r["contaminated"], r["runs"])))
        for j, rc, se in sdead:
            failing.append(({"goroutines": j["n"], "docs": j["docs"]}, "free-running stress: process died: " + se[-400:]))

    # free-running stress under the race detector (the cached AST is shared by all goroutines: any write while rendering is a race)
    if True:
        hbr, msgr = vlib.build_harness(race=True)
        stress = [{"id": i, "docs": [cl.DOCS[0], cl.DOCS[8], cl.DOCS[2], cl.DOCS[3], cl.DOCS[8]], "n": n, "reps": 30 if not ck.quick else 8, "cache": True}
                  for i, n in enumerate([2, 4, 8, 16, 16, 16] if not ck.quick else [4, 8])]
        sres, sdead = common.run_jobs(hbr, "conc", stress, procs=3, timeout=1500)
        for j in stress:
            r = sres.get(j["id"])
            if r and r["contaminated"]:
                failing.append(({"goroutines": j["n"], "docs": j["docs"]}, "stress: %d results differ from the solo result" % r["contaminated"]))
        for j, rc, se in sdead:
            failing.append(({"goroutines": j["n"]}, ("DATA RACE: " if "DATA RACE" in se else "stress process died: ") + se[-500:]))
        ck.cov["race_stress_runs"] = sum((sres.get(j["id"]) or {}).get("runs", 0) for j in stress)
        # cold: the very first compilations of a fresh process run concurrently on the AST the leader has just cached
        for k in range(8 if ck.quick else 30):
            j = {"id": 0, "docs": [cl.DOCS[8], cl.DOCS[8], cl.DOCS[2]][: 2 + k % 2], "n": 8, "reps": 3, "cache": True, "cold": True}
            rc, r, se = vlib.harness(hbr, "conc", [j], timeout=300)
            ck.count("race-cold:%d" % k, True, tags=["race-cold-start"])
            if "DATA RACE" in se or not r:
                failing.append(({"goroutines": 8, "docs": j["docs"], "cold_start": True}, ("DATA RACE: " if "DATA RACE" in se else "stress process died: ") + se[:1500]))
            elif r[0]["contaminated"]:
                failing.append(({"goroutines": 8, "docs": j["docs"], "cold_start": True, "first": r[0]["first"]}, "cold start: %d results differ from the solo result" % r[0]["contaminated"]))

    ck.cov["rule"] = ("controlled schedules of N in {2..8} goroutines compiling equal / different / unparsable templates with the cache on, "
                      "initial cache empty / fresh / expired, optional expiry in mid-schedule; scheduling: all pick lists of length %d for two "
                      "goroutines on one template (exhaustive), seeded uniform and PCT-style priority schedules; cleanup lifecycle: start/stop "
                      "(sequential and 8-way concurrent) sequences up to length 4. Non-trivial: schedule with >= 1 context switch; distinct by "
                      "(templates, initial cache, executed schedule)." % (8 if ck.quick else 13))
    mism, lifem, errs = ([], [], [])
    if ok:
        mism, lifem, errs = model_mismatches(terms, lifeterms)
    ck.cov["traces_validated_against_impl"] = len(terms) - len(mism) if ok and not errs else 0
    ck.cov["model_mismatches"] = len(mism) + len(lifem)
    if common.report(ck, failing, ok, mlog, "coq/Properties/C15.v (cone) no longer compiles"):
        return
    if errs or mism or lifem:
        byid = {j["id"]: j for j in jobs}
        ex = [{"threads": byid[i]["threads"], "cached": byid[i]["cached"], "trace": res[i]["trace"], "first_differing_step": st} for i, st in mism[:3]]
        ck.violation({"kind": "correspondence-broken", "what": "Cache.ConcCheck: the interleaving model rejects or mispredicts executed "
                      "schedules (or the lifecycle model mispredicts start/stop sequences) although no model-free expectation failed",
                      "examples": ex, "lifecycle_cases": [lifejobs[i]["ops"] for i in lifem[:3]], "evaluation_errors": errs[:2]}, no_input=True)


def replay(ck, path):
    rp = json.load(open(path))
    hb, msg = vlib.build_harness()
    inp = rp["input"]
    ck.count(json.dumps(inp, sort_keys=True))
    ck.cov["distinct_nontrivial"] = 2
    if "threads" in inp:
        j = {"id": 0, "docs": DOCS, "threads": inp["threads"], "cached": inp.get("cached", []), "strategy": "first",
             "picks": inp.get("schedule", inp.get("picks", [])), "pct_d": 0, "seed": 1}
        res, dead = common.run_jobs(hb, "sched", [j])
        r = res.get(0)
        why = oracle(j, r) if r else "process died"
        print(json.dumps({"observed": r, "verdict": why or "holds"})[:3000])
        if why:
            ck.violation({"kind": "replayed", "why": why, "input": inp})
    else:
        res, dead = common.run_jobs(hb, "cleaner-life", [{"id": 0, "ops": inp["ops"]}])
        print(res.get(0))
