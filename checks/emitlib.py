"""Skeleton correspondence (C02, C03): documents of the core grammar of coq/Skel/Emit.v, rendered by the implementation;
the erased lexing of each real body must equal the model's emission token for token (Skel.Emit.skel_mismatches under vm_compute)."""
import concurrent.futures
import re

import vlib
from checks import common

LEAF = {   # %s = the leaf's content (a sentinel)
    "KText": ['<mj-text>%s</mj-text>', '<mj-text color="#112233" padding="3px 7px">%s</mj-text>', '<mj-text align="right" font-size="20px">%s</mj-text>'],
    "KDivider": ['<mj-divider/>', '<mj-divider border-width="2px" border-color="red" padding="1px"/>'],
    "KSpacer": ['<mj-spacer height="5px"/>', '<mj-spacer/>'],
    "KImage": ['<mj-image src="a.png"/>', '<mj-image src="https://x/a.png" alt="a" width="50px" padding="0"/>'],
    "KImageLink": ['<mj-image src="a.png" href="h"/>', '<mj-image src="a.png" href="https://x/" target="_blank" border-radius="3px"/>'],
    "KButton": ['<mj-button>%s</mj-button>', '<mj-button background-color="#123456" color="white" inner-padding="1px 2px">%s</mj-button>'],
    "KButtonLink": ['<mj-button href="x">%s</mj-button>', '<mj-button href="https://x/" border-radius="0" align="left">%s</mj-button>'],
}
WITH_TEXT = ("KText", "KButton", "KButtonLink")
SEC_ATTRS = ["", "", ' padding="0"', ' background-color="#eeeeee"', ' padding="10px 30px" text-align="left"', ' border="1px solid #000"', ' direction="rtl"']
COL_ATTRS = ["", "", ' width="50%"', ' background-color="#fff" vertical-align="middle"', ' css-class="cc"', ' width="120px"']   # column padding / border add a gutter table: outside the modelled grammar
WRAP_ATTRS = ["", "", ' padding="0"', ' background-color="#dddddd"', ' padding="10px 20px"', ' border="2px solid #000"']
GROUP_ATTRS = ["", "", ' width="50%"', ' vertical-align="middle"', ' background-color="#abc"']


def gen_doc(rng):
    """-> (coq term of type Skel.Emit.body, mjml source, feature tags)"""
    tags = set()

    sent = [0]
    used_classes = [False]

    def stext():
        sent[0] += 1
        return "S%dX" % sent[0]

    def raw():
        """balanced author HTML: (coq token list, mjml source)"""
        tags.add("mj-raw")
        t = stext()
        shape = rng.choice(["i", "div-p", "text", "br"])
        if shape == "i":
            return '[o "i"; tx (lit "%s"); c "i"]' % t, "<mj-raw><i>%s</i></mj-raw>" % t
        if shape == "div-p":
            return '[o "div"; o "p"; tx (lit "%s"); c "p"; c "div"]' % t, '<mj-raw><div class="r"><p>%s</p></div></mj-raw>' % t
        if shape == "br":
            return '[tx (lit "%s"); o "br"; o "b"; c "b"]' % t, "<mj-raw>%s<br/><b></b></mj-raw>" % t
        return '[tx (lit "%s")]' % t, "<mj-raw>%s</mj-raw>" % t

    def opt(f):
        """(coq option term, source) for an optional piece of author content"""
        if rng.random() < 0.75:
            t = stext()
            return '(Some (lit "%s"))' % t, f(t)
        return "None", f("")

    def composite():
        k = rng.choice(["table", "social", "navbar", "accordion", "carousel"])
        tags.add("mj-" + k)
        if k == "carousel":
            n = rng.choice([1, 2, 3, 4])
            thumbs = rng.random() < 0.6
            return ("KCarousel %s %d" % ("true" if thumbs else "false", n - 1),
                    "<mj-carousel%s>%s</mj-carousel>" % ("" if thumbs else ' thumbnails="hidden"', '<mj-carousel-image src="https://x/a.png"/>' * n))
        if k == "table":
            t = stext()
            return ('KTable [o "tr"; o "td"; tx (lit "%s"); c "td"; c "tr"]' % t), "<mj-table><tr><td>%s</td></tr></mj-table>" % t
        if k == "social":
            vert = rng.random() < 0.4
            els = []
            for _ in range(rng.choice([0, 1, 2, 3])):
                link = rng.random() < 0.4
                t, m = opt(lambda x: '<mj-social-element name="%s"%s>%s</mj-social-element>' % (rng.choice(["facebook", "twitter", "github"]), ' href="https://x/p"' if link else "", x))
                els.append(("(%s, %s)" % ("true" if link else "false", t), m))
            return ("KSocial %s [%s]" % ("true" if vert else "false", "; ".join(t for t, _ in els)),
                    "<mj-social%s>%s</mj-social>" % (' mode="vertical"' if vert else rng.choice(["", ' icon-size="30px"']), "".join(m for _, m in els)))
        if k == "navbar":
            ham = rng.random() < 0.4
            links = []
            for _ in range(rng.choice([0, 1, 2, 3])):
                t = stext()
                links.append(('(lit "%s")' % t, '<mj-navbar-link href="https://x/">%s</mj-navbar-link>' % t))
            return ("KNavbar %s [%s]" % ("true" if ham else "false", "; ".join(t for t, _ in links)),
                    "<mj-navbar%s>%s</mj-navbar>" % (' hamburger="hamburger"' if ham else "", "".join(m for _, m in links)))
        els = []
        for _ in range(rng.choice([0, 1, 2])):
            tt, tm = (opt(lambda x: "<mj-accordion-title>%s</mj-accordion-title>" % x)) if rng.random() < 0.8 else ("None", "")
            xt, xm = (opt(lambda x: "<mj-accordion-text>%s</mj-accordion-text>" % x)) if rng.random() < 0.8 else ("None", "")
            # an element written with an empty title / text still renders the (empty) cell: only absent children are None
            if tt == "None" and tm:
                tt = '(Some (lit ""))'
            if xt == "None" and xm:
                xt = '(Some (lit ""))'
            els.append(("(%s, %s)" % (tt, xt), "<mj-accordion-element>%s%s</mj-accordion-element>" % (tm, xm)))
        return "KAccordion [%s]" % "; ".join(t for t, _ in els), "<mj-accordion>%s</mj-accordion>" % "".join(m for _, m in els)

    def leaf(in_hero=False):
        x = rng.random()
        if x < 0.1:
            t, m = raw()
            return "KRaw %s" % t, m
        if x < 0.3 and not in_hero:
            return composite()
        k = rng.choice(list(LEAF))
        m = rng.choice(LEAF[k])
        if k in WITH_TEXT:
            t = stext()
            return '%s (lit "%s")' % (k, t), m % t
        return k, m

    def col():
        ks = [leaf() for _ in range(rng.choice([0, 1, 1, 2, 3]))]
        gutter = rng.random() < 0.25
        attrs = rng.choice(COL_ATTRS) + (rng.choice([' padding="5px"', ' padding-left="10px"', ' padding="0 20px"']) if gutter else "")
        if gutter:
            tags.add("column-gutter")
        return ("CI (%s, [%s])" % ("true" if gutter else "false", "; ".join(t for t, _ in ks)), "<mj-column%s>%s</mj-column>" % (attrs, "".join(m for _, m in ks)))

    def items(maxn):
        out = []
        for _ in range(rng.choice(list(range(maxn + 1)))):
            if rng.random() < 0.15:
                t, m = raw()
                out.append(("RI %s" % t, m))
            else:
                out.append(col())
        return out

    def mixed():
        """columns and groups side by side in one section, mj-raw anywhere; now and then groups and mj-raw only (the shared Outlook row with no column)"""
        if rng.random() < 0.25:
            kinds = ["G", "R"] + [rng.choice(["G", "R"]) for _ in range(rng.choice([0, 1, 2]))]
            tags.add("groups-and-raw")
        else:
            kinds = ["C", "G"] + [rng.choice(["C", "G", "R"]) for _ in range(rng.choice([0, 1, 2, 3]))]
        rng.shuffle(kinds)
        out = []
        for k in kinds:
            if k == "C":
                c_, m_ = col()
                out.append(("MC " + c_[3:], m_))
            elif k == "R":
                t, m_ = raw()
                out.append(("MR %s" % t, m_))
            else:
                g = items(3)
                out.append(("MG [%s]" % "; ".join(c_ for c_, _ in g), "<mj-group%s>%s</mj-group>" % (rng.choice(GROUP_ATTRS), "".join(m_ for _, m_ in g))))
        tags.add("mixed-columns-and-groups")
        return "Mixed [%s]" % "; ".join(c_ for c_, _ in out), "".join(m_ for _, m_ in out)

    def sec():
        if rng.random() < 0.15:
            return mixed()
        if rng.random() < 0.7:
            cs = items(4)
            tags.add("columns:%d" % len(cs))
            return "Cols [%s]" % "; ".join(c for c, _ in cs), "".join(m for _, m in cs)
        gs = [items(3) for _ in range(rng.choice([1, 1, 2, 3]))]
        tags.add("groups:%d" % len(gs))
        return ("Groups [%s]" % "; ".join("[" + "; ".join(c for c, _ in g) + "]" for g in gs),
                "".join("<mj-group%s>%s</mj-group>" % (rng.choice(GROUP_ATTRS), "".join(m for _, m in g)) for g in gs))

    def sect(extra=""):
        c, m = sec()
        bg = rng.random() < 0.25
        if bg:
            tags.add("background-url")
        # the attributes that decide the structure reach the element directly or through an mj-class (defined in the head below)
        classes, direct = [], ""
        for present, cls, attr in ((bool(extra), "fwc", extra), (bg, "bgc", ' background-url="https://x/b.png"')):
            if present:
                if rng.random() < 0.3:
                    classes.append(cls)
                    tags.add("structure-via-mj-class")
                    used_classes[0] = True
                else:
                    direct += attr
        if classes:
            direct += ' mj-class="%s"' % " ".join(classes)
        return ("(%s, %s)" % ("true" if bg else "false", c),
                "<mj-section%s%s>%s</mj-section>" % (direct, rng.choice(SEC_ATTRS), m))

    def block():
        x = rng.random()
        if x < 0.42:
            c, m = sect()
            tags.add("plain-section")
            return "Plain %s" % c, m
        if x < 0.57:
            c, m = sect(' full-width="full-width"')
            tags.add("full-width-section")
            return "FullWidth %s" % c, m
        if x < 0.68:
            ks = [leaf(in_hero=True) for _ in range(rng.choice([0, 1, 2, 3]))]      # components with grandchildren inside a hero: listed C04 / C17 finding
            tags.add("hero")
            return "Hero [%s]" % "; ".join(t for t, _ in ks), "<mj-hero%s>%s</mj-hero>" % (rng.choice(["", ' background-color="#222"', ' mode="fixed-height" height="300px"']), "".join(m for _, m in ks))
        if x < 0.76:
            t, m = raw()
            return "Raw %s" % t, m
        ws = []
        for _ in range(rng.choice([0, 1, 2, 3, 4])):
            if rng.random() < 0.2:
                t, m = raw()
                ws.append(("WR %s" % t, m))
            else:
                c, m = sect()
                ws.append(("WS %s" % c, m))
        tags.add("wrapper:%d" % len(ws))
        if rng.random() < 0.3:
            tags.add("full-width-wrapper")
            fw = ' full-width="full-width"'
            if rng.random() < 0.3:
                fw = ' mj-class="fwc"'
                tags.add("structure-via-mj-class")
                used_classes[0] = True
            return ("FullWrap [%s]" % "; ".join(c for c, _ in ws), '<mj-wrapper%s%s>%s</mj-wrapper>' % (fw, rng.choice(WRAP_ATTRS), "".join(m for _, m in ws)))
        return ("Wrap [%s]" % "; ".join(c for c, _ in ws), "<mj-wrapper%s>%s</mj-wrapper>" % (rng.choice(WRAP_ATTRS), "".join(m for _, m in ws)))
    bs = [block() for _ in range(rng.choice([0, 1, 2, 3, 4, 5, 6]))]
    tags.add("blocks:%d" % len(bs))
    head = ('<mj-head><mj-attributes><mj-class name="fwc" full-width="full-width" /><mj-class name="bgc" background-url="https://x/b.png" /></mj-attributes></mj-head>'
            if used_classes[0] else "")
    return "[%s]" % "; ".join(c for c, _ in bs), "<mjml>%s<mj-body>%s</mj-body></mjml>" % (head, "".join(m for _, m in bs)), sorted(tags)


def tie(ck, hb, failing, ok, n):
    rng = ck.rng
    docs = [gen_doc(rng) for _ in range(n)]
    res, dead = common.run_jobs(hb, "render", [{"id": i, "src": d[1]} for i, d in enumerate(docs)])
    rows = []
    for i, (term, src, tags) in enumerate(docs):
        r = res.get(i)
        if not r or r["err"]["class"] != "none" or not r.get("html"):
            continue
        rows.append((i, term, r["html"]))
        ck.count("core:" + src, len(tags) >= 3, tags=["core-grammar"] + tags)
    mism, tmism, errs = [], [], []
    if ok and rows:
        shards = [rows[k:k + 20] for k in range(0, len(rows), 20)]

        def work(a):
            k, sh = a
            body = ("From Coq Require Import List String.\nFrom GV Require Import Base.Bytes Skel.Emit.\nImport ListNotations.\nOpen Scope string_scope.\n"
                    "Definition cases : list (nat * body * bytes) := [\n" +
                    ";\n".join("(%d, %s, lit %s)" % (i, t, vlib.coq_string(h)) for i, t, h in sh) + "].\n"
                    "Definition M := Eval vm_compute in (skel_mismatches cases, text_mismatches cases).\nPrint M.\n")
            eok, so, se, dt = vlib.coq_eval("emit_%s_%d" % (ck.pid, k), body)
            flat = so.replace("\n", " ")
            m = re.search(r"M\s*=\s*\((\[.*?\]),\s*(\[.*?\])\)\s*:", flat) if eok else None
            if not m:
                return None, (se or so)[-400:]
            return ([(int(a_), int(b_)) for a_, b_ in re.findall(r"\((\d+),\s*(\d+)\)", m.group(1))], [int(x) for x in re.findall(r"\d+", m.group(2))]), ""
        with concurrent.futures.ThreadPoolExecutor(16) as ex:
            for m, e in ex.map(work, list(enumerate(shards))):
                if m is None:
                    errs.append(e)
                else:
                    mism += m[0]
                    tmism += m[1]
    ck.cov["skeleton_cases_evaluated_in_coq"] = len(rows) if not errs else 0
    for i, k in mism[:3]:
        failing.append(({"src": docs[i][1], "model_document": docs[i][0], "first_differing_token": k},
                        "the erased token stream of the real body differs from the skeleton model Skel.Emit.emit_body (the model or the code changed)"))
    for i in tmism[:3]:
        failing.append(({"src": docs[i][1], "model_document": docs[i][0]},
                        "the text a reading of the real output shows differs from Skel.Emit.body_texts (content lost, duplicated, reordered or visible to one reading only)"))
    if errs:
        failing.append(({}, "evaluation of Skel.Emit cases failed: " + errs[0]))
    return len(rows), len(mism) + len(tmism)
