"""C04 — content fidelity: author content appears once, in order, as authored.

Theorems: coq/Properties/C04.v (text of the standard reading composes; Outlook-only text is invisible; refutations on the
parser and factory models).  Tie (H): documents carrying a unique sentinel in every content slot; the text a standard
client shows is computed by the extracted Coq function view_texts Std on the real output; every sentinel must occur
exactly once, in document order, and never only in the Outlook reading; escaped markup must stay character data.
"""
import json
import re

import docgen
import vlib
from checks import common
from checks.c17 import N

SENT = re.compile(r"S\d+X")


def expected_order(src):
    return SENT.findall(src)


def judge(src, std, mso):
    """-> reason or None"""
    want = expected_order(src)
    if std is None:
        return "standard reading malformed"
    got = []
    for t in std:
        got += SENT.findall(t)
    if got == want:
        return None
    msoall = []
    for t in (mso or []):
        msoall += SENT.findall(t)
    for s in want:
        c = got.count(s)
        if c == 0 and s in msoall:
            return "content %s is only inside an Outlook-only comment (hidden from standard clients)" % s
        if c == 0:
            return "content %s lost silently (rendered nowhere, no error returned)" % s
        if c > 1:
            return "content %s appears %d times" % (s, c)
    if sorted(got) == sorted(want):
        return "content out of document order"
    return "unexpected content"


def placements():
    """every content-bearing component in every container MJML allows it in"""
    leaves = {
        "mj-text": lambda s: N("mj-text", text=s),
        "mj-button": lambda s: N("mj-button", {"href": "https://x"}, text=s),
        "mj-table": lambda s: N("mj-table", text="<tr><td>%s</td></tr>" % s),
        "mj-raw": lambda s: N("mj-raw", text="<p>%s</p>" % s),
        "mj-social": lambda s: N("mj-social", kids=[N("mj-social-element", {"name": "facebook"}, text=s)]),
        "mj-navbar": lambda s: N("mj-navbar", kids=[N("mj-navbar-link", {"href": "https://x"}, text=s)]),
        "mj-accordion": lambda s: N("mj-accordion", kids=[N("mj-accordion-element", kids=[N("mj-accordion-title", text=s), N("mj-accordion-text", text="S9999X")])]),
    }
    conts = {
        "column": lambda x: N("mj-section", kids=[N("mj-column", kids=[x])]),
        "two-columns": lambda x: N("mj-section", kids=[N("mj-column", kids=[N("mj-text", text="S7001X")]), N("mj-column", kids=[x])]),
        "group": lambda x: N("mj-section", kids=[N("mj-group", kids=[N("mj-column", kids=[x])])]),
        "wrapper": lambda x: N("mj-wrapper", kids=[N("mj-section", kids=[N("mj-column", kids=[x])])]),
        "hero": lambda x: N("mj-hero", kids=[x]),
        "between-sections": None,
    }
    out = []
    # mj-raw among the links of a navbar (MJML renders it)
    out.append(("navbar>mj-raw", docgen.to_mjml(N("mjml", kids=[N("mj-body", kids=[conts["column"](N("mj-navbar", kids=[
        N("mj-navbar-link", {"href": "https://x"}, text="S7004X"), N("mj-raw", text="<p>S1X</p>")]))])]))))
    for ln, lf in leaves.items():
        for cn, cf in conts.items():
            if cn == "between-sections":
                if ln != "mj-raw":
                    continue
                sec = lambda t: N("mj-section", kids=[N("mj-column", kids=[N("mj-text", text=t)])])
                body = [sec("S7002X"), lf("S1X"), sec("S7003X")]
            else:
                body = [cf(lf("S1X"))]
            d = N("mjml", kids=[N("mj-body", kids=body)])
            out.append(("%s>%s" % (cn, ln), docgen.to_mjml(d)))
    out.append(("column>mj-social[custom-network]", docgen.to_mjml(N("mjml", kids=[N("mj-body", kids=[conts["column"](
        N("mj-social", kids=[N("mj-social-element", {"name": "custom"}, text="S1X")]))])]))))
    return out


ESCAPES = [("lt-gt", "1 &lt;b&gt;S1X&lt;/b&gt; 2"), ("amp", "a &amp; S1X"), ("numeric", "&#60;i&#62;S1X"), ("quot", "say &quot;S1X&quot;"), ("amp-lt", "&amp;lt;S1X")]


def escape_cases():
    out = []
    for tag in ("mj-text", "mj-button", "mj-navbar-link", "mj-social-element", "mj-accordion-title", "mj-accordion-text", "mj-table", "mj-title", "mj-preview"):
        for name, txt in ESCAPES:
            if tag == "mj-table":
                txt2 = "<tr><td>%s</td></tr>" % txt
            else:
                txt2 = txt
            leaf = N(tag, text=txt2)
            if tag in ("mj-title", "mj-preview"):
                d = N("mjml", kids=[N("mj-head", kids=[leaf]), N("mj-body", kids=[N("mj-section", kids=[N("mj-column", kids=[N("mj-text", text="x")])])])])
            else:
                wrap = {"mj-navbar-link": lambda x: N("mj-navbar", kids=[x]), "mj-social-element": lambda x: N("mj-social", kids=[dict(x, attrs={"name": "facebook"})]),
                        "mj-accordion-title": lambda x: N("mj-accordion", kids=[N("mj-accordion-element", kids=[x, N("mj-accordion-text", text="t")])]),
                        "mj-accordion-text": lambda x: N("mj-accordion", kids=[N("mj-accordion-element", kids=[N("mj-accordion-title", text="t"), x])])}.get(tag, lambda x: x)
                d = N("mjml", kids=[N("mj-body", kids=[N("mj-section", kids=[N("mj-column", kids=[wrap(leaf)])])])])
            out.append(("%s:%s" % (tag, name), docgen.to_mjml(d), name))
    return out


def judge_escape(name, html, std_toks):
    """escaped markup must still be character data: the sentinel must not sit inside an element the author only spelled as text"""
    if name in ("lt-gt", "numeric"):
        tagname = "b" if name == "lt-gt" else "i"
        # the author wrote no <b>/<i> element at all: any such element in the output was made from character data
        for t in std_toks:
            if t[0] == "O" and t[1] == tagname:
                return "escaped markup became a real <%s> element" % tagname
    return None


def run(ck):
    ck.cov["trusted_base"] = vlib.TRUSTED_COMMON + [
        "the lexer and the standard reading (Base.Tok) model what a standard mail client displays",
        "extraction and the OCaml driver; the generator places exactly one sentinel per content slot",
    ]
    ck.assumptions = ["author HTML in the generated documents is balanced; sentinels are ASCII tokens S<n>X that no component emits by itself"]
    ok, mlog = common.prove_with_facts(ck, "Properties/C04.v")
    hb, msg = vlib.build_harness()
    mr, msgm = vlib.build_model_runner()
    if not hb or not mr:
        ck.violation({"kind": "build-failed", "log": (msg + msgm)[-2000:]}, no_input=True)
        return
    known = {k["id"]: k for k in vlib.known_findings("C04")}
    announced = set()
    failing = []

    def run_docs(cases):
        """cases: (label, src) -> list of (label, src, result, std_texts, mso_texts)"""
        res, dead = common.run_jobs(hb, "render", [{"id": i, "src": s} for i, (l, s) in enumerate(cases)])
        htmls = [(res.get(i) or {}).get("html", "") for i in range(len(cases))]
        std = vlib.model_run(mr, [("stdtexts", h.encode()) for h in htmls])
        mso = vlib.model_run(mr, [("msotexts", h.encode()) for h in htmls])
        return [(cases[i][0], cases[i][1], res.get(i), std[i], mso[i]) for i in range(len(cases))]

    # 1. placements (exhaustive)
    for label, src, r, std, mso in run_docs(placements()):
        ck.count("placement:" + label, True, tags=["placement", "container:" + label.split(">")[0]])
        if r is None:
            continue
        if r["err"]["class"] == "error":
            why = "a structurally valid document is rejected: %s" % r["err"]["text"][:120]
        elif r["err"]["class"] == "panic":
            why = "panic"
        else:
            why = judge(src, std, mso)
        if why:
            kid = "placement:" + label
            if kid in known:
                if kid not in announced:
                    announced.add(kid)
                    ck.known("%s: %s" % (kid, known[kid]["what"]))
            else:
                failing.append(({"placement": label, "src": src}, why))
    # 2. escaped markup / entity spellings (exhaustive)
    ec = escape_cases()
    rows = run_docs([(l, s) for l, s, _ in ec])
    toks = vlib.model_run(mr, [("lex", ((r[2] or {}).get("html", "")).encode()) for r in rows])
    for (label, src, name), (_, _, r, std, mso), tk in zip(ec, rows, toks):
        ck.count("escape:" + label, True, tags=["entity-spelling", "spelling:" + name])
        if r is None:
            continue
        if r["err"]["class"] == "error":
            why = "a valid document with an escaped character is rejected: %s" % r["err"]["text"][:100]
        else:
            why = judge(src, std, mso) or judge_escape(name, r["html"], vlib.parse_toks(tk))
        if why:
            kid = "escape:" + label
            if kid in known:
                if kid not in announced:
                    announced.add(kid)
                    ck.known("%s: %s" % (kid, known[kid]["what"]))
            else:
                failing.append(({"case": label, "src": src}, why))
    # 3. generated sentinel documents
    g = docgen.Gen(ck.rng, attr_prob=0.15)
    cases = []
    for _ in range(500 if ck.quick else 15000):
        d = g.document()
        cases.append(("generated", docgen.to_mjml(d)))
    for n, s in common.fixture_docs(6 if ck.quick else 1):
        pass
    for label, src, r, std, mso in run_docs(cases):
        if r is None or r["err"]["class"] != "none":
            continue
        ck.count(src, len(expected_order(src)) >= 4, tags=["generated", "slots:%d" % min(len(expected_order(src)) // 4 * 4, 24)])
        why = judge(src, std, mso)
        if why:
            failing.append(({"src": src, "expected_order": expected_order(src)}, why))
    ck.sample({"sentinel_document": cases[0][1][:400], "expected_order": expected_order(cases[0][1])})
    ck.cov["rule"] = ("(1) every content-bearing component (text, button, table, raw, social element, navbar link, accordion title/text) in every container "
                      "MJML allows (column, second column, group, wrapper, hero; raw also between sections) - exhaustive; (2) 5 entity spellings x 9 content "
                      "slots incl. title and preview - exhaustive; (3) generated full-grammar documents with a unique sentinel per slot. Judged on the "
                      "text of the standard reading computed by the extracted Coq function. Non-trivial: >= 4 slots (all matrix cases count).")
    from checks import emitlib
    emitlib.tie(ck, hb, failing, ok, 160 if ck.quick else 4000)
    common.report(ck, failing, ok, mlog, "coq/Properties/C04.v (cone) no longer compiles", limit=5, key=lambda w: w)


def replay(ck, path):
    rp = json.load(open(path))
    hb, _ = vlib.build_harness()
    mr, _ = vlib.build_model_runner()
    src = rp["input"]["src"]
    res, dead = common.run_jobs(hb, "render", [{"id": 0, "src": src}])
    h = res[0]["html"]
    std = vlib.model_run(mr, [("stdtexts", h.encode())])[0]
    mso = vlib.model_run(mr, [("msotexts", h.encode())])[0]
    why = judge(src, std, mso)
    ck.count(src)
    ck.cov["distinct_nontrivial"] = 2
    print(why or "content appears once, in order")
    if why:
        ck.violation({"kind": "replayed", "why": why, "input": rp["input"]})
