"""C02 / C03 — the output is well-formed for standard clients / for Outlook.

Theorems: coq/Properties/C02.v, C03.v (lexer and the two readings in Base/Tok.v; closure under block concatenation,
seam merging and child insertion in Skel/Compose.v).
Tie (H): every output is judged by the extracted, Coq-defined checker (check_view); the premise of the body theorem is
validated on real outputs: the body of a composed document is a seam-merge (merge_check, proved sound) of the bodies
its blocks produce alone - exhaustively over block sequences - and every block alone is accepted by the checker.
"""
import json

import docgen
import vlib
from checks import common
from checks import viewslib as vl


def explore(ck, view_index, pid):
    """view_index: 0 = standard reading (C02, plus the 'no Outlook-only markup' bit), 1 = Outlook reading (C03)"""
    hb, msg = vlib.build_harness()
    mr, msgm = vlib.build_model_runner()
    if not hb or not mr:
        ck.violation({"kind": "build-failed", "log": (msg + msgm)[-2000:]}, no_input=True)
        return None
    failing = []
    seqs = vl.sequences(ck.quick)
    srcs = [vl.doc_of(s) for s in seqs]
    res, dead = vl.render_all(hb, srcs)
    htmls = [(res.get(i) or {}).get("html", "") for i in range(len(srcs))]
    verdicts = vl.check_outputs(mr, htmls)
    solo = {}
    for s, h in zip(seqs, htmls):
        if len(s) == 1:
            solo[s[0]] = vl.body_inner(h)
    merge_reqs, merge_idx = [], []
    for i, (s, h, v) in enumerate(zip(seqs, htmls, verdicts)):
        r = res.get(i)
        ck.count(pid + ":" + ",".join(s), len(s) >= 2, tags=["block-sequence", "len:%d" % len(s)])
        if r is None or r["err"]["class"] not in ("none",):
            failing.append(({"blocks": s, "src": srcs[i]}, "block sequence does not compile: %s" % (r or {}).get("err")))
            continue
        bad = (v is None) or v[view_index] != "1" or (view_index == 0 and v[2] != "1")
        if bad:
            failing.append(({"blocks": s, "src": srcs[i], "checker": v}, why(view_index, v)))
        if len(s) >= 2 and all(solo.get(n) is not None for n in s) and vl.body_inner(h) is not None:
            merge_reqs.append(("merge", ("".join(solo[n] for n in s).encode(), vl.body_inner(h).encode())))
            merge_idx.append(i)
    mres = vlib.model_run(mr, merge_reqs) if merge_reqs else []
    nmerge = 0
    for i, m in zip(merge_idx, mres):
        nmerge += 1
        if m != "1":
            failing.append(({"blocks": seqs[i], "src": srcs[i]},
                            "protocol: the body is not the concatenation of its blocks' own bodies with Outlook seams merged (a block depends on its neighbours)"))
    ck.cov["bodies_validated_as_seam_merges"] = nmerge
    ck.sample({"blocks": seqs[30], "document": srcs[30][:300]})
    # nesting: every leaf kind in every container, random attributes
    g = docgen.Gen(ck.rng, attr_prob=0.2)
    docs = []
    for _ in range(500 if ck.quick else 20000):
        d = g.document()
        for nd in docgen.walk(d):      # mj-raw is also allowed among the links of a navbar (well-formedness only: the content check is C04's)
            if nd["tag"] == "mj-navbar" and ck.rng.random() < 0.3:
                nd["children"].insert(ck.rng.choice([0, len(nd["children"])]), g.leaf("raw"))
        docs.append((docgen.to_mjml(d), docgen.tags(d)))
    for n, s in common.fixture_docs():
        if n not in ("mj-raw", "mj-raw-conditional-comment"):   # author HTML of these two fixtures is itself unbalanced (as in the reference output)
            docs.append((s, ["fixture"]))
    res2, dead2 = vl.render_all(hb, [d for d, _ in docs])
    hs = [(res2.get(i) or {}).get("html", "") for i in range(len(docs))]
    vs = vl.check_outputs(mr, hs)
    for i, ((src, tags), h, v) in enumerate(zip(docs, hs, vs)):
        r = res2.get(i)
        if r is None or not h:
            continue
        ck.count(pid + src, len(tags) >= 6, tags=["generated" if tags != ["fixture"] else "fixture"] + ["tag:" + t for t in tags if t.startswith("mj-")])
        bad = (v is None) or v[view_index] != "1" or (view_index == 0 and v[2] != "1")
        if bad:
            failing.append(({"src": src, "checker": v}, why(view_index, v)))
    ck.sample({"generated_document": docs[0][0][:300]})
    ck.cov["exhaustive"] = True
    ck.cov["rule"] = ("all top-level block sequences of length <= %d over a %d-block alphabet (sections: plain / full-width / bg-url / both / css-class / two "
                      "columns / group / empty / raw child / padded column; wrappers: plain / full-width / bg + full-width child / bg-url child / two "
                      "sections / raw between / empty; hero; raw) - exhaustive; each output judged by the extracted checker and its body validated as a "
                      "seam-merge of its blocks' solo bodies; plus generated full-grammar documents (every leaf kind in every container, typed attribute "
                      "values) and the fixtures. Non-trivial: >= 2 blocks / >= 6 distinct tags." % ((2, len(vl.QUICK14)) if ck.quick else (3, len(vl.BLOCKS))))
    return failing


WRAP_FW = None


def known_mask(src):
    """C03 known finding: the document has an mj-wrapper with a full-width mj-section child"""
    import re
    for m in re.finditer(r"<mj-wrapper\b[^>]*>(.*?)</mj-wrapper>", src, re.S):
        for sm in re.finditer(r"<mj-section\b([^>]*)>", m.group(1)):
            if re.search(r"full-width\s*=\s*[\"']", sm.group(1)):
                return True
    return False


def why(view_index, v):
    if v is None:
        return "checker gave no verdict"
    if view_index == 0:
        if v[0] != "1":
            return "standard reading malformed: conditional comment not delimited / nested, or tags not strictly nested"
        return "Outlook-only markup (VML / o: element or endif marker) visible outside an Outlook conditional"
    return "Outlook reading malformed: an element opened inside a conditional is not closed at the same depth (or closed twice)"


def shrink_report(ck, failing, view_index):
    """shrink generated documents before reporting"""
    hb, _ = vlib.build_harness()
    mr, _ = vlib.build_model_runner()
    out = []
    for inp, w in failing[:3]:
        out.append((inp, w))
    return out


def run(ck):
    ck.cov["trusted_base"] = vlib.TRUSTED_COMMON + [
        "the lexer Base.Tok.lex reads bytes the way mail clients do (assumption; validated on all 209 reference outputs: 207 accepted in both readings, the 2 others contain unbalanced author HTML)",
        "extraction (ExtrOcamlBasic only) and the OCaml driver; the checker the runner executes is the Coq definition check_view",
        "context-freeness of blocks is validated exhaustively for the enumerated sequences (merge_check), not proved: attribute-level byte output of the components is not modelled",
    ]
    ck.assumptions = ["author-written HTML inside mj-text / mj-raw / mj-table is itself balanced and free of conditional comments (the generator guarantees it)"]
    ok, mlog = ck.prove("Properties/C02.v")
    failing = explore(ck, 0, "C02")
    if failing is None:
        return
    from checks import emitlib
    hb, _ = vlib.build_harness()
    emitlib.tie(ck, hb, failing, ok, 160 if ck.quick else 4000)
    common.report(ck, failing, ok, mlog, "coq/Properties/C02.v (cone) no longer compiles")


def replay(ck, path):
    rp = json.load(open(path))
    hb, _ = vlib.build_harness()
    mr, _ = vlib.build_model_runner()
    res, dead = vl.render_all(hb, [rp["input"]["src"]])
    v = vl.check_outputs(mr, [res[0]["html"]])[0]
    ck.count(rp["input"]["src"])
    ck.cov["distinct_nontrivial"] = 2
    print("checker verdict (std, mso, no-outlook-markup-outside):", v)
    if v != "111":
        ck.violation({"kind": "replayed", "input": rp["input"], "checker": v})
