"""C11 — the head provides everything the body references (classes, feature CSS, fonts).

Theorems: coq/Properties/C11.v (class-name / width codec round trip; soundness of the Coq-defined relation head_body_ok;
font tracking sites recomputed).  Tie (H): for every generated document the column classes used in the body and the rules
of both media-query blocks are located by the lexer and judged by head_body_ok under vm_compute; feature CSS (accordion,
navbar hamburger, carousel with its identifier, fluid image) present iff the component is rendered; every built-in web
font referenced by an inline style is imported and no unreferenced built-in font is.
"""
import json
import re

import docgen
import vlib
from checks import common
from checks.c17 import N

BUILTIN = {"Ubuntu": "Ubuntu", "Open Sans": "Open+Sans", "Roboto": "Roboto", "Lato": "Lato", "Montserrat": "Montserrat"}
RULE = re.compile(r"\.(mj-column-(?:per|px)-[0-9-]+)\s*\{\s*width:\s*([^ !;]+)\s*!important;\s*max-width:\s*([^;]+);")


def analyse(toks):
    """-> dict(mq1, mq2, used, head_css, body_classes, links, fonts_in_body, ids)"""
    in_head, in_style, style_attrs = False, False, {}
    mq1, mq2, used, links, css_all, body_cls, fonts = [], [], [], [], [], [], []
    in_body = False
    for t in toks:
        if t[0] == "O":
            name, attrs = t[1], dict(t[2])
            if name == "head":
                in_head = True
            if name == "body":
                in_body, in_head = True, False
            if name == "style":
                in_style, style_attrs = True, attrs
            if name == "link" and "href" in attrs:
                links.append(attrs["href"])
            if in_body:
                for c in attrs.get("class", "").split():
                    body_cls.append(c)
                    if c.startswith("mj-column-per-") or c.startswith("mj-column-px-"):
                        used.append(c)
                m = re.search(r"font-family:([^;]+)", attrs.get("style", ""))
                if m:
                    fonts.append(m.group(1))
        elif t[0] == "C":
            if t[1] == "style":
                in_style = False
            if t[1] == "head":
                in_head = False
        elif t[0] == "T" and in_style and not in_body:
            txt = t[1]
            css_all.append(txt)
            for m in re.finditer(r"@import url\(([^)]+)\)", txt):
                links.append(m.group(1))
            if ".moz-text-html" in txt:
                for m in RULE.finditer(txt):
                    mq2.append((m.group(1), m.group(2), m.group(3)))
            elif "@media only screen and (min-width" in txt:
                for m in RULE.finditer(txt):
                    mq1.append((m.group(1), m.group(2), m.group(3)))
    return {"mq1": mq1, "mq2": mq2, "used": used, "css": "\n".join(css_all), "body_classes": body_cls, "links": links, "fonts": fonts}


def features(a, tags):
    """(feature, rendered in body?, css in head?) — as in MJML, a component's head style accompanies every rendered instance
    (the navbar rules also without hamburger mode, the mobile image rules also without fluid-on-mobile)"""
    cls = set(a["body_classes"])
    css = a["css"]
    return [
        ("accordion", "mj-accordion" in cls, "mj-accordion-checkbox" in css),
        ("navbar", "mj-inline-links" in cls, "mj-menu-checkbox" in css),
        ("carousel", "mj-carousel" in cls, ".mj-carousel" in css),
        ("image", "mj-image" in tags or "mj-full-width-mobile" in cls, "mj-full-width-mobile" in css),
    ]


def coq_bytes(s):
    return vlib.coq_string(s)


def judge_fonts(a):
    refs = set()
    for f in a["fonts"]:
        for name in BUILTIN:
            if name.lower() in f.lower():
                refs.add(name)
    imported = set()
    for l in a["links"]:
        for name, key in BUILTIN.items():
            if ("family=" + key) in l:
                imported.add(name)
    missing = refs - imported
    unused = imported - refs
    return missing, unused


FONTS = docgen.FONTS + ["Custom, Arial", "'Open Sans', Helvetica, Arial, sans-serif", "Georgia, 'Lato', serif", "'Montserrat', sans-serif"]
TEXTY = ("mj-text", "mj-button", "mj-social", "mj-social-element", "mj-navbar", "mj-navbar-link", "mj-accordion", "mj-accordion-element",
         "mj-accordion-title", "mj-accordion-text", "mj-table")


def fontify(d, rng):
    """put font families on components, in mj-attributes (per tag, mj-all, mj-class) and widths on columns / groups"""
    wclasses = False
    for n in docgen.walk(d):
        if n["tag"] == "mj-column" and rng.random() < 0.4:
            n["attrs"]["width"] = rng.choice(["50%", "33.33%", "25%", "100px", "150px", "40%", "60%", "12.5%", "66.666%"])
        if n["tag"] == "mj-column" and "width" not in n["attrs"] and "mj-class" not in n["attrs"] and rng.random() < 0.2:
            n["attrs"]["mj-class"] = rng.choice(["wc30", "wc70", "wc120"])      # the width reaches the column through an mj-class
            wclasses = True
        if n["tag"] == "mj-group" and rng.random() < 0.5:
            n["attrs"]["width"] = rng.choice(["100%", "300px", "50%", "40%"])
        if n["tag"] in TEXTY and rng.random() < 0.3:
            n["attrs"]["font-family"] = rng.choice(FONTS)
        if n["tag"] in ("mj-text", "mj-button") and rng.random() < 0.15:
            n["attrs"]["mj-class"] = "fc1"
        if n["tag"] == "mj-image" and rng.random() < 0.2:
            n["attrs"]["fluid-on-mobile"] = "true"
        if n["tag"] == "mj-social-element" and rng.random() < 0.8:
            n["attrs"].setdefault("name", rng.choice(["twitter", "facebook", "github"]))
        if n["tag"] == "mj-navbar" and rng.random() < 0.5:
            n["attrs"]["hamburger"] = "hamburger"
    if wclasses:
        head = next((c for c in d["children"] if c["tag"] == "mj-head"), None)
        if head is None:
            head = {"tag": "mj-head", "attrs": {}, "children": [], "text": None}
            d["children"].insert(0, head)
        head["children"].append({"tag": "mj-attributes", "attrs": {}, "text": None, "children": [
            {"tag": "mj-class", "attrs": {"name": nm, "width": w}, "children": [], "text": None} for nm, w in (("wc30", "30%"), ("wc70", "70%"), ("wc120", "120px"))]})
    if rng.random() < 0.35:
        head = next((c for c in d["children"] if c["tag"] == "mj-head"), None)
        if head is None:
            head = {"tag": "mj-head", "attrs": {}, "children": [], "text": None}
            d["children"].insert(0, head)
        at = next((c for c in head["children"] if c["tag"] == "mj-attributes"), None)
        if at is None:
            at = {"tag": "mj-attributes", "attrs": {}, "children": [], "text": None}
            head["children"].append(at)
        x = rng.random()
        if x < 0.4:
            at["children"].append({"tag": rng.choice(TEXTY), "attrs": {"font-family": rng.choice(FONTS)}, "children": [], "text": None})
        elif x < 0.7:
            at["children"] = [c for c in at["children"] if c["tag"] != "mj-all"]
            at["children"].append({"tag": "mj-all", "attrs": {"font-family": rng.choice(FONTS)}, "children": [], "text": None})
        else:
            at["children"].append({"tag": "mj-class", "attrs": {"name": "fc1", "font-family": rng.choice(FONTS)}, "children": [], "text": None})
    return d


def run(ck):
    ck.cov["trusted_base"] = vlib.TRUSTED_COMMON + [
        "the location of rules / classes / font families in the output by the lexer and by the regular expressions of checks/c11.py",
        "translator: font-family accessor sites (Facts/Accessors.v)",
    ]
    ok, mlog = common.prove_with_facts(ck, "Properties/C11.v")
    facts = vlib.load_facts()
    ck.fact_obligations(sum(1 for s in facts["acc_sites"] if s["attr"] == "font-family"), ok)
    hb, msg = vlib.build_harness()
    mr, msgm = vlib.build_model_runner()
    known = {k["id"]: k for k in vlib.known_findings("C11")}
    announced = set()
    rng = ck.rng
    g = docgen.Gen(rng, attr_prob=0.2)
    docs = []
    for _ in range(600 if ck.quick else 20000):
        docs.append(fontify(g.document(), rng))
    srcs = [docgen.to_mjml(d) for d in docs]
    res, dead = common.run_jobs(hb, "render", [{"id": i, "src": s} for i, s in enumerate(srcs)])
    toks = vlib.model_run(mr, [("lex", (res.get(i) or {}).get("html", "").encode()) for i in range(len(srcs))])
    failing, terms = [], []
    for i, (d, src) in enumerate(zip(docs, srcs)):
        r = res.get(i)
        if not r or r["err"]["class"] != "none" or not r["html"].startswith("<!doctype"):
            continue
        a = analyse(vlib.parse_toks(toks[i]))
        body = next(c for c in d["children"] if c["tag"] == "mj-body")
        tags = docgen.tags(body)
        ck.count(src, len(set(a["used"])) >= 2 or any(t in tags for t in ("mj-accordion", "mj-carousel", "mj-navbar")),
                 tags=["classes:%d" % min(len(set(a["used"])), 6)] + [t for t in ("mj-group", "mj-hero", "mj-wrapper", "mj-accordion", "mj-carousel", "mj-navbar") if t in tags])
        has_group_pct = any(n["tag"] == "mj-group" and n["attrs"].get("width", "").endswith("%") and n["attrs"]["width"] != "100%" for n in docgen.walk(d))
        under_hero = any(n["tag"] == "mj-hero" and any(c["tag"] in ("mj-accordion", "mj-navbar", "mj-carousel", "mj-image") for c in docgen.walk(n)) for n in docgen.walk(d))
        # class rules: both width spellings of a rule must agree
        for c, w1, w2 in a["mq1"] + a["mq2"]:
            if w1 != w2:
                failing.append(({"src": src, "rule": [c, w1, w2]}, "a class rule gives different width and max-width"))
        terms.append((i, [(c, w) for c, w, _ in a["mq1"]], [(c, w) for c, w, _ in a["mq2"]], a["used"], has_group_pct))
        # feature CSS iff rendered
        for name, rendered, css in features(a, tags):
            if rendered != css:
                kid = "feature-under-hero:" + name
                if under_hero and kid in known:
                    if kid not in announced:
                        announced.add(kid)
                        ck.known("%s: %s" % (kid, known[kid]["what"]))
                else:
                    failing.append(({"src": src, "feature": name, "rendered_in_body": rendered, "css_in_head": css},
                                    "feature CSS '%s' %s" % (name, "missing from the head although the component is rendered" if rendered else "present although no such component is rendered")))
        # carousel id consistency
        ids_head = set(re.findall(r"mj-carousel-([0-9a-f]{16})", a["css"]))
        ids_body = set(re.findall(r"mj-carousel-([0-9a-f]{16})", " ".join(a["body_classes"])))
        if ids_body and ids_head != ids_body and not under_hero:
            failing.append(({"src": src, "ids_head": sorted(ids_head), "ids_body": sorted(ids_body)}, "carousel CSS refers to a different generated identifier than the body"))
        # fonts
        missing, unused = judge_fonts(a)
        if missing:
            failing.append(({"src": src, "fonts": sorted(missing)}, "a web font referenced by an inline style is not imported"))
        for n in docgen.walk(d):
            if n["tag"] == "mj-font" and any(n["attrs"]["name"].lower() in f.lower() for f in a["fonts"]):
                ck.cov["custom_font_referenced"] = ck.cov.get("custom_font_referenced", 0) + 1
                if not any(n["attrs"]["href"] in l for l in a["links"]):
                    failing.append(({"src": src, "fonts": [n["attrs"]["name"]]}, "an mj-font declaration referenced by an inline style is not imported"))
        for f in sorted(unused):
            kid = "unused-font:mj-social"
            social = any(n["tag"] in ("mj-social", "mj-social-element") for n in docgen.walk(d)) and (
                f == "Ubuntu" or any(n["tag"] in ("mj-social", "mj-social-element", "mj-all", "mj-class") and f.lower() in n["attrs"].get("font-family", "").lower() for n in docgen.walk(d)))
            if social and kid in known:
                if kid not in announced:
                    announced.add(kid)
                    ck.known("%s: %s" % (kid, known[kid]["what"]))
            else:
                failing.append(({"src": src, "fonts": [f]}, "a built-in web font is imported although no inline style references it"))
    # Coq-defined relation on (mq1, mq2, used)
    mism, errs = [], []
    if ok:
        import concurrent.futures
        shards = [terms[k:k + 150] for k in range(0, len(terms), 150)]

        def work(arg):
            k, sh = arg
            lst = lambda l: "[" + "; ".join("lit " + coq_bytes(x) for x in l) + "]"
            prs = lambda l: "[" + "; ".join("(lit %s, lit %s)" % (coq_bytes(c), coq_bytes(w)) for c, w in l) + "]"
            body = ("From Coq Require Import List Bool NArith.\nFrom Coq.Strings Require Import String Byte.\nFrom GV Require Import Base.Bytes Head.Classes.\n"
                    "Import ListNotations.\nOpen Scope string_scope.\nOpen Scope list_scope.\n"
                    "Definition cases : list (N * list (bytes * bytes) * list (bytes * bytes) * list bytes) := [\n" +
                    ";\n".join("(%d%%N, %s, %s, %s)" % (i, prs(m1), prs(m2), lst(u)) for i, m1, m2, u, _ in sh) + "].\n"
                    "Definition M := Eval vm_compute in flat_map (fun c => match c with (i, m1, m2, u) => if head_body_ok m1 m2 u then [] else [i] end) cases.\nPrint M.\n")
            eok, so, se, dt = vlib.coq_eval("c11_%d" % k, body)
            m = re.search(r"M\s*=\s*(\[.*?\])\s*:\s*list", so.replace("\n", " "))
            if not eok or not m:
                return None, (se or so)[-400:]
            return [int(x) for x in re.findall(r"(\d+)%N", m.group(1))], ""
        with concurrent.futures.ThreadPoolExecutor(16) as ex:
            for r_, e in ex.map(work, list(enumerate(shards))):
                if r_ is None:
                    errs.append(e)
                else:
                    mism += r_
    gp = {i: g_ for i, _, _, _, g_ in terms}
    for i in mism:
        kid = "group-percentage-width-class"
        if gp.get(i) and kid in known:
            if kid not in announced:
                announced.add(kid)
                ck.known("%s: %s" % (kid, known[kid]["what"]))
        else:
            a = analyse(vlib.parse_toks(toks[i]))
            failing.append(({"src": srcs[i], "used_in_body": sorted(set(a["used"])), "rules_block1": a["mq1"], "rules_block2": a["mq2"]},
                            "column classes used in the body and the rules of the head media-query blocks do not correspond"))
    ck.cov["model_cases_evaluated_in_coq"] = len(terms) if not errs else 0
    ck.sample({"document": srcs[0][:400]})
    ck.cov["rule"] = ("generated full-grammar documents with explicit / automatic column widths (percent incl. decimals, pixels), groups with pixel or "
                      "percentage widths, font families on text-bearing components, fluid images, accordion / navbar / carousel anywhere incl. hero and "
                      "wrapper. Non-trivial: >= 2 distinct column classes or a feature component; distinct by source.")
    if errs:
        failing.append(({}, "evaluation of head_body_ok failed: " + errs[0]))
    common.report(ck, failing, ok, mlog, "coq/Properties/C11.v (cone) no longer compiles", limit=5)


def replay(ck, path):
    rp = json.load(open(path))
    print(json.dumps(rp.get("input"), indent=1)[:2500])
    ck.count(json.dumps(rp.get("input"))[:300])
    ck.cov["distinct_nontrivial"] = 2
