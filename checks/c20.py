"""C20 — the CLI is a thin, faithful wrapper around the library.

Theorems: coq/Properties/C20.v (decision model Cli/Model.v, composed with the cache model).
Tie (H): the built gomjml binary over documents x flag combinations; observable = (exit, stdout,
stderr-nonempty, output-file state, and - from an in-process run in a fresh process - the cache
configuration the flags produced); oracle = Cli.Check.case_ok evaluated by vm_compute.
"""
import itertools
import json
import os
import re

import vlib

DOCS = {
    "valid": '<mjml><mj-body><mj-section><mj-column><mj-text>hello</mj-text></mj-column></mj-section></mj-body></mjml>',
    "valid-head": '<mjml><mj-head><mj-title>T</mj-title><mj-attributes><mj-text color="#ff0000"/></mj-attributes></mj-head>'
                  '<mj-body><mj-section><mj-column><mj-text>a</mj-text><mj-button href="http://x">b</mj-button></mj-column></mj-section></mj-body></mjml>',
    "invalid-attr": '<mjml><mj-body><mj-section bogus="1"><mj-column><mj-text>x</mj-text></mj-column></mj-section></mj-body></mjml>',
    "unparsable": '<mjml><mj-body><mj-section></mj-body></mjml>',
    "unreadable": None,
}
OUTS = ["stdout", "s", "file", "existing", "unwritable", "file+s", "existing+s", "existing+long"]
TTLS = ["", "0s", "-1s", "1ns", "1us", "1ms", "10m", "2562047h"]
IVS = ["", "0s", "-5s", "1ns", "100us", "1h"]


def dur_ns(s):
    if s == "":
        return 0
    m = re.fullmatch(r"(-?\d+)(ns|us|ms|s|m|h)", s)
    mult = {"ns": 1, "us": 1000, "ms": 10 ** 6, "s": 10 ** 9, "m": 60 * 10 ** 9, "h": 3600 * 10 ** 9}[m.group(2)]
    return int(m.group(1)) * mult


def all_jobs():
    jobs = []
    for doc, out, dbg, cache, ttl, iv in itertools.product(DOCS, OUTS, [False, True], [False, True], TTLS, IVS):
        jobs.append({"doc": doc, "content": DOCS[doc], "out": out, "debug": dbg, "cache": cache, "ttl": ttl, "interval": iv})
    return jobs


def nontrivial(j):
    return j["cache"] or j["out"] != "stdout" or j["doc"] != "valid" or j["debug"]


def base_out(j):
    return dict(j, out=j["out"].split("+")[0])


def direct_oracle(j, r):
    """Judge one observed run against the property text, without the model. Returns a reason or None."""
    j = base_out(j)
    lib_err = r["lib_err"] != "none" or j["content"] is None
    if r.get("timed_out"):
        return "command did not terminate within 20 s"
    if r["exit"] not in (0, 1) or len(set(r.get("exits", [r["exit"]]))) > 1:
        return "abnormal exit status %s (crash?)" % r.get("exits")
    if lib_err or j["out"] == "unwritable":
        if r["exit"] == 0:
            return "error but exit 0"
        if not r["stderr_nonempty"]:
            return "error without message on stderr"
        if r["stdout"] != "empty":
            return "error but output on stdout"
        if j["out"] in ("file",) and r["file"] != "absent":
            return "error but output file created"
        if j["out"] == "existing" and r["file"] != "old":
            return "error but output file overwritten"
        return None
    if r["exit"] != 0:
        return "no error but exit %d" % r["exit"]
    if j["out"] in ("file", "existing"):
        if r["file"] != "lib":
            return "output file does not hold exactly the library's bytes"
        if r["stdout"] != "empty":
            return "stdout not empty although -o was given"
    else:
        if r["stdout"] != "lib":
            return "stdout is not exactly the library's bytes"
    ip = r.get("inproc")
    if ip and ip.get("returned"):
        want_ttl = dur_ns(j["ttl"]) if dur_ns(j["ttl"]) > 0 else 5 * 60 * 10 ** 9
        want_iv = dur_ns(j["interval"]) if dur_ns(j["interval"]) > 0 else want_ttl // 2
        if ip["ttl_ns"] != want_ttl:
            return "--cache-ttl=%s not forwarded (ttl=%d)" % (j["ttl"], ip["ttl_ns"])
        if ip["interval_ns"] != want_iv:
            return "--cache-cleanup-interval=%s not in effect (interval=%d)" % (j["interval"], ip["interval_ns"])
        stable = want_ttl >= 60 * 10 ** 9  # a short-lived entry may already have been swept: real time
        if ip["cleanup_running"] != j["cache"] or (stable and (ip["cache_len"] > 0) != j["cache"]):
            return "--cache flag does not correspond to the library option"
    return None


def coq_case(i, j, r):
    rd_ok = j["content"] is not None
    lib_err = r["lib_err"] != "none"
    j = base_out(j)
    wr_ok = j["out"] != "unwritable"
    f = ("{| f_out := %s; f_s := %s; f_debug := %s; f_cache := %s; f_ttl := %d; f_interval := %d |}" % (
        vlib.coq_bool(j["out"] in ("file", "existing", "unwritable")), vlib.coq_bool(j["out"] == "s"),
        vlib.coq_bool(j["debug"]), vlib.coq_bool(j["cache"]), dur_ns(j["ttl"]), dur_ns(j["interval"])))
    tok = {"empty": 0, "lib": 1, "other": 2}
    filetok = {"none": 0, "absent": 0, "old": 0, "lib": 1, "other": 2}[r["file"]]
    ip = r.get("inproc")
    inproc = ip is not None
    if ip and ip.get("returned"):
        clen = ip["cache_len"] if ip["ttl_ns"] >= 60 * 10 ** 9 else -1
        cfg = "Some (%d, %d, %d, %s)" % (ip["ttl_ns"], ip["interval_ns"], clen, vlib.coq_bool(ip["cleanup_running"]))
    else:
        cfg = "None"
    return ("{| ob_id := %d; ob_rd_ok := %s; ob_lib_err := %s; ob_wr_ok := %s; ob_flags := %s; ob_exit := %d; "
            "ob_stdout := %d; ob_stderr := %s; ob_file := %d; ob_cfg := %s; ob_inproc := %s; ob_parsable := %s |}" % (
                i, vlib.coq_bool(rd_ok), vlib.coq_bool(lib_err), vlib.coq_bool(wr_ok), f, r["exit"], tok[r["stdout"]],
                vlib.coq_bool(r["stderr_nonempty"]), filetok, cfg, vlib.coq_bool(inproc),
                vlib.coq_bool(j["doc"] != "unparsable")))


def explore(ck, jobs):
    hb, msg = vlib.build_harness()
    cli, msg2 = vlib.build_cli()
    if not hb or not cli:
        return None, None, "build failed:\n" + msg + msg2
    for i, j in enumerate(jobs):
        j["id"] = i
        j["inproc"] = True
        # the ticker panic of a non-positive interval raced with process exit: repeat those runs
        j["reps"] = 4 if j["cache"] else 1
    # 16 shards in parallel
    import concurrent.futures
    shards = [jobs[k::16] for k in range(16)]
    results = {}

    def work(sh):
        rc, res, se = vlib.harness(hb, "cli", sh, timeout=3000, args=[cli])
        return res

    with concurrent.futures.ThreadPoolExecutor(16) as ex:
        for res in ex.map(work, [s for s in shards if s]):
            for r in res:
                if "id" in r:
                    results[r["id"]] = r
    return jobs, results, None


def run(ck):
    ck.cov["trusted_base"] = vlib.TRUSTED_COMMON + [
        "oracle inputs of the decision model: os.ReadFile / os.WriteFile outcomes, mjml.Render result (the library itself is the subject of C01-C19)",
        "cobra flag parsing (time.Duration syntax)",
    ]
    ck.assumptions = ["OS file semantics are oracle inputs of the model, not modelled",
                      "stdout/file contents are compared with mjml.Render on the same bytes in the harness process"]
    ok, mlog = ck.prove("Properties/C20.v", extra_targets=["Cli/Check.v"])
    jobs = all_jobs()
    if ck.quick:
        # every document x output target at least once, all boundary durations with the cache on
        must = [j for j in jobs if (j["ttl"], j["interval"]) in (("", ""),) and not j["debug"]]
        must += [j for j in jobs if j["cache"] and j["doc"] == "valid" and j["out"] == "stdout" and not j["debug"]]
        rest = [j for j in jobs if j not in must]
        ck.rng.shuffle(rest)
        jobs = must + rest[:220]
    ck.cov["rule"] = ("documents {valid, valid with head, invalid attribute, unparsable, unreadable path} x output "
                      "{stdout, -s, -o new file, -o existing file, -o unwritable path} x debug x cache x cache-ttl %s x "
                      "cleanup-interval %s; quick = all (doc,out,cache) at default durations + all duration pairs with the cache "
                      "on + 220 sampled, thorough = full product (exhaustive). Non-trivial = anything but the plain valid "
                      "document to stdout without flags; distinct by (doc, flags)." % (TTLS, IVS))
    ck.cov["exhaustive"] = not ck.quick
    jobs, results, err = explore(ck, jobs)
    if err:
        ck.violation({"kind": "build-failed", "log": err[-3000:]}, no_input=True)
        return
    failing, cases, missing = [], [], []
    for j in jobs:
        r = results.get(j["id"])
        key = json.dumps({k: j[k] for k in ("doc", "out", "debug", "cache", "ttl", "interval")}, sort_keys=True)
        ck.count(key, nontrivial(j), tags=["doc:" + j["doc"], "out:" + j["out"], "cache:%s" % j["cache"],
                                           "ttl:" + (j["ttl"] or "default"), "interval:" + (j["interval"] or "default")])
        if r is None or "exit" not in r:
            missing.append(j)
            continue
        ck.sample({"args": {k: j[k] for k in ("doc", "out", "debug", "cache", "ttl", "interval")},
                   "observed": {k: r.get(k) for k in ("exit", "stdout", "stderr_nonempty", "file", "inproc")}})
        why = direct_oracle(j, r)
        if why:
            failing.append((j, r, why))
        cases.append(coq_case(j["id"], j, r))
    # model vs implementation
    body = ("From Coq Require Import List ZArith Bool.\nFrom GV Require Import Cli.Model Cli.Check.\nImport ListNotations.\n"
            "Open Scope Z_scope.\nDefinition cases : list obs := [\n" + ";\n".join(cases) + "].\n"
            "Definition M := Eval vm_compute in mismatches cases.\nPrint M.\n")
    mism = None
    if ok:
        eok, so, se, dt = vlib.coq_eval("c20_cases", body)
        m = re.search(r"M\s*=\s*(\[[^\]]*\])", so.replace("\n", " "))
        if eok and m:
            mism = [int(x) for x in re.findall(r"-?\d+", m.group(1))]
        else:
            ck.notes.append("model evaluation failed: " + (se or so)[-500:])
    ck.cov["model_cases_evaluated_in_coq"] = len(cases) if mism is not None else 0
    ck.cov["model_mismatches"] = mism
    byid = {j["id"]: j for j in jobs}
    if failing:
        seen = set()
        for j, r, why in failing:
            sig = (why.split(" (")[0], j["doc"] if "error" in why else "")
            if sig in seen:
                continue
            seen.add(sig)
            ck.violation({"kind": "cli-property-violated", "why": why,
                          "input": {k: j[k] for k in ("doc", "content", "out", "debug", "cache", "ttl", "interval")},
                          "observed": r, "how_to_replay": "bin/check C20 --replay <this file>"})
            if len(seen) >= 5:
                break
    elif not ok:
        ck.violation({"kind": "proof-broken", "what": "coq/Properties/C20.v (or its cone) no longer compiles",
                      "log": mlog[-3000:]}, no_input=True)
    elif mism is None or mism or missing:
        ck.violation({"kind": "correspondence-broken",
                      "what": "Cli.Check.mismatches: decision model and binary disagree on these runs although every "
                              "run satisfies the property's direct oracle",
                      "cases": [{"input": {k: byid[i][k] for k in ("doc", "out", "debug", "cache", "ttl", "interval")},
                                 "observed": results.get(i)} for i in (mism or [])[:5]],
                      "missing_results": len(missing)}, no_input=True)


def replay(ck, path):
    rp = json.load(open(path))
    j = dict(rp["input"])
    jobs, results, err = explore(ck, [j])
    if err:
        print(err)
        return
    r = results.get(0)
    why = direct_oracle(jobs[0], r) if r else "no result"
    print(json.dumps({"observed": r, "verdict": why or "property holds on this input"}, indent=1))
    ck.count(json.dumps(rp["input"], sort_keys=True))
    ck.cov["distinct_nontrivial"] = max(ck.cov["distinct_nontrivial"], 2)
    if why:
        ck.violation({"kind": "replayed", "why": why, "input": rp["input"], "observed": r})
