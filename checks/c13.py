"""C13 — the AST cache is transparent.

Theorems: coq/Properties/C13.v. Tie (H): operation histories executed against mjml.Render with the
verif hooks (expiry shifting = passage of time) and replayed through Cache.Check (vm_compute).
"""
import glob
import itertools
import json
import os

import vlib
from checks import cachelib as cl


def gen(ck):
    hs = []  # (config, ops)
    for p in sorted(glob.glob(os.path.join(vlib.CORPUS, "C13", "*.json"))):
        c = json.load(open(p))
        hs.append((c.get("config", "unswept"), c["ops"]))
    if ck.quick:
        for _ in range(2200):
            hs.append(("unswept", cl.random_history(ck.rng, 24)))
        for _ in range(500):
            hs.append(("swept", cl.random_history(ck.rng, 10)))
        # all histories up to length 3 over the alphabet (exhaustive)
        for n in (1, 2, 3):
            for t in itertools.product(cl.ALPHA, repeat=n):
                hs.append(("unswept", list(t)))
    else:
        for n in (1, 2, 3, 4, 5):
            for t in itertools.product(cl.ALPHA, repeat=n):
                hs.append(("unswept", list(t)))
        for n in (1, 2, 3):
            for t in itertools.product(cl.ALPHA, repeat=n):
                hs.append(("swept", list(t)))
        for _ in range(30000):
            hs.append(("unswept", cl.random_history(ck.rng, 40)))
        for _ in range(4000):
            hs.append(("swept", cl.random_history(ck.rng, 16)))
    # sweeps are never due in the "unswept" process configuration: no tick operations there
    hs = [(c, [o for o in ops if not (c == "unswept" and o["op"] == "tick")]) for c, ops in hs]
    return [(c, ops) for c, ops in hs if ops]


def explore(ck, hs, hb):
    """run histories, return (failing, mismatches, crashed, errors)"""
    failing, terms, crashed_all = [], [], []
    byid = {}
    for config in ("unswept", "swept"):
        sel = [(i, ops) for i, (c, ops) in enumerate(hs) if c == config]
        if not sel:
            continue
        res, crashed = cl.run_histories(hb, sel, config)
        crashed_all += [dict(c, config=config) for c in crashed]
        args, await_, cfg = cl.CONFIGS[config]
        for i, ops in sel:
            byid[i] = (config, ops)
            r = res.get(i)
            if r is None:
                continue
            if r.get("sweep_timeouts"):
                ck.notes.append("history %d: %d sweep waits timed out" % (i, r["sweep_timeouts"]))
            bad = cl.transparency_oracle(ops, r)
            if bad:
                failing.append((i, config, ops, r, bad))
            terms.append(cl.coq_hist(i, ops, r, await_, cfg))
    return failing, terms, crashed_all, byid


def run(ck):
    ck.cov["trusted_base"] = vlib.TRUSTED_COMMON + [
        "premise hash_inj_on: the seeded 64-bit maphash has no collision among one history's documents (C13_collision_breaks_it shows the premise is necessary)",
        "premises from other properties: everything after parsing is a function of the AST (C05, C08) and never mutates it (C16)",
        "hook VerifCacheShiftExpiries stands for the passage of time on look-ups and sweeps",
    ]
    ck.assumptions = ["no 64-bit hash collision among the documents of a history",
                      "logical time: advances are multiples of one minute, real elapsed time per history is milliseconds"]
    ok, mlog = ck.prove("Properties/C13.v", extra_targets=["Cache/Check.v"])
    hb, msg = vlib.build_harness()
    if not hb:
        ck.violation({"kind": "build-failed", "log": msg[-3000:]}, no_input=True)
        return
    hs = gen(ck)
    ck.cov["rule"] = ("histories over {render(doc,cached), render(doc,uncached), advance k minutes (expiry shifting), "
                      "await sweep, stop, setter calls}; 5 documents (two differing in the last byte, one unparsable, one "
                      "with a validation error); two process configurations (1 ms sweeps awaited after every op / sweeps never "
                      "due). quick: all histories of length <= 3 over a 9-op alphabet + 2700 random; thorough: all of length "
                      "<= 5 (66 429) + 34 000 random up to length 40. Non-trivial: a cached render after the expiry of a "
                      "stored entry, or cached renders of >= 2 documents; distinct by (config, op sequence).")
    failing, terms, crashed, byid = explore(ck, hs, hb)
    for i, (config, ops) in byid.items():
        ck.count(config + ":" + cl.hist_text(ops), cl.nontrivial_c13(ops),
                 tags=["config:" + config, "len:%d" % min(len(ops) // 5 * 5, 40)] + ["op:" + o["op"] for o in ops])
    for i in list(byid)[:: max(1, len(byid) // 4)][:4]:
        ck.sample({"config": byid[i][0], "history": cl.hist_text(byid[i][1])})
    mism, errs = ([], [])
    if ok:
        mism, errs = cl.model_mismatches("c13", terms)
    ck.cov["traces_validated_against_impl"] = len(terms) - len(mism) if ok and not errs else 0
    ck.cov["model_mismatches"] = len(mism)
    if crashed:
        ck.violation({"kind": "process-crashed", "what": "the harness process running cache histories died", "details": crashed[:3]})
    if failing:
        i, config, ops, r, (step, why) = failing[0]
        # shrink: shortest prefix/sub-history still failing
        def fails(sub):
            res, cr = cl.run_histories(hb, [(0, sub)], config, procs=1)
            return 0 in res and cl.transparency_oracle(sub, res[0]) is not None
        small = vlib.shrink_list(ops[:step + 1], fails)
        ck.violation({"kind": "cache-not-transparent", "why": why, "config": config, "history": small,
                      "history_text": cl.hist_text(small), "documents": cl.DOCS,
                      "found_in": cl.hist_text(ops), "count_failing_histories": len(failing)})
    elif not ok:
        ck.violation({"kind": "proof-broken", "what": "coq/Properties/C13.v (cone) no longer compiles", "log": mlog[-3000:]},
                     no_input=True)
    elif errs or mism:
        ex = []
        for hid, step in mism[:3]:
            config, ops = byid[hid]
            ex.append({"config": config, "history": cl.hist_text(ops), "first_differing_step": step})
        ck.violation({"kind": "correspondence-broken",
                      "what": "Cache.Check.mismatches: the cache model no longer reproduces the implementation's "
                              "observations (kind, parse count, cache size, cleaner state) although every render still "
                              "equals its uncached result",
                      "examples": ex, "evaluation_errors": errs[:2]}, no_input=True)


def replay(ck, path):
    rp = json.load(open(path))
    hb, msg = vlib.build_harness()
    ops = rp["history"]
    res, cr = cl.run_histories(hb, [(0, ops)], rp.get("config", "unswept"), procs=1)
    bad = cl.transparency_oracle(ops, res[0]) if 0 in res else (0, "process crashed")
    print(json.dumps({"history": cl.hist_text(ops), "observed": res.get(0), "verdict": bad or "holds"}, indent=1))
    ck.count(cl.hist_text(ops))
    ck.cov["distinct_nontrivial"] = max(2, ck.cov["distinct_nontrivial"])
    if bad:
        ck.violation({"kind": "replayed", "why": bad[1], "history": ops, "config": rp.get("config", "unswept")})
