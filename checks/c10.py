"""C10 — width flow: boxes nest and Outlook pixel widths match the responsive layout.

Theorems: coq/Properties/C10.v (exact-arithmetic ports of the width computations, Width/Model.v).
Tie (H): generated sections (arbitrary body width, section / column / image paddings as 1-2 value shorthands or per-side
attributes, 1-6 columns with automatic, percentage or pixel widths); observable = the Outlook cell widths and the default
image widths located structurally in the lexed output; oracle = predict_section evaluated by vm_compute.
Search: box relations inside one output (image <= column <= section; sibling sum).
"""
import json
import re

import vlib
from checks import common
from checks import viewslib as vl

PCTS = [("10", 10, 1), ("20", 20, 1), ("25", 25, 1), ("30", 30, 1), ("33.33", 3333, 100), ("40", 40, 1), ("50", 50, 1), ("60", 60, 1), ("66.5", 665, 10), ("75", 75, 1), ("100", 100, 1)]


def gen_case(rng):
    W = rng.choice([300, 320, 480, 500, 550, 600, 640, 700, 800, 901])
    spl, spr = rng.choice([(0, 0), (10, 10), (20, 20), (25, 25), (0, 30), (15, 5)])
    style = rng.choice(["shorthand2", "sides", "shorthand1"]) if spl == spr else "sides"
    if style == "shorthand1":
        sattr = ' padding="%dpx"' % spl
    elif style == "shorthand2":
        sattr = ' padding="%dpx %dpx"' % (rng.choice([0, 5, 20]), spl)
    else:
        sattr = ' padding="0px" padding-left="%dpx" padding-right="%dpx"' % (spl, spr)
    n = rng.choice([1, 2, 2, 3, 3, 4, 5, 6])
    cols, xml = [], []
    budget = 100.0
    for i in range(n):
        k = rng.random()
        if k < 0.45:
            cw, cattr = None, ""
        elif k < 0.85:
            opts = [p for p in PCTS if float(p[0]) <= budget] or [PCTS[0]]
            p = rng.choice(opts)
            budget -= float(p[0])
            cw, cattr = ("pct", p[1], p[2]), ' width="%s%%"' % p[0]
        else:
            px = rng.choice([50, 100, 120, 150])
            cw, cattr = ("px", px), ' width="%dpx"' % px
        cp = rng.choice([None, 0, 5, 10, (0, 15), (5, 20)])
        if cp is None:
            cpl = cpr = 0
        elif isinstance(cp, tuple):
            cpl = cpr = cp[1]
            cattr += ' padding="%dpx %dpx"' % cp
        else:
            cpl = cpr = cp
            cattr += ' padding="%dpx"' % cp
        ip = rng.choice([None, 0, 10, (5, 15)])
        if ip is None:
            ipl = ipr = 25
            iattr = ""
        elif isinstance(ip, tuple):
            ipl = ipr = ip[1]
            iattr = ' padding="%dpx %dpx"' % ip
        else:
            ipl = ipr = ip
            iattr = ' padding="%dpx"' % ip
        cols.append((cw, cpl, cpr, ipl, ipr))
        xml.append('<mj-column%s><mj-image src="https://x/a.png"%s/></mj-column>' % (cattr, iattr))
    # the section's padding shorthand may also reach it through <mj-attributes> (tag default) or an mj-class
    via = rng.choice(["element", "element", "tag-default", "mj-class"]) if style != "sides" else "element"
    head = ""
    if via == "tag-default":
        head, sattr = "<mj-head><mj-attributes><mj-section%s /></mj-attributes></mj-head>" % sattr, ""
    elif via == "mj-class":
        head, sattr = '<mj-head><mj-attributes><mj-class name="sp"%s /></mj-attributes></mj-head>' % sattr, ' mj-class="sp"'
    src = '<mjml>%s<mj-body width="%dpx"><mj-section%s>%s</mj-section></mj-body></mjml>' % (head, W, sattr, "".join(xml))
    return {"W": W, "spl": spl, "spr": spr, "cols": cols, "src": src, "via": via}


def gen_group_case(rng):
    """a section holding one mj-group (default / percentage / pixel width) of 1-4 automatic columns, each with an image and a divider,
    beside an optional sibling column"""
    W = rng.choice([300, 320, 480, 500, 550, 600, 640, 700, 800, 901])
    spl = rng.choice([0, 0, 10, 20, 25])
    sattr = ' padding="0px %dpx"' % spl if spl else rng.choice(['', ' padding="0"'])
    if not spl and sattr == "":
        spl_eff = 0
    k = rng.random()
    sib = ""
    if k < 0.25:
        gw, gattr = None, ""
    elif k < 0.8:
        p = rng.choice([x for x in PCTS if 20 <= float(x[0])])
        gw, gattr = ("pct", p[1], p[2]), ' width="%s%%"' % p[0]
        rest = 100 - float(p[0])
        if rest >= 10 and rng.random() < 0.8:
            sib = '<mj-column width="%g%%"><mj-text>rest</mj-text></mj-column>' % rest
    else:
        px = rng.choice([150, 200, 280, 301])
        gw, gattr = ("px", px), ' width="%dpx"' % px
        if rng.random() < 0.5:
            sib = '<mj-column width="100px"><mj-text>rest</mj-text></mj-column>'
    n = rng.choice([1, 2, 2, 3, 4])
    cols, xml = [], []
    for i in range(n):
        cp = rng.choice([None, None, 0, 5, (0, 10)])
        cattr = ""
        if cp is None:
            cpl = 0
        elif isinstance(cp, tuple):
            cpl = cp[1]
            cattr = ' padding="%dpx %dpx"' % cp
        else:
            cpl = cp
            cattr = ' padding="%dpx"' % cp
        ip = rng.choice([None, 0, 10, (5, 15)])
        if ip is None:
            ipl, iattr = 25, ""
        elif isinstance(ip, tuple):
            ipl, iattr = ip[1], ' padding="%dpx %dpx"' % ip
        else:
            ipl, iattr = ip, ' padding="%dpx"' % ip
        cols.append((None, cpl, cpl, ipl, ipl))
        xml.append('<mj-column%s><mj-image src="https://x/a.png"%s/><mj-divider%s/></mj-column>' % (cattr, iattr, iattr))
    order = rng.random() < 0.5
    grp = '<mj-group%s>%s</mj-group>' % (gattr, "".join(xml))
    src = '<mjml><mj-body width="%dpx"><mj-section%s>%s</mj-section></mj-body></mjml>' % (W, sattr, (sib + grp) if (sib and order) else (grp + sib))
    return {"W": W, "spl": spl, "spr": spl, "gw": gw, "cols": cols, "src": src, "sib_first": bool(sib and order), "sib": bool(sib)}


def observe_group(toks, html):
    """(group cell width, [(Outlook cell, image width, Outlook divider width)] of the group's columns)"""
    tds, imgs = observe(toks)
    m = re.search(r'<td class="" style="width:(-?\d+)px;"', html)
    divs = [int(x) for x in re.findall(r'margin:0px auto;width:(-?\d+)px;" role="presentation" width="-?\d+px"', html)]
    return (int(m.group(1)) if m else None), tds, imgs, divs


def coq_group_case(i, c, g, cells):
    def w(cw):
        if cw is None:
            return "None"
        if cw[0] == "pct":
            return "(Some (Pct {| num := %d ; den := %d |}))" % (cw[1], cw[2])
        return "(Some (Px %d))" % cw[1]
    cols = "; ".join("{| cw := None ; cpl := %d ; cpr := %d ; ipl := %d ; ipr := %d ; ibw := 0 |}" % (cpl, cpr, ipl, ipr) for _, cpl, cpr, ipl, ipr in c["cols"])
    obs = "; ".join("(%d, %d)" % (a, b) for a, b in cells)
    return "(%d, %d, %d, %d, %s, [%s], %d, [%s])" % (i, c["W"], c["spl"], c["spr"], w(c["gw"]), cols, g, obs)


def group_tie_skip(c):
    """exact half-pixel ties of a non-dyadic percentage (float64 vs exact arithmetic), at the group or at one of its columns"""
    inner = c["W"] - c["spl"] - c["spr"]
    n = len(c["cols"])
    if c["gw"] is None:
        g = inner
    elif c["gw"][0] == "px":
        return False
    else:
        num, den = c["gw"][1], c["gw"][2]
        if (inner * num) % (den * 100) == 0:
            g = inner * num // (den * 100)
        else:
            g = inner * num // (den * 100)
            # int(float): a product within 1e-9 of an integer may land on either side
            frac = (inner * num) % (den * 100) / (den * 100.0)
            if frac < 1e-6 or frac > 1 - 1e-6:
                return True
    return n not in (1, 2, 4) and (2 * g) % n == 0 and g % n != 0


def observe(toks):
    """(Outlook cell widths of the section's columns, image width attributes), in order"""
    tds, imgs = [], []
    state = "closed"
    for t in toks:
        if t[0] == "MO":
            state = "mso"
        elif t[0] == "ME":
            state = "closed"
        elif t[0] == "O" and t[1] == "td" and state == "mso":
            st = dict(t[2]).get("style", "")
            m = re.search(r"vertical-align:[a-z]+;width:(-?\d+)px", st)
            if m:
                tds.append(int(m.group(1)))
        elif t[0] == "O" and t[1] == "img":
            w = dict(t[2]).get("width")
            if w is not None and re.fullmatch(r"-?\d+", w):
                imgs.append(int(w))
    return tds, imgs


def coq_case(i, c, tds, imgs):
    def w(cw):
        if cw is None:
            return "None"
        if cw[0] == "pct":
            return "(Some (Pct {| num := %d ; den := %d |}))" % (cw[1], cw[2])
        return "(Some (Px %d))" % cw[1]
    cols = "; ".join("{| cw := %s ; cpl := %d ; cpr := %d ; ipl := %d ; ipr := %d ; ibw := 0 |}" % (w(cw), cpl, cpr, ipl, ipr) for cw, cpl, cpr, ipl, ipr in c["cols"])
    obs = "; ".join("(%d, %d)" % (a, b) for a, b in zip(tds, imgs))
    return "(%d, %d, %d, %d, [%s], [%s])" % (i, c["W"], c["spl"], c["spr"], cols, obs)


def table_div_pairs(tk):
    """(width attribute of the last table opened in an Outlook block, max-width of the div that follows the block directly)"""
    out, last, inm, ended = [], None, False, None
    for t in tk:
        if t[0] == "MO":
            inm, last, ended = True, None, None
        elif t[0] == "ME":
            inm, ended = False, last
        elif inm and t[0] == "O" and t[1] == "table":
            last = dict(t[2]).get("width")
        elif inm and t[0] == "O" and t[1] not in ("tr", "td"):
            last = None if t[1] != "table" else last
        elif not inm:
            if t[0] == "O" and t[1] == "div" and ended is not None:
                m = re.search(r"max-width:(\d+)px", dict(t[2]).get("style", ""))
                if m:
                    out.append((str(ended), m.group(1)))
            ended = None
    return out


def tie_skip(c):
    """an exact rounding tie of a non-dyadic percentage: float64 vs exact arithmetic may differ"""
    inner = c["W"] - c["spl"] - c["spr"]
    if inner <= 0:
        inner = c["W"]
    n = len(c["cols"])
    for cw, *_ in c["cols"]:
        num, den = (100, n) if cw is None else ((cw[1], cw[2]) if cw[0] == "pct" else (None, None))
        if num is None:
            continue
        from math import gcd
        rd = den // gcd(num, den)
        dyadic = (rd & (rd - 1)) == 0          # the percentage itself is exactly representable in binary64
        if not dyadic and (2 * inner * num) % (den * 100) == 0 and (inner * num) % (den * 100) != 0:
            return True
    return False


def degenerate(c):
    """paddings consume a column's whole width: content width 0 is the implementation's 'unset' sentinel"""
    inner = c["W"] - c["spl"] - c["spr"]
    if inner <= 0:
        return True
    n = len(c["cols"])
    for cw, cpl, cpr, ipl, ipr in c["cols"]:
        if cw is None:
            px = -(-inner * 100 // (n * 100))
        elif cw[0] == "pct":
            px = -(-inner * cw[1] // (cw[2] * 100))
        else:
            px = cw[1]
        if px - 1 - cpl - cpr <= 0 or px - cpl - cpr - ipl - ipr <= 0:
            return True
    return False


def run(ck):
    ck.cov["trusted_base"] = vlib.TRUSTED_COMMON + [
        "IEEE-754 double arithmetic is replaced by exact arithmetic: cases where the exact value is a rounding tie are skipped and counted (tie_skipped)",
        "the structural location of widths in the output (Outlook cells inside conditionals, img width attributes) by the lexer",
    ]
    ck.assumptions = ["paddings given as one- or two-value pixel shorthands or per-side attributes; borders absent in the generated layouts"]
    ok, mlog = ck.prove("Properties/C10.v")
    hb, msg = vlib.build_harness()
    mr, msgm = vlib.build_model_runner()
    if not hb or not mr:
        ck.violation({"kind": "build-failed", "log": (msg + msgm)[-2000:]}, no_input=True)
        return
    known = {k["id"]: k for k in vlib.known_findings("C10")}
    rng = ck.rng
    cases = [gen_case(rng) for _ in range(1000 if ck.quick else 50000)]
    res, dead = common.run_jobs(hb, "render", [{"id": i, "src": c["src"]} for i, c in enumerate(cases)])
    toks = vlib.model_run(mr, [("lex", vl.body_inner((res.get(i) or {}).get("html", "") or "<div role=\"article\"></div></body>").encode() if (res.get(i) or {}).get("html") and vl.body_inner(res[i]["html"]) is not None else b"") for i in range(len(cases))])
    failing, terms, skipped, degen = [], [], 0, 0
    for i, c in enumerate(cases):
        r = res.get(i)
        if not r or r["err"]["class"] != "none":
            continue
        tds, imgs = observe(vlib.parse_toks(toks[i]))
        ck.count(c["src"], len(c["cols"]) >= 2, tags=["cols:%d" % len(c["cols"]), "W:%d" % c["W"], "section-padding-via:" + c.get("via", "element")])
        if len(tds) != len(c["cols"]) or len(imgs) != len(c["cols"]):
            failing.append(({"src": c["src"], "cells": tds, "images": imgs}, "cannot locate one Outlook cell and one image per column"))
            continue
        if tie_skip(c):
            skipped += 1
            continue
        if degenerate(c):
            degen += 1
            continue        # listed known finding zero-content-width (replayed as a scenario below)
        # box relations inside the output (model-free)
        inner = c["W"] - c["spl"] - c["spr"]
        for k, ((cw, cpl, cpr, ipl, ipr), td, im) in enumerate(zip(c["cols"], tds, imgs)):
            if im > td:
                failing.append(({"src": c["src"], "column": k, "outlook_cell_px": td, "image_px": im}, "an image is wider than its column"))
                break
            if td > inner and cw is not None and cw[0] == "pct":
                failing.append(({"src": c["src"], "column": k, "outlook_cell_px": td, "section_content_px": inner}, "a column is wider than the section's content box"))
                break
        terms.append(coq_case(i, c, tds, imgs))
    ck.cov["tie_skipped"] = skipped
    ck.cov["degenerate_skipped"] = degen
    # model vs implementation
    mism, errs = [], []
    if ok:
        import concurrent.futures
        shards = [terms[k:k + 400] for k in range(0, len(terms), 400)]

        def work(arg):
            k, sh = arg
            body = ("From Coq Require Import ZArith List Bool.\nFrom GV Require Import Width.Model.\nImport ListNotations.\nOpen Scope Z_scope.\n"
                    "Definition pair_eqb (a b : Z * Z) := (fst a =? fst b) && (snd a =? snd b).\n"
                    "Fixpoint list_eqb (a b : list (Z * Z)) := match a, b with [], [] => true | x :: a', y :: b' => pair_eqb x y && list_eqb a' b' | _, _ => false end.\n"
                    "Definition cases : list (Z * Z * Z * Z * list colspec * list (Z * Z)) := [\n" + ";\n".join(sh) + "].\n"
                    "Definition M := Eval vm_compute in flat_map (fun c => match c with (i, w, l, r, cols, obs) => if list_eqb (predict_section w l r cols) obs then [] else [i] end) cases.\nPrint M.\n")
            eok, so, se, dt = vlib.coq_eval("c10_%d" % k, body)
            m = re.search(r"M\s*=\s*(\[.*?\])\s*:\s*list", so.replace("\n", " "))
            if not eok or not m:
                return None, (se or so)[-400:]
            return [int(x) for x in re.findall(r"-?\d+", m.group(1))], ""
        with concurrent.futures.ThreadPoolExecutor(16) as ex:
            for r_, e in ex.map(work, list(enumerate(shards))):
                if r_ is None:
                    errs.append(e)
                else:
                    mism += r_
    ck.cov["model_cases_evaluated_in_coq"] = len(terms) if not errs else 0
    ck.cov["model_mismatches"] = len(mism)
    ck.sample({"layout": cases[0]["src"][:400]})

    # known-finding scenarios (model-free)
    def cells(src):
        rr, _ = common.run_jobs(hb, "render", [{"id": 0, "src": src}])
        if 0 not in rr or not rr[0].get("html"):
            return None, None, None
        t = vlib.parse_toks(vlib.model_run(mr, [("lex", vl.body_inner(rr[0]["html"]).encode())])[0])
        return observe(t) + (rr[0]["html"],)
    COLI = '<mj-column><mj-image src="https://x/a.png" padding="0"/></mj-column>'
    scen = [
        ("rounding:3-auto-columns-in-500px", '<mjml><mj-body width="500px"><mj-section padding="0">%s</mj-section></mj-body></mjml>' % (COLI * 3),
         lambda tds, imgs, h: sum(tds) > 500),
        ("wrapper-ignores-body-width", '<mjml><mj-body width="800px"><mj-wrapper padding="0"><mj-section padding="0">%s</mj-section></mj-wrapper></mj-body></mjml>' % COLI,
         lambda tds, imgs, h: tds[:1] != [800]),
        ("shorthand-4-values:column-padding", '<mjml><mj-body><mj-section padding="0"><mj-column width="150px" padding="0 50px 0 50px"><mj-image src="https://x/a.png" padding="0"/></mj-column></mj-section></mj-body></mjml>',
         lambda tds, imgs, h: imgs[:1] != [50]),
        ("zero-content-width-falls-back-to-600", '<mjml><mj-body width="300px"><mj-section padding="0"><mj-column width="10%" padding="0px 15px"><mj-image src="https://x/a.png" padding="0"/></mj-column><mj-column><mj-text>t</mj-text></mj-column></mj-section></mj-body></mjml>',
         lambda tds, imgs, h: imgs[:1] and imgs[0] > tds[0]),
        ("shorthand-3-values:section-padding", '<mjml><mj-body><mj-section padding="0 50px 0">%s</mj-section></mj-body></mjml>' % COLI,
         lambda tds, imgs, h: tds[:1] != [500]),
    ]
    for kid, src, bad in scen:
        tds, imgs, h = cells(src)
        ck.count("scenario:" + kid, True, tags=["scenario"])
        if tds is None:
            continue
        if bad(tds, imgs, h):
            if kid in known:
                ck.known("%s: %s" % (kid, known[kid]["what"]))
            else:
                failing.append(({"scenario": kid, "src": src, "outlook_cells": tds, "images": imgs}, "width flow scenario '%s' violates the box model" % kid))
    # (3) every Outlook table that directly wraps a div has that div's max-width (sections anywhere: body, wrappers with padding / borders, hero)
    from checks import emitlib
    import docgen
    wdocs = []
    for _ in range(150 if ck.quick else 3000):
        wdocs.append(emitlib.gen_doc(ck.rng)[1])
    for pad in ('padding="20px 30px"', 'border="5px solid #000"', 'padding-left="25px" padding-right="15px"', 'padding="10px" border-left="3px solid red"'):
        for fw in ("", ' full-width="full-width"'):
            secs = "".join('<mj-section%s>%s</mj-section>' % (a, COLI) for a in ("", ' padding="0"', ' background-color="#eee"'))
            wdocs.append('<mjml><mj-body><mj-wrapper %s%s>%s</mj-wrapper></mj-body></mjml>' % (pad, fw, secs))
    g2 = docgen.Gen(ck.rng, attr_prob=0.2)
    for _ in range(150 if ck.quick else 3000):
        wdocs.append(docgen.to_mjml(g2.document()))
    wres, _ = common.run_jobs(hb, "render", [{"id": i, "src": x} for i, x in enumerate(wdocs)])
    wt = vlib.model_run(mr, [("lex", (wres.get(i) or {}).get("html", "").encode()) for i in range(len(wdocs))])
    npairs = 0
    for i, src in enumerate(wdocs):
        if not wt[i] or 'width="0' in src:       # zero widths: listed known finding (falls back to 600)
            continue
        ck.count("wrap:" + src, "mj-wrapper" in src, tags=["outlook-table-vs-max-width"])
        for w, mw in table_div_pairs(vlib.parse_toks(wt[i])):
            npairs += 1
            if w != mw:
                failing.append(({"src": src, "outlook_table_width": w, "div_max_width": mw},
                                "an Outlook table is %spx wide while the div it wraps is limited to %spx" % (w, mw)))
                break
    ck.cov["outlook_table_div_pairs"] = npairs
    # (3b) groups: group box, Outlook cells of its columns, and what its images and dividers get, vs predict_group
    gcases = [gen_group_case(rng) for _ in range(300 if ck.quick else 10000)]
    gres, _ = common.run_jobs(hb, "render", [{"id": i, "src": c["src"]} for i, c in enumerate(gcases)])
    gt = vlib.model_run(mr, [("lex", (vl.body_inner((gres.get(i) or {}).get("html") or "") or "").encode()) for i in range(len(gcases))])
    gterms, gsk = [], 0
    for i, c in enumerate(gcases):
        r = gres.get(i)
        if not r or not r.get("html") or not gt[i]:
            continue
        n = len(c["cols"])
        g, tds, imgs, divs = observe_group(vlib.parse_toks(gt[i]), r["html"])
        if c["sib"]:
            tds = tds[1:] if c["sib_first"] else tds[:-1]
        ck.count("group:" + c["src"], c["gw"] is not None and c["gw"][0] == "pct" and n >= 2, tags=["group", "group-width:" + ("default" if c["gw"] is None else c["gw"][0]), "group-cols:%d" % n])
        if g is None or len(tds) != n or len(imgs) != n or len(divs) != n:
            failing.append(({"src": c["src"], "group_cell": g, "cells": tds, "images": imgs, "dividers": divs}, "cannot locate the group's cell and one Outlook cell, image and divider per group column"))
            continue
        inner = c["W"] - c["spl"] - c["spr"]
        if group_tie_skip(c) or any(td - cpl - cpr - ipl - ipr <= 1 for td, (_, cpl, cpr, ipl, ipr) in zip(tds, c["cols"])):
            gsk += 1        # paddings consume the column (listed known finding zero-content-width) or a float64 rounding tie
            continue
        if imgs != divs:
            failing.append(({"src": c["src"], "images": imgs, "dividers": divs}, "an image and a divider with the same padding in the same group column get different widths"))
            continue
        bad = [k for k in range(n) if imgs[k] > tds[k] + 1]
        if bad or g > inner and c["gw"] and c["gw"][0] == "pct":
            failing.append(({"src": c["src"], "group_cell_px": g, "section_content_px": inner, "outlook_cells": tds, "images": imgs},
                            "inside a group an image is wider than the Outlook cell of its column" if bad else "a group is wider than the section's content box"))
            continue
        gterms.append(coq_group_case(i, c, g, list(zip(tds, imgs))))
    ck.cov["group_cases_skipped_tie_or_degenerate"] = gsk
    gm, gerrs = [], []
    if ok and gterms:
        body = ("From Coq Require Import ZArith List Bool.\nFrom GV Require Import Width.Model.\nImport ListNotations.\nOpen Scope Z_scope.\n"
                "Definition pair_eqb (a b : Z * Z) := (fst a =? fst b) && (snd a =? snd b).\n"
                "Fixpoint list_eqb (a b : list (Z * Z)) := match a, b with [], [] => true | x :: a', y :: b' => pair_eqb x y && list_eqb a' b' | _, _ => false end.\n"
                "Definition cases : list (Z * Z * Z * Z * option width * list colspec * Z * list (Z * Z)) := [\n" + ";\n".join(gterms) + "].\n"
                "Definition M := Eval vm_compute in flat_map (fun c => match c with (i, w, l, r, gw, cols, g, obs) => "
                "let p := predict_group (section_inner w l r) gw cols in if (fst p =? g) && list_eqb (snd p) obs then [] else [i] end) cases.\nPrint M.\n")
        shards = [gterms[k:k + 400] for k in range(0, len(gterms), 400)]
        for k, sh in enumerate(shards):
            b2 = body.replace(";\n".join(gterms), ";\n".join(sh))
            eok, so, se, dt = vlib.coq_eval("c10g_%d" % k, b2)
            m = re.search(r"M\s*=\s*(\[.*?\])\s*:\s*list", so.replace("\n", " "))
            if not eok or not m:
                gerrs.append((se or so)[-400:])
            else:
                gm += [int(x) for x in re.findall(r"-?\d+", m.group(1))]
    ck.cov["group_cases_evaluated_in_coq"] = len(gterms) if not gerrs else 0
    ck.cov["group_model_mismatches"] = len(gm)
    # (3c) every top-level block is as wide as the body: first Outlook table and first max-width of the body, for each kind of block alone
    #      (wrappers: listed known finding wrapper-ignores-body-width) and behind a section; the image of a hero fills hero width - padding
    tl = {"section": '<mj-section>%s</mj-section>' % COLI, "section-fw": '<mj-section full-width="full-width">%s</mj-section>' % COLI,
          "section-bg": '<mj-section background-url="https://x/b.png">%s</mj-section>' % COLI,
          "hero": '<mj-hero background-color="#222"><mj-image src="https://x/a.png"/><mj-text>H</mj-text></mj-hero>',
          "hero-fixed": '<mj-hero mode="fixed-height" height="300px" background-url="https://x/h.png"><mj-image src="https://x/a.png"/></mj-hero>'}
    tjobs = []
    for Wb in (320, 500, 600, 800):
        for kind, blk in tl.items():
            for lead in ("", '<mj-section><mj-column><mj-text>t</mj-text></mj-column></mj-section>', "<mj-raw><p>r</p></mj-raw>"):
                tjobs.append((Wb, kind, bool(lead), '<mjml><mj-body width="%dpx">%s%s</mj-body></mjml>' % (Wb, lead, blk)))
    tres, _ = common.run_jobs(hb, "render", [{"id": i, "src": j[3]} for i, j in enumerate(tjobs)])
    for i, (Wb, kind, led, src) in enumerate(tjobs):
        h = (tres.get(i) or {}).get("html") or ""
        b = vl.body_inner(h) or ""
        ck.count("top-level:" + src, Wb != 600, tags=["top-level-block", "block:" + kind])
        if led:     # look at the last top-level block only
            cut = b.find("</div><!--[if mso | IE]></td></tr></table>") if "<p>r</p>" not in b else b.find("<p>r</p>")
            b2 = b[cut:] if cut >= 0 else b
        else:
            b2 = b
        tw = re.findall(r'<table[^>]*role="presentation"[^>]*width="(\d+)"', b2) or re.findall(r'<table[^>]* width="(\d+)"', b2)
        mw = re.findall(r"max-width:(\d+)px", b2)
        if not tw or not mw:
            failing.append(({"src": src, "outlook_tables": tw, "max_widths": mw}, "cannot locate the Outlook table / max-width of a top-level block"))
        elif int(tw[0]) != Wb or int(mw[0]) != Wb:
            failing.append(({"src": src, "body_width": Wb, "first_outlook_table_width": int(tw[0]), "first_max_width": int(mw[0])},
                            "a top-level %s is not as wide as the body" % kind))
        elif kind == "hero":
            iw = re.findall(r'<img[^>]* width="(\d+)"', b2)
            if iw and int(iw[0]) != Wb - 50:
                failing.append(({"src": src, "body_width": Wb, "image_width": int(iw[0])}, "the image of a top-level hero does not fill the hero's width minus its padding"))
    # (4) divider: Outlook width = container - left - right padding, shorthand (1, 2, 4 values) overridden by padding-left / padding-right
    dres = []
    for sh, (l0, r0) in (("10px", (10, 10)), ("0 25px", (25, 25)), ("0 10px 0 40px", (40, 10)), ("10px 20px 10px 60px", (60, 20)), (None, (25, 25))):
        for ol in (None, 5, 0):
            for orr in (None, 0, 30):
                attrs = ("" if sh is None else ' padding="%s"' % sh) + ("" if ol is None else ' padding-left="%dpx"' % ol) + ("" if orr is None else ' padding-right="%dpx"' % orr)
                want = 600 - (l0 if ol is None else ol) - (r0 if orr is None else orr)
                dres.append(('<mjml><mj-body><mj-section padding="0"><mj-column><mj-divider%s/></mj-column></mj-section></mj-body></mjml>' % attrs, want))
    rr, _ = common.run_jobs(hb, "render", [{"id": i, "src": x} for i, (x, _) in enumerate(dres)])
    for i, (src, want) in enumerate(dres):
        h = (rr.get(i) or {}).get("html") or ""
        m = re.search(r'<table[^>]*role="presentation"[^>]*width="(\d+)px"[^>]*><tr><td style="height:0;line-height:0;">', h)
        ck.count("divider:" + src, True, tags=["divider-width"])
        if m and int(m.group(1)) != want:
            failing.append(({"src": src, "outlook_divider_width": int(m.group(1)), "expected": want}, "the divider's Outlook width is not the column width minus its left and right padding"))
    ck.cov["rule"] = ("generated single-section layouts: body width in 10 values (300..901), section horizontal padding as 1-/2-value shorthand or per-side "
                      "attributes, 1-6 columns (automatic / 11 percentages incl. decimals / pixels), column and image paddings as shorthands, each column "
                      "holding an image without width; observed Outlook cell widths and image widths vs predict_section (vm_compute); box relations inside "
                      "each output; 4 scenarios for the listed known findings. Non-trivial: >= 2 columns.")
    if common.report(ck, failing, ok, mlog, "coq/Properties/C10.v (cone) no longer compiles", limit=4):
        return
    if mism or errs:
        ck.violation({"kind": "correspondence-broken", "what": "Width.Model.predict_section and the implementation disagree on Outlook cell widths / image widths "
                      "although the box relations hold in every output", "examples": [{"src": cases[i]["src"]} for i in mism[:3]], "evaluation_errors": errs[:2]}, no_input=True)
    if gm or gerrs:
        ck.violation({"kind": "correspondence-broken", "what": "Width.Model.predict_group and the implementation disagree on the group's box, the Outlook cells of its "
                      "columns or the widths of their images although the box relations hold in every output",
                      "examples": [{"src": gcases[i]["src"]} for i in gm[:3]], "evaluation_errors": gerrs[:2]}, no_input=True)


def replay(ck, path):
    rp = json.load(open(path))
    print(json.dumps(rp.get("input"), indent=1)[:2500])
    ck.count(json.dumps(rp.get("input"))[:300])
    ck.cov["distinct_nontrivial"] = 2
