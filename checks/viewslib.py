"""Shared by C01-C04: block alphabet, body extraction, view checks through the extracted Coq checker."""
import itertools

import docgen
import vlib
from checks import common

COL = "<mj-column><mj-text>%s</mj-text></mj-column>"


def sec(attrs="", inner=None, tag="S"):
    return "<mj-section%s>%s</mj-section>" % (attrs, inner if inner is not None else COL % tag)


BG = ' background-url="https://x.test/bg.png"'
# name -> (mjml, kind)   kind: Sec (regular, no bg image) | SecBg | FullSec | Wrap | FullWrap | Other
BLOCKS = {
    "sec": (sec(), "Sec"),
    "sec-fw": (sec(' full-width="full-width"'), "FullSec"),
    "sec-bg": (sec(BG), "SecBg"),
    "sec-fw-bg": (sec(' full-width="full-width"' + BG), "FullSec"),
    "sec-class": (sec(' css-class="kk"'), "Sec"),
    # a single column holding a right-aligned text: the section writes its Outlook table through a code path of its own
    # the attributes that decide the structure arrive through an mj-class (defined in the head of every block document)
    "sec-fw-class": (sec(' mj-class="fwc"'), "FullSec"),
    "sec-bg-class": (sec(' mj-class="bgc"'), "SecBg"),
    "wrap-fw-class": ('<mj-wrapper mj-class="fwc">' + sec() + "</mj-wrapper>", "FullWrap"),
    "sec-bg-right": (sec(BG, inner='<mj-column><mj-text align="right">SBR</mj-text></mj-column>'), "SecBg"),
    "sec-right": (sec(inner='<mj-column><mj-text align="right">SR</mj-text></mj-column>'), "Sec"),
    "sec-2col": (sec(inner=(COL % "A") + (COL % "B")), "Sec"),
    "sec-group": (sec(inner="<mj-group>" + (COL % "A") + (COL % "B") + "</mj-group>"), "Sec"),
    "sec-empty": (sec(inner=""), "Sec"),
    "sec-raw": (sec(inner="<mj-raw><p>rawc</p></mj-raw>" + (COL % "A")), "Sec"),
    "sec-padcol": (sec(inner='<mj-column padding="10px" border="1px solid #000" background-color="#eee"><mj-image src="https://x/a.png"/></mj-column>'), "Sec"),
    "sec-bgcolor": (sec(' background-color="#ff0000" border="1px solid #000"'), "Sec"),
    "wrap": ("<mj-wrapper>" + sec() + "</mj-wrapper>", "Wrap"),
    "wrap-fw": ('<mj-wrapper full-width="full-width">' + sec() + "</mj-wrapper>", "FullWrap"),
    "wrap-bg-fwchild": ('<mj-wrapper background-color="#00ff00">' + sec(' full-width="full-width"') + "</mj-wrapper>", "Wrap"),
    "wrap-bgchild": ("<mj-wrapper>" + sec(BG) + "</mj-wrapper>", "Wrap"),
    "wrap-fw-bgchild": ('<mj-wrapper full-width="full-width">' + sec(' full-width="full-width"' + BG) + "</mj-wrapper>", "FullWrap"),
    "wrap-2sec": ('<mj-wrapper padding="10px" border="1px solid #000">' + sec() + sec(' background-color="#eee"') + "</mj-wrapper>", "Wrap"),
    "wrap-raw": ("<mj-wrapper>" + sec() + "<mj-raw><p>rw</p></mj-raw>" + sec() + "</mj-wrapper>", "Wrap"),
    "wrap-empty": ("<mj-wrapper></mj-wrapper>", "Wrap"),
    "hero": ('<mj-hero background-url="https://x.test/h.png" background-color="#222"><mj-text>H</mj-text><mj-button href="https://x">hb</mj-button></mj-hero>', "Other"),
    "raw": ("<mj-raw><div class=\"rawtop\">R</div></mj-raw>", "Other"),
}
QUICK14 = ["sec", "sec-fw", "sec-bg", "sec-fw-bg", "sec-class", "sec-2col", "sec-group", "sec-empty", "wrap", "wrap-fw", "wrap-bg-fwchild",
           "hero", "raw", "sec-raw", "sec-right", "sec-fw-class", "wrap-fw-class", "sec-bg-class"]


HEAD = ('<mj-head><mj-attributes><mj-class name="fwc" full-width="full-width" /><mj-class name="bgc" background-url="https://x.test/bg.png" />'
        '</mj-attributes></mj-head>')


def doc_of(names):
    return "<mjml>%s<mj-body>%s</mj-body></mjml>" % (HEAD, "".join(BLOCKS[n][0] for n in names))


def body_inner(html):
    """the content of the body's article div"""
    k = html.find('role="article"')
    if k < 0:
        return None
    a = html.find(">", k) + 1
    b = html.rfind("</div></body>")
    if b < a:
        return None
    return html[a:b]


# quick tier: all pairs over QUICK14, plus all triples over a small alphabet built around the blocks with code paths of their own
TRIPLE8 = ["sec", "sec-bg", "sec-fw", "wrap", "sec-right", "sec-bg-right", "sec-fw-class", "raw"]


def sequences(quick):
    names = QUICK14 if quick else list(BLOCKS)
    maxlen = 2 if quick else 3
    out = []
    for n in range(1, maxlen + 1):
        out += [list(t) for t in itertools.product(names, repeat=n)]
    if quick:
        out += [[n] for n in TRIPLE8 if n not in names]
        out += [list(t) for t in itertools.product(TRIPLE8, repeat=3)]
    return out


def render_all(hb, srcs):
    jobs = [{"id": i, "src": s} for i, s in enumerate(srcs)]
    res, dead = common.run_jobs(hb, "render", jobs)
    return res, dead


def check_outputs(mr, htmls):
    """-> list of 3-char strings: std ok, mso ok, no outlook-only markup outside a block"""
    return vlib.model_run(mr, [("check", h.encode("utf8", "replace")) for h in htmls])
