"""C05 — compilation is deterministic.

T: gen/nondet.go lists every map-range loop (with its shape class) and every clock / random / seed / goroutine
site; C05_sites_ok is recomputed; the accepted shapes are proved order independent in Det/Perm.v, Det/Sorted.v.
H: every document rendered 20x in one process and in 3 fresh processes; bytes must agree after unifying the
permitted random identifiers, and the number of distinct identifiers must be the number of id-bearing components.
"""
import json

import docgen
import vlib
from checks import common

FONTDOC = ('<mjml><mj-body><mj-section><mj-column><mj-text font-family="Roboto">a</mj-text><mj-text font-family="Lato">b</mj-text>'
           '<mj-text font-family="Open Sans, Montserrat">c</mj-text></mj-column></mj-section></mj-body></mjml>')


def id_components(d):
    n = 0
    for x in docgen.walk(d):
        if x["tag"] == "mj-carousel":
            n += 1
        if x["tag"] == "mj-navbar" and x["attrs"].get("hamburger") == "hamburger":
            n += 1
    return n


def explore(ck, hb, docs, reps=20):
    jobs = [{"id": i, "src": s, "n": reps, "want_ids": w} for i, (s, w, _) in enumerate(docs)]
    runs = []
    for p in range(3):  # three fresh processes; the third compiles with the cache option (repeated calls then share one parsed tree)
        # the second run takes the documents in reverse order: every document then follows other compilations than in the first run
        # ("regardless of what was compiled before")
        order = jobs[::-1] if p == 1 else jobs
        res, dead = common.run_jobs(hb, "repeat", [dict(j, cache=(p == 2)) for j in order], procs=8)
        runs.append(res)
        if dead:
            return [({"src": dead[0][0]["src"]}, "process died: " + dead[0][2][-200:])]
    failing = []
    for j in jobs:
        rs = [r.get(j["id"]) for r in runs]
        if any(r is None for r in rs):
            continue
        tags = docs[j["id"]][2]
        ck.count(j["src"], len(tags) >= 2, tags=tags)
        if any(r["distinct"] != 1 for r in rs):
            failing.append(({"src": j["src"]}, "different outputs within one process: %d distinct in %d calls" % (max(r["distinct"] for r in rs), reps)))
        elif len({r["sha"] for r in rs}) != 1:
            failing.append(({"src": j["src"]}, "different outputs across fresh processes"))
        elif j["want_ids"] is not None and rs[0]["err"] == "none" and rs[0]["ids"] != j["want_ids"]:
            failing.append(({"src": j["src"], "ids_found": rs[0]["ids"], "id_components": j["want_ids"]},
                            "random identifier inconsistent: %d distinct identifiers for %d id-bearing components" % (rs[0]["ids"], j["want_ids"])))
    return failing


def run(ck):
    ck.cov["trusted_base"] = vlib.TRUSTED_COMMON + [
        "translator gen/nondet.go: map-typed range detection, syntactic shape classification of loop bodies, function-local taint of clock reads",
        "Go map iteration visits each entry exactly once in an unspecified order (modelled as an arbitrary permutation of a duplicate-free list)",
    ]
    ck.assumptions = ["per-process seeds other than map order, math/rand and maphash (none found by the scan) are outside the model"]
    ok, mlog = common.prove_with_facts(ck, "Properties/C05.v")
    facts = vlib.load_facts()
    bad_sites = [r for r in facts.get("range_sites", []) if r["shape"] not in ("KeyedStore", "SortedAfter")]
    bad_calls = [c for c in facts.get("nd_calls", []) if c["class"] == "Escapes"]
    ck.fact_obligations(len(facts.get("range_sites", [])) + len(facts.get("nd_calls", [])), ok)
    ck.cov["range_sites"] = facts.get("range_sites")
    ck.cov["nondeterministic_calls"] = facts.get("nd_calls")
    hb, msg = vlib.build_harness()
    docs = [(FONTDOC, 0, ["fonts:3", "multi-font"])]
    for n, s in common.fixture_docs(4 if ck.quick else 1):
        docs.append((s, None, ["fixture", "fixture:" + n.split("-")[1] if "-" in n else "fixture"]))
    g = docgen.Gen(ck.rng, attr_prob=0.3)
    for _ in range(250 if ck.quick else 5000):
        d = g.document()
        fonts = {x["attrs"]["font-family"] for x in docgen.walk(d) if "font-family" in x["attrs"]}
        tags = ["generated"] + (["multi-font"] if len(fonts) >= 2 else []) + (["ids"] if id_components(d) else []) + \
               (["mj-class"] if any("mj-class" in x["attrs"] for x in docgen.walk(d)) else []) + \
               (["head-attributes"] if any(x["tag"] == "mj-attributes" for x in docgen.walk(d)) else []) + \
               (["multi-column"] if sum(1 for x in docgen.walk(d) if x["tag"] == "mj-column") >= 3 else [])
        if len(docs) % 3 == 0:
            docgen.with_inline_classes(d, ck.rng)
            tags.append("inline-classes")
        docs.append((docgen.to_mjml(d), id_components(d), tags))
    failing = explore(ck, hb, docs)
    ck.sample({"document": FONTDOC, "calls": "20 in-process x 3 fresh processes"})
    ck.sample({"document": docs[-1][0][:300]})
    ck.cov["rule"] = ("fixtures + generated documents (weighted: several font families, mj-class, mj-attributes, several columns, carousels / "
                      "hamburger navbars), each rendered 20x in-process in 3 fresh processes (the second taking the documents in reverse order, the third with the cache option); equality after unifying 16-hex identifiers; "
                      "identifier count = number of id-bearing components. Non-trivial: >= 2 of those features; distinct by source.")
    if not failing and (bad_sites or bad_calls):
        # a site lost its determinism class: search harder on multi-font / multi-class documents
        g2 = docgen.Gen(ck.rng, attr_prob=0.5)
        more = [(docgen.to_mjml(g2.document()), None, ["search"]) for _ in range(600)]
        failing = explore(ck, hb, more, reps=40)
    common.report(ck, failing, ok, mlog, "C05_sites_ok: order-dependent or unclassified sites: %s" % json.dumps(bad_sites + bad_calls)[:1500])


def replay(ck, path):
    rp = json.load(open(path))
    hb, msg = vlib.build_harness()
    f = explore(ck, hb, [(rp["input"]["src"], None, ["replay"])], reps=60)
    ck.cov["distinct_nontrivial"] = 2
    print(f or "deterministic on this input (60 calls x 3 processes)")
    if f:
        ck.violation({"kind": "replayed", "why": f[0][1], "input": rp["input"]})
