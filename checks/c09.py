"""C09 — attribute values resolve by MJML precedence, independent of source.

Theorems: coq/Properties/C09.v (resolver = precedence rule; bypassing accessor kinds refuted; cell table recomputed).
T: every attribute-accessor call site with its kind (Facts/Accessors.v).  H: the finite matrix
(tag x accepted attribute x source level), enumerated exhaustively: value on the element vs value moved to a lower
priority source, bodies compared; plus competing-level pairs.
"""
import copy
import json
import re

import docgen
import vlib
from checks import common
from checks.c17 import place as _place, N


def place(tag, node):
    """as C17's placement, but a wrapper gets two sections whose widths depend on the wrapper's box"""
    if tag == "mj-wrapper" and not node["children"]:
        sec = lambda: N("mj-section", kids=[N("mj-column", kids=[N("mj-image", {"src": "https://x/a.png"})]), N("mj-column", kids=[N("mj-text", text="t")])])
        node["children"] = [sec(), sec()]
    return _place(tag, node)

LEVELS = ["class", "tagdef", "tagdef>all", "class>tagdef", "elem>class"]

# a child component may also look at its parent (values the parent hands down are not one of the five sources: whichever of the child's own
# sources carries the winner, the rendered body must be the same).  Second family of cells "<tag>@parent": the parent carries these.
PARENT_CTX = {
    "mj-social-element": ("mj-social", {"inner-padding": "8px", "icon-size": "31px", "font-size": "15px", "color": "#123456", "border-radius": "5px",
                                        "icon-padding": "3px", "text-padding": "5px 6px", "line-height": "21px", "icon-height": "33px"}),
    "mj-navbar-link": ("mj-navbar", {"base-url": "https://base.example", "hamburger": "hamburger"}),
    "mj-accordion-element": ("mj-accordion", {"icon-width": "21px", "icon-height": "23px", "icon-position": "left", "border": "1px solid #ff0000",
                                              "font-family": "Courier", "padding": "7px", "icon-align": "top"}),
    "mj-accordion-title": ("mj-accordion-element", {"font-family": "Courier", "icon-width": "21px", "icon-position": "left", "background-color": "#eeeeee"}),
    "mj-accordion-text": ("mj-accordion-element", {"font-family": "Courier", "background-color": "#eeeeee"}),
    "mj-carousel-image": ("mj-carousel", {"border-radius": "4px", "tb-border": "1px solid #0000ff", "tb-border-radius": "3px", "tb-width": "50px",
                                          "thumbnails": "visible"}),
    "mj-column": ("mj-section", {"padding": "10px 20px", "text-align": "left", "direction": "rtl"}),
}


def with_inline_rules(d):
    head = next((c for c in d["children"] if c["tag"] == "mj-head"), None)
    if head is None:
        head = N("mj-head")
        d["children"].insert(0, head)
    head["children"].append(N("mj-style", {"inline": "inline"}, text="\n.kk { color: red; letter-spacing: 2px }\n.jj { margin: 1px }\n"))
    return d


def with_parent(d, tag):
    """set the PARENT_CTX attributes on every parent of a <tag> element of document d"""
    ptag, attrs = PARENT_CTX[tag]
    def walk(n):
        for c in n.get("children", []):
            if c["tag"] == tag and n["tag"] == ptag:
                for k, v in attrs.items():
                    n["attrs"].setdefault(k, v)
            if c["tag"] != "mj-head":
                walk(c)
    walk(d)
    return d


def body_of(html):
    i = html.find("<body")
    h = html[i:] if i >= 0 else html
    return re.sub(r"[0-9a-f]{16}", "ID", h)


def context(tag, attr, node):
    """observability context: attributes that only show in combination with another one"""
    a = node["attrs"]
    if attr.startswith("background-") and attr not in ("background-url", "background-color") and tag in ("mj-section", "mj-wrapper", "mj-hero"):
        a.setdefault("background-url", "https://x/bg.png")
    if tag == "mj-navbar" and attr.startswith("ico-"):
        a.setdefault("hamburger", "hamburger")
    if attr in ("target", "rel", "title") and tag in ("mj-button", "mj-image", "mj-navbar-link", "mj-social-element", "mj-carousel-image"):
        a.setdefault("href", "https://x/link")
    if tag == "mj-hero" and attr in ("height", "background-height", "background-width"):
        a.setdefault("mode", "fixed-height")
        a.setdefault("background-url", "https://x/bg.png")
    if tag == "mj-carousel" and attr.startswith("tb-"):
        a.setdefault("thumbnails", "visible")
    if tag == "mj-image" and attr in ("srcset", "sizes", "usemap"):
        pass


def pick_values(rng, tag, attr, typ):
    if typ == "color":
        return "#ff0000", "#123456"      # fixed: the matrix does not depend on the generator's colour pool; "#abc" has cells of its own
    vals = []
    for _ in range(12):
        v = docgen.typed_value(rng, attr, typ)
        if v and v not in vals and v not in ("v",):
            vals.append(v)
    if attr == "css-class":
        vals = ["kk", "jj"]
    if len(vals) < 2:
        vals += ["7px", "9px"]
    return vals[0], vals[1]


def build(tag, attr, v, w, level):
    """returns (docA, docB): same winner, value moved between sources"""
    def doc(elem_attrs, cls=None, tagd=None, alld=None):
        node = N(tag, dict(elem_attrs))
        context(tag, attr, node)
        if cls is not None:
            node["attrs"]["mj-class"] = "c1"
        d = place(tag, node)
        ak = []
        if cls is not None:
            ak.append(N("mj-class", dict({"name": "c1"}, **cls)))
        if tagd is not None:
            ak.append(N(tag, tagd))
        if alld is not None:
            ak.append(N("mj-all", alld))
        if ak:
            head = None
            for c in d["children"]:
                if c["tag"] == "mj-head":
                    head = c
            if head is None:
                head = N("mj-head")
                d["children"].insert(0, head)
            head["children"].append(N("mj-attributes", kids=ak))
        return d
    if level == "class":
        return doc({attr: v}), doc({}, cls={attr: v})
    if level == "tagdef":
        return doc({attr: v}), doc({}, tagd={attr: v})
    if level == "tagdef>all":     # same mj-all in both documents; the tag default must beat it
        return doc({attr: v}, alld={attr: w}), doc({}, tagd={attr: v}, alld={attr: w})
    if level == "class>tagdef":
        return doc({attr: v}, tagd={attr: w}), doc({}, cls={attr: v}, tagd={attr: w})
    if level == "elem>class":
        return doc({attr: v}), doc({attr: v}, cls={attr: w})
    raise ValueError(level)


def matrix(ck, hb, facts):
    table = dict(facts["allowed_table"])
    if "mj-wrapper" not in table and "mj-section" in table:
        # mj-wrapper has no entry in the validation table (C17 finding) but resolves the same attributes as a section
        table["mj-wrapper"] = {a: t for a, t in table["mj-section"].items() if a in (
            "background-color", "border", "border-bottom", "border-left", "border-right", "border-top", "border-radius", "padding", "padding-bottom",
            "padding-left", "padding-right", "padding-top", "text-align", "css-class")}
    # css-class is a global attribute (not in the per-tag table): every body component resolves it
    for t in list(table):
        if t in facts["factory_tags"] and t not in ("mjml", "mj-head", "mj-title", "mj-preview", "mj-font", "mj-style", "mj-breakpoint", "mj-attributes", "mj-all", "mj-class", "mj-raw"):
            table[t] = dict(table[t], **{"css-class": "string"})
    jobs, meta = [], []
    rng = ck.rng
    for tag in sorted(table):
        if tag not in facts["factory_tags"] or tag in ("mj-raw", "mj-style", "mj-font"):
            continue
        for attr, typ in sorted(table[tag].items()):
            if attr in ("mj-class", "name", "src", "href", "inline") and attr != "href":
                continue
            import random as _random
            v, w = pick_values(_random.Random("%s/%s" % (tag, attr)), tag, attr, typ)   # fixed per cell: the matrix does not depend on the seed
            variants = [(False, False)] + ([(True, False)] if tag in PARENT_CTX else []) + ([(False, True)] if typ == "color" else [])
            for ctx, short in variants:
                wrap = (lambda d: with_parent(d, tag)) if ctx else (lambda d: d)
                if attr == "css-class":
                    # what a class does besides being written: it selects inline mj-style rules - also when it arrives through mj-class
                    wrap = with_inline_rules
                name = tag + "@parent" if ctx else (tag + "#short-hex" if short else tag)
                if short:       # three-digit hex colours: a component that normalises the value on one route only treats sources differently
                    v, w = "#abc", "#DeF"
                base = wrap(place(tag, (lambda n: (context(tag, attr, n), n)[1])(N(tag))))
                jobs.append({"id": len(jobs), "src": docgen.to_mjml(base)})
                meta.append((name, attr, "base", v, w))
                for level in LEVELS:
                    if tag in ("mj-attributes", "mj-all", "mj-head", "mj-title", "mj-preview", "mj-breakpoint"):
                        continue
                    a, b = build(tag, attr, v, w, level)
                    for which, d in (("A", wrap(a)), ("B", wrap(b))):
                        jobs.append({"id": len(jobs), "src": docgen.to_mjml(d)})
                        meta.append((name, attr, level + ":" + which, v, w))
    res, dead = common.run_jobs(hb, "render", jobs)
    cells = {}
    for j, m in zip(jobs, meta):
        r = res.get(j["id"])
        cells.setdefault((m[0], m[1]), {})[m[2]] = (body_of(r["html"]) if r else None, r["err"]["class"] if r else "dead", j["src"], m[3], m[4])
    return cells


def classify(cells):
    """-> {(tag, attr, level): 'ok' | 'bad' | 'inert'} and sources for the bad ones"""
    out, srcs = {}, {}
    for (tag, attr), c in cells.items():
        base = c.get("base")
        for level in LEVELS:
            A, B = c.get(level + ":A"), c.get(level + ":B")
            if not A or not B or A[0] is None or B[0] is None:
                continue
            if level in ("class", "tagdef") and base and A[0] == base[0]:
                out[(tag, attr, level)] = "inert"      # the element-level value itself shows no effect here
                continue
            if A[0] == B[0]:
                out[(tag, attr, level)] = "ok"
            else:
                out[(tag, attr, level)] = "bad"
                srcs[(tag, attr, level)] = (A[2], B[2])
    return out, srcs


def predicted_bad(facts):
    """from the accessor facts: cells some reading site of which ignores a source level"""
    tagof = facts["comp_tags"]
    pred = {}
    for s in facts["acc_sites"]:
        tag = tagof.get(s["comp"])
        if not tag or s["attr"] == "?":
            continue
        if s["kind"] == "NoGlobal":
            pred.setdefault((tag, s["attr"]), set()).update(["tagdef", "tagdef>all"])
        if s["kind"] == "NodeOnly":
            pred.setdefault((tag, s["attr"]), set()).update(["class", "tagdef", "tagdef>all", "class>tagdef"])
    return pred


def run(ck):
    ck.cov["trusted_base"] = vlib.TRUSTED_COMMON + [
        "translator gen/tables.go: accessor call sites with constant-folded attribute names and accessor kind; forwarding wrappers resolved structurally",
        "normalizeAttributeValue = Attr.Color.norm (proved idempotent and emptiness-preserving; compared with the hook on generated (name, value) pairs per run); attribute names are ASCII (strings.ToLower modelled on ASCII letters)",
    ]
    ok, mlog = common.prove_with_facts(ck, "Properties/C09.v")
    facts = vlib.load_facts()
    ck.fact_obligations(len(facts["acc_sites"]), ok)
    hb, msg = vlib.build_harness()
    cells = matrix(ck, hb, facts)
    verdict, srcs = classify(cells)
    counts = {}
    for k, v in verdict.items():
        counts[v] = counts.get(v, 0) + 1
        ck.count("%s|%s|%s" % k, v != "inert", tags=["level:" + k[2], "verdict:" + v])
    ck.cov["matrix"] = counts
    ck.cov["exhaustive"] = True
    known = {(k["tag"], k["attr"]): k for k in vlib.known_findings("C09")}
    for (t, a), k in list(known.items()):
        if t in PARENT_CTX:
            known.setdefault((t + "@parent", a), k)
        if "#" not in t and "@" not in t:
            known.setdefault((t + "#short-hex", a), k)
    announced = set()
    pred = predicted_bad(facts)
    failing = []
    for k, v in sorted(verdict.items()):
        if v != "bad":
            continue
        if (k[0], k[1]) in known and k[2] in known[(k[0], k[1])].get("levels", LEVELS):
            if known[(k[0], k[1])]["id"] not in announced:
                announced.add(known[(k[0], k[1])]["id"])
                ck.known("%s: %s" % (known[(k[0], k[1])]["id"], known[(k[0], k[1])]["what"]))
            continue
        explained = k[2] in pred.get((k[0], k[1]), set())
        failing.append(({"tag": k[0], "attr": k[1], "level": k[2], "doc_value_on_element": srcs[k][0], "doc_value_moved": srcs[k][1],
                         "a_bypassing_accessor_site_explains_it": explained},
                        "%s/%s: moving the value to '%s' changes the rendered body" % k))
    # the same matrix with the value EQUAL to the component's built-in default (a component that tests "is the attribute written on
    # the node" instead of the resolved value treats sources differently exactly there)
    comp2tag = dict(facts["comp_tags"])
    djobs, dmeta = [], []
    for dft in facts["defaults"]:
        tag = comp2tag.get(dft["comp"])
        if not tag or not dft["val"] or dft["dynamic"] or dft["attr"] not in facts["allowed_table"].get(tag, {}) or (tag, dft["attr"]) in known:
            continue
        for level in ("tagdef", "class"):
            na = N(tag, {dft["attr"]: dft["val"]})
            context(tag, dft["attr"], na)
            nb = N(tag, {"mj-class": "dc"} if level == "class" else {})
            context(tag, dft["attr"], nb)
            a, b = place(tag, na), place(tag, nb)
            entry = N(tag, {dft["attr"]: dft["val"]}) if level == "tagdef" else N("mj-class", {"name": "dc", dft["attr"]: dft["val"]})
            b["children"].insert(0, N("mj-head", kids=[N("mj-attributes", kids=[entry])]))
            djobs += [{"id": len(djobs), "src": docgen.to_mjml(a)}, {"id": len(djobs) + 1, "src": docgen.to_mjml(b)}]
            dmeta.append((tag, dft["attr"], level, dft["val"]))
    dres, _ = common.run_jobs(hb, "render", djobs)
    default_bad = set()
    for i, (tag, attr, level, val) in enumerate(dmeta):
        ra, rb = dres.get(2 * i), dres.get(2 * i + 1)
        ck.count("default-valued|%s|%s|%s" % (tag, attr, level), True, tags=["default-valued-cell"])
        if ra and rb and ra.get("html") and rb.get("html") and body_of(ra["html"]) != body_of(rb["html"]):
            kk = (tag + "#default", attr)
            default_bad.add((tag, attr))
            if kk in known:
                if kk not in announced:
                    announced.add(kk)
                    ck.known("%s: %s" % (known[kk]["id"], known[kk]["what"]))
            else:
                failing.append(({"tag": tag, "attr": attr, "level": level, "value": val, "doc_value_on_element": djobs[2 * i]["src"], "doc_value_moved": djobs[2 * i + 1]["src"]},
                                "%s/%s: a value equal to the built-in default renders differently when it comes from '%s'" % (tag, attr, level)))
    default_vals = {(comp2tag.get(dft["comp"]), dft["attr"]): dft["val"] for dft in facts["defaults"]}
    ck.sample({"cell": ["mj-text", "color", "tagdef"], "docs": [cells[("mj-text", "color")]["tagdef:A"][2], cells[("mj-text", "color")]["tagdef:B"][2]]})
    # random whole documents rewritten by inlining their head defaults
    g = docgen.Gen(ck.rng, attr_prob=0.2)
    jobs = []
    docs = []
    for _ in range(150 if ck.quick else 4000):
        d = g.document(with_head=True)
        d2 = inline_defaults(d, frozenset(known), frozenset((t, a, default_vals.get((t, a))) for t, a in default_bad))
        if d2 is None:
            continue
        docs.append((d, d2))
        jobs.append({"id": len(jobs), "src": docgen.to_mjml(d)})
        jobs.append({"id": len(jobs), "src": docgen.to_mjml(d2)})
    res, dead = common.run_jobs(hb, "render", jobs)
    known_cells = set(known)
    inl_bad = 0
    for i, (d, d2) in enumerate(docs):
        a, b = res.get(2 * i), res.get(2 * i + 1)
        if not a or not b:
            continue
        ck.count(jobs[2 * i]["src"], True, tags=["inlined-defaults"])
        if body_of(a["html"]) != body_of(b["html"]):
            moved = d2["_moved"]
            inl_bad += 1
            if inl_bad <= 1:
                failing.append(({"src": jobs[2 * i]["src"], "src_inlined": jobs[2 * i + 1]["src"], "moved": sorted(set(moved))},
                                "inlining tag defaults into the elements changes the rendered body"))
    store_tie(ck, hb, failing, ok)
    norm_tie(ck, hb, failing, ok)
    ck.sample({"inlined_defaults_pair": [jobs[0]["src"][:300], jobs[1]["src"][:300]]} if jobs else {})
    ck.cov["rule"] = ("every (constructible tag, accepted attribute) x source level {mj-class, tag default, tag default over mj-all, mj-class over tag "
                      "default, element over mj-class}: document with the value on the element vs document with the value moved, bodies compared "
                      "(ids unified); cells whose element-level value shows no effect in the minimal template are 'inert'. Exhaustive. Plus generated "
                      "documents with their per-tag head defaults inlined into every element of that tag. Non-trivial: non-inert cell.")
    if common.report(ck, failing, ok, mlog, "coq/Properties/C09.v (cone) no longer compiles", limit=6, key=lambda w: w):
        return


def norm_tie(ck, hb, failing, ok):
    """normalizeAttributeValue (hook) vs Attr.Color.norm under vm_compute, on generated (name, value) pairs"""
    rng = ck.rng
    names = ["color", "background-color", "container-background-color", "Color", "BACKGROUND-COLOR", "inner-background-color", "ico-color", "colour", "colo",
             "padding", "border", "tb-hover-border-color", "xcolorx", "", "c", "font-family", "COLOR ", "co lor", "border-colour", "mycolor-thing"]
    hexd = "0123456789abcdefABCDEF"
    other = "ghGZ#xX- ;,()%.\t"
    cases = []
    for i in range(600 if ck.quick else 20000):
        k = rng.random()
        if k < 0.35:
            v = "#" + "".join(rng.choice(hexd) for _ in range(3))
        elif k < 0.5:
            v = "#" + "".join(rng.choice(hexd + (other if rng.random() < 0.3 else "")) for _ in range(rng.choice([0, 1, 2, 3, 3, 4, 5, 6, 7, 8])))
        elif k < 0.6:
            v = "".join(rng.choice(hexd) for _ in range(rng.choice([3, 4, 6])))
        elif k < 0.75:
            v = rng.choice(["red", "transparent", "rgb(1,2,3)", "rgba(0,0,0,.5)", "", " ", "#", "##ab", "#abc ", " #abc", "#ABC", "#aBc", "#1234", "#12345", "#123456", "#é1", "é#ab", "#ab\u00e9"])
        else:
            v = "".join(rng.choice("#" + hexd + other) for _ in range(rng.randint(0, 7)))
        cases.append((i, rng.choice(names), v))
    res, dead = common.run_jobs(hb, "normvalue", [{"id": i, "name": n, "value": v} for i, n, v in cases])

    def cs(x):      # a Coq string literal holding exactly the bytes of x (list of bytes via String / ascii_of_nat)
        b = x.encode("utf-8")
        if all(32 <= c < 127 and c != 34 for c in b):
            return '"%s"' % x
        out = '""'
        for c in reversed(b):
            out = "(String (Ascii.ascii_of_nat %d) %s)" % (c, out)
        return out
    rows = []
    for i, n, v in cases:
        r = res.get(i)
        if r is None:
            continue
        changed = r["out"] != v
        ck.count("norm:%s|%s" % (n, v), changed, tags=["normalisation", "normalised:%s" % changed])
        rows.append("(%d, %s, %s, %s)" % (i, cs(n), cs(v), cs(r["out"])))
        lower = n.lower()
        want = v
        if v and "color" in lower and len(v.encode()) == 4 and v[0] == "#" and all(c in hexd for c in v[1:]):
            want = "#" + "".join(c + c for c in v[1:])
        if r["out"] != want:
            failing.append(({"attribute": n, "value": v, "normalised": r["out"], "expected": want}, "normalizeAttributeValue is not '#rgb -> #rrggbb for colour attributes, identity otherwise'"))
    if ok and rows:
        body = ("From Coq Require Import List String Ascii.\nFrom GV Require Import Attr.Color.\nImport ListNotations.\nOpen Scope string_scope.\n"
                "Definition cases : list (nat * string * string * string) := [\n" + ";\n".join(rows) + "].\n"
                "Definition M := Eval vm_compute in norm_mismatches cases.\nPrint M.\n")
        eok, so, se, dt = vlib.coq_eval("c09_norm", body)
        m = re.search(r"M\s*=\s*(\[[^\]]*\])", so.replace("\n", " "))
        if not eok or not m:
            ck.cov["norm_model_cases"] = 0
            failing.append(({"evaluation": (se or so)[-400:]}, "Attr.Color.norm could not be evaluated on the observed cases"))
        else:
            bad = [int(x) for x in re.findall(r"\d+", m.group(1))]
            ck.cov["norm_model_cases"] = len(rows)
            ck.cov["norm_model_mismatches"] = len(bad)
            byid = {c[0]: c for c in cases}
            for i in bad[:3]:
                failing.append(({"attribute": byid[i][1], "value": byid[i][2], "normalised": res[i]["out"]},
                                "Attr.Color.norm and normalizeAttributeValue disagree (the model or the code changed)"))


def store_tie(ck, hb, failing, ok):
    """The attribute store built from the head (repeated tags / classes, several mj-attributes blocks, name= anywhere, two classes on
    one element): the real store's answers vs Attr/Store.v under vm_compute; and the same through a rendered document."""
    from checks import storelib
    rng = ck.rng
    cases = []
    for cid in range(400 if ck.quick else 6000):
        entries, blocks = storelib.gen_case(rng)
        cases.append((cid, entries, blocks, storelib.queries(rng, entries)))
    res, dead = common.run_jobs(hb, "store", [{"id": c[0], "src": storelib.to_src(c[2]), "queries": c[3]} for c in cases])
    rows = []
    for cid, entries, blocks, qs in cases:
        r = res.get(cid)
        if not r or "answers" not in r:
            continue
        rows.append((cid, entries, qs, r["answers"]))
        ck.count("store:" + storelib.to_src(blocks), len(entries) >= 3, tags=["store-entries:%d" % min(len(entries), 9), "store-blocks:%d" % len(blocks)])
    mism, errs = [], []
    if ok and rows:
        import concurrent.futures
        shards = [rows[k:k + 100] for k in range(0, len(rows), 100)]

        def work(a):
            k, sh = a
            eok, so, se, dt = vlib.coq_eval("c09_store_%d" % k, storelib.coq_cases(sh))
            m = storelib.parse_mismatches(so) if eok else None
            return m, (se or so)[-400:]
        with concurrent.futures.ThreadPoolExecutor(16) as ex:
            for m, e in ex.map(work, list(enumerate(shards))):
                if m is None:
                    errs.append(e)
                else:
                    mism += m
    ck.cov["store_cases_evaluated_in_coq"] = len(rows) if not errs else 0
    byid = {c[0]: c for c in cases}
    for cid in mism[:3]:
        c = byid[cid]
        failing.append(({"src": storelib.to_src(c[2]), "queries": c[3][:8], "answers": res[cid]["answers"][:8]},
                        "the attribute store (mj-attributes processing / mj-class merge) answers differently from Attr.Store (last definition in document order wins; "
                        "unmentioned attributes are kept; later class wins)"))
    if errs:
        failing.append(({}, "evaluation of Attr.Store cases failed: " + errs[0]))
    # end to end: the same through rendered documents
    jobs = []
    pairs = []
    for i in range(60 if ck.quick else 600):
        a1, a2 = rng.sample(["font-size", "line-height", "padding", "align"], 2)
        vals = {"font-size": ["11px", "17px", "23px"], "line-height": ["1.1", "1.7", "2.3"], "padding": ["1px", "7px", "13px"], "align": ["left", "center", "right"]}
        v1, v2, v3 = vals[a1]
        w1 = vals[a2][0]
        shape = i % 3
        if shape == 0:      # two classes on one element defining the same attribute: the later class wins
            head = '<mj-class %s="%s" name="ca" %s="%s"/><mj-class name="cb" %s="%s"/>' % (a1, v1, a2, w1, a1, v2)
            elem, expect = '<mj-text mj-class="ca cb">x</mj-text>', '<mj-text %s="%s" %s="%s">x</mj-text>' % (a1, v2, a2, w1)
        elif shape == 1:    # a second entry for the same tag keeps what it does not mention
            head = '<mj-text %s="%s"/><mj-button %s="%s"/><mj-text %s="%s"/>' % (a1, v1, a1, v3, a2, w1)
            elem, expect = '<mj-text>x</mj-text>', '<mj-text %s="%s" %s="%s">x</mj-text>' % (a1, v1, a2, w1)
        else:               # ... also across two mj-attributes blocks, and overrides what it mentions
            head = '<mj-text %s="%s" %s="%s"/></mj-attributes><mj-attributes><mj-text %s="%s"/>' % (a1, v1, a2, w1, a1, v2)
            elem, expect = '<mj-text>x</mj-text>', '<mj-text %s="%s" %s="%s">x</mj-text>' % (a1, v2, a2, w1)
        doc = lambda h, e: '<mjml><mj-head><mj-attributes>%s</mj-attributes></mj-head><mj-body><mj-section><mj-column>%s</mj-column></mj-section></mj-body></mjml>' % (h, e)
        pairs.append((doc(head, elem), doc("", expect)))
        jobs.append({"id": 2 * i, "src": pairs[-1][0]})
        jobs.append({"id": 2 * i + 1, "src": pairs[-1][1]})
    res2, dead = common.run_jobs(hb, "render", jobs)
    for i, (a, b) in enumerate(pairs):
        ra, rb = res2.get(2 * i), res2.get(2 * i + 1)
        if not ra or not rb:
            continue
        ck.count(a, True, tags=["store-end-to-end"])
        if body_of(ra["html"]) != body_of(rb["html"]):
            failing.append(({"src": a, "src_with_values_on_the_element": b}, "values reaching the element through mj-class / repeated tag defaults differ from the same values written on the element"))
            break


def inline_defaults(d, skip=frozenset(), skip_values=frozenset()):
    """move every <mj-attributes><TAG a=v/> default onto the elements of that tag that do not set a themselves"""
    d2 = copy.deepcopy(d)
    moved = []
    for n in docgen.walk(d2):
        if n["tag"] == "mj-attributes":
            keep = []
            for c in n["children"]:
                if c["tag"] in ("mj-all", "mj-class"):
                    keep.append(c)
                    continue
                # an element that names an mj-class ranks the class above the tag default: writing the default on the
                # element would change the winner, so defaults of such tags stay in the head
                if any(e["tag"] == c["tag"] and "mj-class" in e["attrs"] and not in_head(d2, e) for e in docgen.walk(d2)):
                    keep.append(c)
                    continue
                for e in docgen.walk(d2):
                    if e["tag"] == c["tag"] and e is not c and not in_head(d2, e):
                        for a, v in c["attrs"].items():
                            if a not in e["attrs"] and (c["tag"], a) not in skip and (c["tag"], a, v) not in skip_values:
                                e["attrs"][a] = v
                                moved.append((c["tag"], a))
                rest = {a: v for a, v in c["attrs"].items() if (c["tag"], a) in skip or (c["tag"], a, v) in skip_values}
                if rest:
                    keep.append(dict(c, attrs=rest))     # listed known cells stay where they are
            n["children"] = keep
    if not moved:
        return None
    d2["_moved"] = moved
    return d2


def in_head(doc, e):
    for n in docgen.walk(doc):
        if n["tag"] == "mj-head":
            return any(x is e for x in docgen.walk(n))
    return False


def replay(ck, path):
    rp = json.load(open(path))
    hb, msg = vlib.build_harness()
    inp = rp["input"]
    a, b = (inp["doc_value_on_element"], inp["doc_value_moved"]) if "doc_value_moved" in inp else (inp["src"], inp["src_inlined"])
    res, dead = common.run_jobs(hb, "render", [{"id": 0, "src": a}, {"id": 1, "src": b}])
    same = body_of(res[0]["html"]) == body_of(res[1]["html"])
    ck.count(a)
    ck.cov["distinct_nontrivial"] = 2
    print("bodies equal" if same else "bodies differ")
    if not same:
        ck.violation({"kind": "replayed", "input": inp})
