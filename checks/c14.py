"""C14 — cache entries obey a fixed TTL, are evicted, and any configuration is safe.

Theorems: coq/Properties/C14.v. Tie (H): boundary histories around the expiry instant (expiry shifting, no
sleeps), repeated hits, eviction by the real cleaner, once-only setters and every boundary configuration of
TTL / interval, each in a fresh process; all replayed through Cache.Check under vm_compute.
"""
import itertools
import json

import vlib
from checks import cachelib as cl
from checks.cachelib import MIN, op_render as R, op_adv as A, TICK, STOP

MAXI = 2 ** 63 - 1
TTL_B = [None, 0, -10 ** 9, 1, 10 ** 6, 10 * MIN, MAXI]
IV_B = [None, 0, -10 ** 9, 1, 10 ** 6, 3600 * 10 ** 9, MAXI]


def scenarios():
    """(name, config, ops, expectation) - expectation(res) -> reason or None; model-free direct oracle"""
    S = []

    def parsed(res, i):
        return res["steps"][i].get("parsed")

    S.append(("hit-before-expiry", "unswept", [R(0), A(9 * MIN), R(0)],
              lambda r: None if parsed(r, 2) == 0 else "entry not reused 1 minute before its expiry"))
    S.append(("miss-at-expiry", "unswept", [R(0), A(10 * MIN), R(0)],
              lambda r: None if parsed(r, 2) == 1 else "entry reused at/after its expiry"))
    S.append(("miss-after-expiry", "unswept", [R(0), A(11 * MIN), R(0)],
              lambda r: None if parsed(r, 2) == 1 else "entry reused after its expiry"))
    S.append(("hits-do-not-extend", "unswept", [R(0), A(6 * MIN), R(0), A(6 * MIN), R(0)],
              lambda r: None if (parsed(r, 2), parsed(r, 4)) == (0, 1) else "a hit extended the expiry (or the hit was a miss)"))
    S.append(("recached-after-expiry", "unswept", [R(0), A(10 * MIN), R(0), A(9 * MIN), R(0)],
              lambda r: None if (parsed(r, 2), parsed(r, 4)) == (1, 0) else "template not re-cached with a fresh TTL after expiry"))
    S.append(("expired-entry-replaced", "unswept", [R(0), A(10 * MIN), R(0)],
              lambda r: None if r["steps"][2]["len"] == 1 else "expired entry not replaced by exactly one fresh entry"))
    S.append(("eviction-by-cleaner", "swept", [R(0), R(2), A(11 * MIN), TICK],
              lambda r: None if r["steps"][3]["len"] == 0 else "expired entries still stored after a cleanup sweep"))
    S.append(("no-early-eviction", "swept", [R(0), R(2), A(10 * MIN), TICK],
              lambda r: None if r["steps"][3]["len"] == 2 else "live entries evicted before their expiry"))
    S.append(("stop-and-restart", "swept", [R(0), STOP, R(0), A(11 * MIN), TICK],
              lambda r: None if (r["steps"][1]["running"], r["steps"][2]["running"], r["steps"][4]["len"]) == (False, True, 0)
              else "cleanup not stopped / not restarted by the next cached compilation / restarted cleaner does not evict"))
    S.append(("once-setters-ignored-later", "unswept", [{"op": "setttl", "ns": MIN}, {"op": "setinterval", "ns": MIN}, R(0), A(5 * MIN), R(0)],
              lambda r: None if (parsed(r, 4) == 0 and r["ttl_ns"] == cl.TTL and r["interval_ns"] == 3600 * 10 ** 9)
              else "configuration is not the one the first setter calls asked for (or a later call changed it)"))
    return S


def expected_config(ttl, iv):
    t = ttl if ttl is not None else 5 * MIN
    if iv is not None:
        i = iv
    elif ttl is not None:
        i = int(abs(ttl) // 2) * (1 if ttl >= 0 else -1)
    else:
        i = 150 * 10 ** 9
    return t, i


def run(ck):
    ck.cov["trusted_base"] = vlib.TRUSTED_COMMON + [
        "logical time in the model: time.Ticker fires at started + k*period (jitter and dropped ticks are runtime behaviour); int64 overflow of durations is outside the model",
        "hook VerifCacheShiftExpiries stands for the passage of time",
    ]
    ck.assumptions = ["real ticker jitter is runtime behaviour: eviction is observed by awaiting two completed sweeps (2 s deadline)"]
    ok, mlog = ck.prove("Properties/C14.v", extra_targets=["Cache/Check.v"])
    hb, msg = vlib.build_harness()
    if not hb:
        ck.violation({"kind": "build-failed", "log": msg[-3000:]}, no_input=True)
        return
    failing, terms, info = [], [], {}
    nid = itertools.count()

    # 1. boundary scenarios with model-free expectations
    scen = scenarios()
    for config in ("unswept", "swept"):
        sel = [(next(nid), s) for s in scen if s[1] == config]
        res, crashed = cl.run_histories(hb, [(i, s[2]) for i, s in sel], config, procs=4)
        if crashed:
            failing.append(({"config": config}, "process died while running boundary scenarios: %s" % crashed[0]))
        args, await_, cfg = cl.CONFIGS[config]
        for i, s in sel:
            r = res.get(i)
            ck.count("scenario:" + s[0], True, tags=["scenario"])
            if r is None:
                continue
            why = s[3](r)
            if why:
                failing.append(({"scenario": s[0], "config": config, "history": s[2], "history_text": cl.hist_text(s[2]), "observed": r}, why))
            terms.append(cl.coq_hist(i, s[2], r, await_, cfg))
            info[i] = (config, s[2])
    ck.sample({"scenario": scen[3][0], "history": cl.hist_text(scen[3][2])})

    # 2. every boundary configuration in a fresh process
    ops_cfg = [R(0), R(0), R(3), A(MIN), R(0), STOP, R(0), R(4), {"op": "setttl", "ns": 7 * MIN}, {"op": "setinterval", "ns": 3 * MIN}, R(0)]
    cfgs = list(itertools.product(TTL_B, IV_B, [False, True]))
    jobs = []
    for ttl, iv, ivfirst in cfgs:
        args = []
        if ttl is not None:
            args += ["-ttl", str(ttl)]
        if iv is not None:
            args += ["-interval", str(iv)]
        if ivfirst:
            args += ["-interval-first"]
        jobs.append((next(nid), ttl, iv, ivfirst, args))
    import concurrent.futures

    def work(job):
        i, ttl, iv, ivfirst, args = job
        res, crashed = cl.run_histories(hb, [(i, ops_cfg)], None, procs=1, extra_args=args, timeout=120)
        return job, res.get(i), crashed

    with concurrent.futures.ThreadPoolExecutor(16) as ex:
        for (i, ttl, iv, ivfirst, args), r, crashed in ex.map(work, jobs):
            desc = {"ttl_ns": ttl, "interval_ns": iv, "interval_setter_first": ivfirst, "history_text": cl.hist_text(ops_cfg)}
            ck.count("config:%s:%s:%s" % (ttl, iv, ivfirst), True, tags=["fresh-process-config"])
            if crashed or r is None:
                failing.append((desc, "process crashed or hung with this cache configuration: %s" % (crashed[:1],)))
                continue
            bad = cl.transparency_oracle(ops_cfg, r)
            if bad:
                failing.append((dict(desc, observed=r), "configuration breaks transparency: " + bad[1]))
            # in-history setters take effect only if not set at start
            et = ttl if ttl is not None else 7 * MIN
            ei = iv if iv is not None else (int(abs(ttl) // 2) * (1 if ttl >= 0 else -1) if ttl is not None else (7 * MIN) // 2)
            # the interval setter inside the history comes after setttl: explicit 3m wins only if never set before
            if iv is None:
                ei = 3 * MIN
            if (r["ttl_ns"], r["interval_ns"]) != (et, ei):
                failing.append((dict(desc, observed_config=[r["ttl_ns"], r["interval_ns"]], expected_config=[et, ei]),
                                "once-only setters: configuration is not the one set by the first calls"))
            cfg = []
            if ivfirst:
                cfg = ([("setinterval", iv)] if iv is not None else []) + ([("setttl", ttl)] if ttl is not None else [])
            else:
                cfg = ([("setttl", ttl)] if ttl is not None else []) + ([("setinterval", iv)] if iv is not None else [])
            effective_ttl = ttl if ttl is not None else 5 * MIN
            if effective_ttl <= 0 or effective_ttl >= MIN:
                # cache length is racy with a fast real ticker: not compared here
                r2 = dict(r, steps=[dict(s, len=-1) for s in r["steps"]])
                terms.append(cl.coq_hist(i, ops_cfg, r2, False, cfg))
                info[i] = ("fresh:%s" % desc, ops_cfg)
    ck.sample({"fresh_process_config": {"ttl_ns": 1, "interval_ns": 0}, "history": cl.hist_text(ops_cfg)})

    # 2b. a setter whose FIRST call comes late - after a cached compilation has started the cleaner - with boundary values, and real
    #     time passing afterwards (at least two sweeps): nothing may crash, compilations stay transparent, sweeps keep coming
    late = []
    for v in (0, -10 ** 9, 1, 10 ** 3, 3600 * 10 ** 9):
        # (the first tick waits for two sweeps: the cleaner goroutine reads its interval when it first runs, which may be after the
        #  next operation of this history - only then is "the cleaner is running with the old interval" a fact)
        late.append((["-ttl", str(20 * 10 ** 6)], [R(0), TICK, {"op": "setinterval", "ns": v}, TICK, R(0), R(1), TICK, R(0)], "interval", v))
        late.append((["-interval", str(5 * 10 ** 6)], [R(0), TICK, {"op": "setttl", "ns": v}, TICK, R(0), R(1), TICK, R(0)], "ttl", v))
    ljobs = [(next(nid), a, h, which, v) for a, h, which, v in late]

    def lwork(job):
        i, a, h, which, v = job
        res, crashed = cl.run_histories(hb, [(i, h)], None, procs=1, extra_args=a, timeout=120)
        return job, res.get(i), crashed
    with concurrent.futures.ThreadPoolExecutor(10) as ex:
        for (i, a, h, which, v), r, crashed in ex.map(lwork, ljobs):
            desc = {"process_args": a, "late_setter": which, "value_ns": v, "history_text": cl.hist_text(h)}
            ck.count("late-setter:%s:%s" % (which, v), True, tags=["late-setter"])
            if crashed or r is None:
                failing.append((desc, "process crashed or hung when the %s setter is first called after the cleaner has started: %s" % (which, crashed[:1])))
                continue
            bad = cl.transparency_oracle(h, r)
            if bad:
                failing.append((dict(desc, observed=r), "late setter breaks transparency: " + bad[1]))
            elif r.get("sweep_timeouts"):
                failing.append((dict(desc, observed=r), "no sweep within 2 s although the running cleaner was started with a %s interval" % ("10 ms" if which == "interval" else "5 ms")))

    # 2c. the same boundary durations through the command line (the process the user actually runs): every combination of
    #     --cache-ttl / --cache-cleanup-interval values, with and without --debug, must exit 0 with the library's bytes
    from checks import c20
    cjobs = [{"doc": "valid", "content": c20.DOCS["valid"], "out": "stdout", "debug": dbg, "cache": True, "ttl": t, "interval": iv}
             for t, iv, dbg in itertools.product(c20.TTLS, c20.IVS, [False, True])]
    cjobs, cres, cerr = c20.explore(ck, cjobs)
    if cerr:
        failing.append(({"cli": "build"}, "the command-line binary does not build: " + cerr[-300:]))
    else:
        for j in cjobs:
            r = cres.get(j["id"])
            ck.count("cli:%s:%s:%s" % (j["ttl"], j["interval"], j["debug"]), True, tags=["cli-durations"])
            why = "no result" if r is None or "exit" not in r else c20.direct_oracle(j, r)
            if why:
                failing.append(({"argv": ["compile", "in.mjml", "--cache"] + (["--debug"] if j["debug"] else []) +
                                 (["--cache-ttl=" + j["ttl"]] if j["ttl"] else []) + (["--cache-cleanup-interval=" + j["interval"]] if j["interval"] else []),
                                 "observed": {k: (r or {}).get(k) for k in ("exit", "exits", "stdout", "stderr_nonempty")}},
                                "command line with these cache durations: " + why))

    # 3. random histories weighted towards time (model replay)
    n = 600 if ck.quick else 12000
    rnd = []
    for _ in range(n):
        ops = []
        for _ in range(ck.rng.randint(3, 14)):
            r = ck.rng.random()
            if r < 0.45:
                ops.append(R(ck.rng.choice([0, 1, 2])))
            elif r < 0.85:
                ops.append(A(ck.rng.choice([1, 4, 5, 6, 9, 10, 11, 20]) * MIN))
            elif r < 0.93:
                ops.append(TICK)
            else:
                ops.append(STOP)
        rnd.append(ops)
    for config in ("unswept", "swept"):
        sel = [(next(nid), [o for o in ops if not (config == "unswept" and o["op"] == "tick")])
               for k, ops in enumerate(rnd) if (k % 3 == 0) == (config == "swept")]
        sel = [(i, ops) for i, ops in sel if ops]
        res, crashed = cl.run_histories(hb, sel, config)
        if crashed:
            failing.append(({"config": config}, "process died while running histories: %s" % crashed[0]))
        args, await_, cfg = cl.CONFIGS[config]
        for i, ops in sel:
            r = res.get(i)
            advs = sum(1 for o in ops if o["op"] == "advance")
            ck.count(config + ":" + cl.hist_text(ops), advs >= 1 and any(o["op"] == "render" for o in ops),
                     tags=["config:" + config] + ["op:" + o["op"] for o in ops])
            if r is None:
                continue
            terms.append(cl.coq_hist(i, ops, r, await_, cfg))
            info[i] = (config, ops)
    ck.sample({"config": "unswept", "history": cl.hist_text(rnd[0])})
    ck.cov["rule"] = ("(1) 10 boundary scenarios (before / exactly at / after expiry, repeated hits, re-cache, eviction, stop/restart, "
                      "late setter calls) with model-free expectations; (2) all 7x7x2 = 98 boundary configurations of TTL x interval x "
                      "setter order (unset, 0, -1s, 1ns, 1ms, minutes/hours, MaxInt64), each in a fresh process, exhaustive; (3) %d random "
                      "histories weighted towards time advances. All replayed through the model (Cache.Check). Non-trivial: contains a "
                      "time advance and a cached render (all scenario/config cases count)." % n)
    mism, errs = ([], [])
    if ok:
        mism, errs = cl.model_mismatches("c14", terms)
    ck.cov["traces_validated_against_impl"] = len(terms) - len(mism) if ok and not errs else 0
    ck.cov["model_mismatches"] = len(mism)
    if failing:
        seen = set()
        for desc, why in failing:
            k = why.split(":")[0]
            if k in seen:
                continue
            seen.add(k)
            ck.violation({"kind": "ttl-or-config-violation", "why": why, "input": desc, "documents": cl.DOCS})
            if len(seen) >= 3:
                break
    elif not ok:
        ck.violation({"kind": "proof-broken", "what": "coq/Properties/C14.v (cone) no longer compiles", "log": mlog[-3000:]}, no_input=True)
    elif errs or mism:
        ex = [{"where": info[h][0], "history": cl.hist_text(info[h][1]), "first_differing_step": st} for h, st in mism[:3]]
        ck.violation({"kind": "correspondence-broken", "what": "Cache.Check.mismatches: model and implementation disagree on "
                      "(result kind, parse count, cache size, cleaner state, final configuration) for these histories; no "
                      "model-free expectation failed", "examples": ex, "evaluation_errors": errs[:2]}, no_input=True)


def replay(ck, path):
    rp = json.load(open(path))
    hb, msg = vlib.build_harness()
    inp = rp["input"]
    ck.count(json.dumps(inp, sort_keys=True, default=str))
    ck.cov["distinct_nontrivial"] = 2
    if "history" in inp:
        res, cr = cl.run_histories(hb, [(0, inp["history"])], inp.get("config", "unswept"), procs=1)
        print(json.dumps({"history": cl.hist_text(inp["history"]), "observed": res.get(0)}, indent=1))
        for s in scenarios():
            if s[0] == inp.get("scenario") and 0 in res:
                why = s[3](res[0])
                print("verdict:", why or "holds")
                if why:
                    ck.violation({"kind": "replayed", "why": why, "input": inp})
    else:
        args = []
        if inp.get("ttl_ns") is not None:
            args += ["-ttl", str(inp["ttl_ns"])]
        if inp.get("interval_ns") is not None:
            args += ["-interval", str(inp["interval_ns"])]
        if inp.get("interval_setter_first"):
            args += ["-interval-first"]
        ops = [R(0), R(0), R(3), A(MIN), R(0), STOP, R(0), R(4)]
        res, cr = cl.run_histories(hb, [(0, ops)], None, procs=1, extra_args=args, timeout=120)
        print(json.dumps({"observed": res.get(0), "crashed": cr}, indent=1))
        if cr or 0 not in res:
            ck.violation({"kind": "replayed", "why": "process crashed", "input": inp})
