"""Shared by C13/C14 (and reused by C15): cache histories on the implementation and on the Coq model."""
import concurrent.futures
import json
import re

import vlib

MIN = 60 * 10 ** 9
TTL = 10 * MIN

D0 = '<mjml><mj-body><mj-section><mj-column><mj-text>hello</mj-text></mj-column></mj-section></mj-body></mjml>'
DOCS = [
    D0 + "\n",                      # 0
    D0 + " ",                       # 1: differs from 0 only in the last byte
    '<mjml><mj-head><mj-attributes><mj-text color="#123456"/></mj-attributes></mj-head><mj-body><mj-section>'
    '<mj-column><mj-text>other</mj-text><mj-button>b</mj-button></mj-column></mj-section></mj-body></mjml>',  # 2
    '<mjml><mj-body><mj-section></mj-body></mjml>',   # 3: unparsable
    '<mjml><mj-body><mj-section nope="1"><mj-column><mj-text>v</mj-text></mj-column></mj-section></mj-body></mjml>',  # 4: validation error + HTML
]
DOCS.append("\n\n\n" + DOCS[4] + "\n")   # 5: document 4 behind three blank lines: same HTML, the reported line differs
RAWNL = '<mjml><mj-body><mj-raw><p>a%sb</p></mj-raw><mj-section><mj-column><mj-text>x</mj-text></mj-column></mj-section></mj-body></mjml>'
DOCS.append(RAWNL % "\n")       # 6 / 7: differ only in LF vs CRLF inside raw text: different HTML
DOCS.append(RAWNL % "\r\n")
SOC = ('<mj-social mode="horizontal" align="left" icon-size="24px" font-size="12px" color="#111111" border-radius="4px" inner-padding="5px" '
       'line-height="20px" text-padding="3px 5px" padding="9px 20px" container-background-color="#fafafa">' +
       "".join('<mj-social-element name="%s" href="https://x/%d" alt="a%d" title="t%d" target="_blank" color="#22%04d" font-size="1%dpx" icon-size="2%dpx" '
               'padding="%dpx" text-padding="2px %dpx" border-radius="%dpx" background-color="#33%04d" css-class="se%d">E%d</mj-social-element>'
               % (("facebook", "twitter", "github")[i % 3], i, i, i, i, i % 10, i % 10, 1 + i % 5, i % 7, i % 4, i, i, i) for i in range(12)) +
       '</mj-social>')
DOCS.append(                      # 8: components that resolve inheritance / mixed content at render time; attribute-heavy elements;
                                  #    an mj-class whose name is not its last attribute
    '<mjml><mj-head><mj-attributes><mj-class name="promo" color="#ff0000" font-size="22px" font-weight="bold" /></mj-attributes></mj-head>'
    '<mj-body><mj-section><mj-column><mj-text mj-class="promo">P</mj-text>' + SOC +
    '<mj-accordion padding="7px" container-background-color="#eee"><mj-accordion-element><mj-accordion-title>T</mj-accordion-title>'
    '<mj-accordion-text>X</mj-accordion-text></mj-accordion-element></mj-accordion><mj-button href="https://x">Read <b>more</b>\n<i>now</i></mj-button>'
    '<mj-social><mj-social-element name="facebook">F <b>b</b></mj-social-element></mj-social><mj-table><tr><td class="k" style="padding:1px"> c </td></tr></mj-table>'
    '<mj-navbar><mj-navbar-link href="https://x">N</mj-navbar-link></mj-navbar></mj-column></mj-section></mj-body></mjml>')
BAD = [3]

# In the "swept" configuration the TTL is not a whole number of minutes, so that no sweep ever runs at
# exactly an entry's expiry instant: real time is always a few microseconds past the model's instant, which
# is indistinguishable everywhere except for "expires < now" at equality.
TTL_SWEPT = TTL + MIN // 2
CONFIGS = {
    # name: (args, await, cfg hops for the model)
    "swept": (["-ttl", str(TTL_SWEPT), "-interval", str(10 ** 6), "-await"], True, [("setttl", TTL_SWEPT), ("setinterval", 10 ** 6)]),
    "unswept": (["-ttl", str(TTL), "-interval", str(3600 * 10 ** 9)], False, [("setttl", TTL), ("setinterval", 3600 * 10 ** 9)]),
}


def op_render(d, cached=True):
    return {"op": "render", "d": d, "cached": cached}


def op_adv(ns):
    return {"op": "advance", "ns": ns}


TICK = {"op": "tick"}
STOP = {"op": "stop"}

ALPHA = [op_render(0), op_render(1), op_render(3), op_render(2), op_render(0, False),
         op_adv(9 * MIN), op_adv(10 * MIN), TICK, STOP]


def op_text(o):
    if o["op"] == "render":
        return "R%s(%d)" % ("c" if o["cached"] else "u", o["d"])
    if o["op"] == "advance":
        return "adv(%gm)" % (o["ns"] / MIN)
    if o["op"] in ("setttl", "setinterval"):
        return "%s(%d)" % (o["op"], o["ns"])
    return o["op"]


def hist_text(ops):
    return " ".join(op_text(o) for o in ops)


def random_history(rng, maxlen=40):
    n = rng.randint(3, maxlen)
    ops = []
    for _ in range(n):
        r = rng.random()
        if r < 0.5:
            ops.append(op_render(rng.choice([0, 0, 1, 2, 3, 4, 4, 5, 5, 6, 7, 8, 8]), True))
        elif r < 0.6:
            ops.append(op_render(rng.choice([0, 1, 2, 3, 4, 5, 6, 7, 8]), False))
        elif r < 0.8:
            ops.append(op_adv(rng.choice([1, 4, 5, 9, 10, 11, 30]) * MIN))
        elif r < 0.88:
            ops.append(TICK)
        elif r < 0.95:
            ops.append(STOP)
        elif r < 0.975:
            ops.append({"op": "setttl", "ns": rng.choice([MIN, 0, -MIN])})
        else:
            ops.append({"op": "setinterval", "ns": rng.choice([MIN, 0])})
    return ops


def nontrivial_c13(ops):
    """at least one cached render after an expiry of a stored entry, or cached renders of two documents"""
    cached_docs = set()
    stored_age = {}
    after_expiry = False
    for o in ops:
        if o["op"] == "render" and o["cached"]:
            cached_docs.add(o["d"])
            if stored_age.get(o["d"], -1) >= TTL:
                after_expiry = True
            if o["d"] not in stored_age or stored_age[o["d"]] >= TTL:
                stored_age[o["d"]] = 0
        elif o["op"] == "advance":
            for k in stored_age:
                stored_age[k] += o["ns"]
    return after_expiry or len(cached_docs) >= 2


def run_histories(hb, histories, config, procs=16, fresh=False, extra_args=None, timeout=1200):
    """histories: list of (id, ops). Returns {id: result}, crashed-process list."""
    args = list(CONFIGS[config][0]) if config else []
    if extra_args:
        args = list(extra_args)
    jobs = [{"id": i, "docs": DOCS, "ops": ops} for i, ops in histories]
    if fresh:
        shards = [[j] for j in jobs]
    else:
        shards = [jobs[k::procs] for k in range(procs)]
    out, crashed = {}, []

    def work(sh):
        rc, res, se = vlib.harness(hb, "cache-hist", sh, timeout=timeout, args=args)
        return sh, rc, res, se

    with concurrent.futures.ThreadPoolExecutor(procs) as ex:
        for sh, rc, res, se in ex.map(work, [s for s in shards if s]):
            got = set()
            for r in res:
                if "id" in r:
                    out[r["id"]] = r
                    got.add(r["id"])
            if rc != 0 or len(got) != len(sh):
                crashed.append({"exit": rc, "stderr": se[-800:], "histories": [j["id"] for j in sh if j["id"] not in got][:3]})
    return out, crashed


def coq_hop(o):
    if o["op"] == "render":
        return "HRender %d %s" % (o["d"], vlib.coq_bool(o["cached"]))
    if o["op"] == "advance":
        return "HAdvance %d" % o["ns"]
    if o["op"] == "tick":
        return "HTick"
    if o["op"] == "stop":
        return "HStop"
    if o["op"] == "setttl":
        return "HSetTTL (%d)" % o["ns"]
    if o["op"] == "setinterval":
        return "HSetInterval (%d)" % o["ns"]
    raise ValueError(o)


def coq_hist(hid, ops, res, await_, cfg):
    obs = ["{| h_kind := %d; h_parsed := %d; h_len := %d; h_running := %s |}" % (
        s["kind"], s.get("parsed", 0), s["len"], vlib.coq_bool(s["running"])) for s in res["steps"]]
    cfgops = [coq_hop({"op": k, "ns": v}) for k, v in cfg]
    return ("{| hi_id := %d; hi_bad := [%s]; hi_await := %s; hi_cfg := [%s]; hi_ops := [%s]; hi_obs := [%s]; "
            "hi_ttl := (%d); hi_interval := (%d) |}" % (
                hid, "; ".join(map(str, BAD)), vlib.coq_bool(await_), "; ".join(cfgops),
                "; ".join(coq_hop(o) for o in ops), "; ".join(obs), res["ttl_ns"], res["interval_ns"]))


def model_mismatches(name, hist_terms, shard=1500):
    """Evaluate Cache.Check.mismatches on the observed histories (vm_compute, sharded over coqc processes)."""
    shards = [hist_terms[i:i + shard] for i in range(0, len(hist_terms), shard)]

    def work(arg):
        k, sh = arg
        body = ("From Coq Require Import List ZArith Bool.\nFrom GV Require Import Cache.Model Cache.Check.\n"
                "Import ListNotations.\nOpen Scope Z_scope.\nDefinition cases : list hist := [\n" + ";\n".join(sh) +
                "].\nDefinition M := Eval vm_compute in mismatches cases.\nPrint M.\n")
        ok, so, se, dt = vlib.coq_eval("%s_%d" % (name, k), body, timeout=1400)
        m = re.search(r"M\s*=\s*(\[.*?\])\s*:\s*list", so.replace("\n", " "))
        if not ok or not m:
            return None, (se or so)[-600:]
        pairs = re.findall(r"\(\s*(-?\d+)\s*,\s*(-?\d+)\s*\)", m.group(1))
        return [(int(a), int(b)) for a, b in pairs], ""

    allm, errs = [], []
    with concurrent.futures.ThreadPoolExecutor(8) as ex:
        for r, e in ex.map(work, list(enumerate(shards))):
            if r is None:
                errs.append(e)
            else:
                allm += r
    return allm, errs


def transparency_oracle(ops, res):
    """Direct oracle (no model): every render returned what the uncached compilation returns, a
    failing document is parsed every time."""
    for i, (o, s) in enumerate(zip(ops, res["steps"])):
        if o["op"] == "render":
            if s["kind"] not in (1, 2):
                return i, "render of document %d returned something else than the uncached compilation" % o["d"]
            if o["d"] in BAD and s.get("parsed", 0) != 1:
                return i, "unparsable document not parsed again (cached error?)"
    return None
