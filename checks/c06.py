"""C06 — compilation is total and error-faithful.

(a) writer faults: theorem C06_fault_faithful over the write skeletons re-extracted from /repo (T), validated
    by exhaustive per-document fault enumeration against the real Render methods (H).
(b) panic / hang freedom: partial - hostile attribute values, malformed byte strings and deep nesting under
    recover + wall-clock limit (runtime evidence, not a theorem).
(c) outcome trichotomy: theorem C06_outcome_exclusive on the return-path model, observed on every run.
"""
import concurrent.futures
import glob
import json
import os
import random

import docgen
import vlib


def shards(jobs, n=16):
    return [jobs[k::n] for k in range(n) if jobs[k::n]]


def run_jobs(hb, sub, jobs, timeout=900):
    """parallel shards; a dying process is retried job by job to find the culprit"""
    out, dead = {}, []

    def work(sh):
        rc, res, se = vlib.harness(hb, sub, sh, timeout=timeout)
        return sh, rc, res, se

    with concurrent.futures.ThreadPoolExecutor(16) as ex:
        for sh, rc, res, se in ex.map(work, shards(jobs)):
            got = {r["id"] for r in res if "id" in r}
            for r in res:
                if "id" in r:
                    out[r["id"]] = r
            if len(got) != len(sh):
                for j in sh:
                    if j["id"] in got:
                        continue
                    rc1, res1, se1 = vlib.harness(hb, sub, [j], timeout=60)
                    if res1 and "id" in res1[0]:
                        out[j["id"]] = res1[0]
                    else:
                        dead.append((j, rc1, se1[-1500:]))
    return out, dead


def fixtures():
    return sorted(glob.glob(os.path.join(vlib.REPO, "mjml/testdata/*.mjml")))


def mutate(rng, s):
    b = bytearray(s.encode("utf8", "replace"))
    k = rng.random()
    if k < 0.3 and b:
        return bytes(b[: rng.randrange(len(b))]).decode("utf8", "replace")
    for _ in range(rng.randint(1, 6)):
        if not b:
            break
        i = rng.randrange(len(b))
        op = rng.random()
        if op < 0.3:
            del b[i]
        elif op < 0.6:
            b.insert(i, rng.choice(b"<>&\"'/= \n\x00\xff;#-![]"))
        elif op < 0.8:
            j = rng.randrange(len(b))
            b[i:i] = b[j:j + rng.randint(1, 40)]
        else:
            b[i] = rng.choice(b"<>&\"'/=x")
    return bytes(b).decode("utf8", "replace")


def run(ck):
    ck.cov["trusted_base"] = vlib.TRUSTED_COMMON + [
        "translator gen/writeskel.go: its reading of 'if _, err := w.WriteString(x); err != nil { return err }' and the other checked shapes; validated on every run by fault enumeration against the real code",
        "control flow of a Render method does not depend on what the writer returned except through the checked error (premise of the resolution semantics)",
    ]
    ck.assumptions = ["panic/hang freedom is explored (hostile values, malformed strings, deep nesting), not proved: nil-dereference freedom of the 26 Render methods and wall-clock bounds are runtime behaviour"]
    okf, msgf = vlib.gen_facts()
    ok, mlog = ck.prove("Properties/C06.v")
    facts = vlib.load_facts() if okf else {}
    skels = facts.get("write_skeletons", [])
    nfacts = sum(s["writes"] + s["calls"] + s["bad"] for s in skels)
    badfacts = [(s["name"], s["file"], s["line"]) for s in skels if s["bad"]]
    ck.fact_obligations(nfacts, ok and okf and not badfacts)
    ck.cov["write_sites_extracted"] = {"functions": len(skels), "checked_writes": sum(s["writes"] for s in skels),
                                       "checked_calls": sum(s["calls"] for s in skels), "unchecked": sum(s["bad"] for s in skels)}
    hb, msg = vlib.build_harness()
    if not hb:
        ck.violation({"kind": "build-failed", "log": msg[-3000:]}, no_input=True)
        return
    rng = ck.rng
    failing = []

    # (a) exhaustive fault enumeration per document
    ndocs = 30 if ck.quick else 600
    jobs = []
    fx = fixtures()
    for p in (fx[::12] if ck.quick else fx):
        jobs.append({"id": len(jobs), "src": open(p).read(), "name": os.path.basename(p), "max_k": 0 if not ck.quick else 400})
    g = docgen.Gen(rng)
    for _ in range(ndocs):
        d = g.document()
        jobs.append({"id": len(jobs), "src": docgen.to_mjml(d), "name": "generated", "tags": docgen.tags(d), "max_k": 0 if not ck.quick else 400})
    # each document twice: the root component (head + buffered body) and the body component tree directly
    jobs = [dict(j, id=2 * i, target="root") for i, j in enumerate(jobs)] + [dict(j, id=2 * i + 1, target="body") for i, j in enumerate(jobs)]
    res, dead = run_jobs(hb, "fault", jobs, timeout=1500)
    total_faults = 0
    for j in jobs:
        r = res.get(j["id"])
        if r is None:
            continue
        if r.get("panic"):
            failing.append(({"src": j["src"]}, "panic while rendering into a writer: " + r["panic"]))
        total_faults += r.get("checked", 0)
        ck.count("fault:" + j["target"] + j["src"], r.get("writes", 0) > 20, tags=["fault-enumeration"] + ["tag:" + t for t in j.get("tags", [])])
        for b in r.get("bad") or []:
            failing.append(({"src": j["src"], "fail_write_index": b["k"], "name": j["name"], "target": j["target"]}, "writer fault not faithful: " + b["why"]))
    for j, rc, se in dead:
        failing.append(({"src": j["src"]}, "process died during fault enumeration (exit %s): %s" % (rc, se[-300:])))
    ck.cov["fault_positions_enumerated"] = total_faults
    ck.sample({"fault_enumeration": {"document": jobs[-1]["src"][:300], "writes": (res.get(jobs[-1]["id"]) or {}).get("writes")}})

    # (b) hostile values, malformed strings, deep nesting; (c) trichotomy on every result
    jobs2 = []
    gh = docgen.Gen(rng, hostile=True, attr_prob=0.35)
    for _ in range(1200 if ck.quick else 20000):
        d = gh.document(nblocks=rng.choice([1, 1, 2]))
        jobs2.append({"id": len(jobs2), "src": docgen.to_mjml(d), "kind": "hostile"})
    base = [open(p).read() for p in fx]
    for _ in range(1200 if ck.quick else 30000):
        s = mutate(rng, rng.choice(base))
        jobs2.append({"id": len(jobs2), "src": s[:65536], "kind": "malformed"})
    for depth in ([200, 3000] if ck.quick else [200, 3000, 10000]):
        for tag in ("mj-section", "mj-wrapper", "mj-column", "div"):
            if tag == "div":
                s = "<mjml><mj-body><mj-section><mj-column><mj-text>" + "<div>" * depth + "x" + "</div>" * depth + "</mj-text></mj-column></mj-section></mj-body></mjml>"
            else:
                s = "<mjml><mj-body>" + ("<%s>" % tag) * depth + ("</%s>" % tag) * depth + "</mj-body></mjml>"
            jobs2.append({"id": len(jobs2), "src": s, "kind": "deep:%s:%d" % (tag, depth), "timeout_ms": 20000})
    # misplaced components: every known tag (alone, and with each known tag as its only child) directly inside every container
    tags_all = sorted(set(vlib.load_facts()["factory_tags"]) | {"mj-raw"})
    conts = {"body": "%s", "section": "<mj-section>%s</mj-section>", "column": "<mj-section><mj-column>%s</mj-column></mj-section>",
             "group": "<mj-section><mj-group>%s</mj-group></mj-section>", "group-column": "<mj-section><mj-group><mj-column>%s</mj-column></mj-group></mj-section>",
             "wrapper": "<mj-wrapper>%s</mj-wrapper>", "wrapper-column": "<mj-wrapper><mj-section><mj-column>%s</mj-column></mj-section></mj-wrapper>", "hero": "<mj-hero>%s</mj-hero>"}
    def elem(t, inner=""):
        a = ' src="https://x/a.png"' if t in ("mj-image", "mj-carousel-image") else ""
        return "<%s%s>%s</%s>" % (t, a, inner, t)
    for cn, cf in conts.items():
        for t in tags_all:
            if t in ("mjml", "mj-body", "mj-head"):
                continue
            jobs2.append({"id": len(jobs2), "src": "<mjml><mj-body>%s</mj-body></mjml>" % (cf % elem(t, "x" if t in ("mj-text", "mj-button", "mj-raw") else "")), "kind": "misplaced:%s>%s" % (cn, t)})
            if cn in ("column", "hero", "body"):
                for t2 in tags_all:
                    if t2 in ("mjml", "mj-body", "mj-head") or t in ("mj-text", "mj-raw", "mj-table", "mj-button"):
                        continue
                    jobs2.append({"id": len(jobs2), "src": "<mjml><mj-body>%s</mj-body></mjml>" % (cf % elem(t, elem(t2, "y" if t2 in ("mj-text", "mj-button", "mj-raw", "mj-accordion-title", "mj-accordion-text", "mj-navbar-link", "mj-social-element") else ""))),
                                  "kind": "misplaced:%s>%s>%s" % (cn, t, t2)})
    known6 = {k["id"]: k for k in vlib.known_findings("C06")}
    announced6 = set()
    for s in ["", " ", "<", "<mjml", "<mjml>", "<mjml></mjml>", "\x00", "<mjml><mj-body></mj-body></mjml>", "<mj-body/>", "&", "<!--", "<mjml><mj-head></mjml>",
              "<mj-head />", "<mj-title>t</mj-title>", "<mj-raw></mj-raw>", "<mj-attributes/>"]:
        jobs2.append({"id": len(jobs2), "src": s, "kind": "tiny"})
    res2, dead2 = run_jobs(hb, "render-safe", jobs2, timeout=1500)
    classes = {}
    for j in jobs2:
        r = res2.get(j["id"])
        if r is None:
            continue
        c = r["err"]["class"]
        classes[c] = classes.get(c, 0) + 1
        ck.count(j["kind"] + ":" + j["src"], True, tags=["profile:" + j["kind"].split(":")[0], "result:" + c])
        if c in ("panic", "hang"):
            failing.append(({"src": j["src"], "kind": j["kind"]}, "%s: %s" % (c, r["err"].get("text", "")[:200])))
        elif r.get("trichotomy"):
            kid = "empty-output:non-mjml-root"
            if r["trichotomy"] == "no html and no error" and r.get("root") not in (None, "mjml") and kid in known6:
                if kid not in announced6:
                    announced6.add(kid)
                    ck.known("%s: %s" % (kid, known6[kid]["what"]))
            else:
                failing.append(({"src": j["src"], "kind": j["kind"]}, "outcome trichotomy violated: " + r["trichotomy"]))
    for j, rc, se in dead2:
        failing.append(({"src": j["src"], "kind": j["kind"]}, "process died (exit %s): %s" % (rc, se[-300:])))
    ck.cov["result_classes"] = classes
    ck.sample({"hostile_document": jobs2[0]["src"][:400]})
    ck.sample({"malformed_string": jobs2[1500 if ck.quick else 25000]["src"][:200]})
    ck.cov["rule"] = ("(a) every write position k of every document (fixtures + generated full-grammar documents): Render into a writer "
                      "failing at k must return that very error after exactly k writes - exhaustive per document (quick: at most 400 "
                      "positions per document); (b) documents with hostile values on numeric/unit attributes, byte-level mutations and "
                      "truncations of the 207 fixtures, nesting depth up to 10 000, degenerate tiny inputs, each under recover and a "
                      "wall-clock limit; (c) outcome trichotomy checked on every result. Non-trivial: documents with > 20 writes / any "
                      "hostile or malformed input; distinct by source text.")

    # verdict
    if failing:
        seen = set()
        for inp, why in failing:
            k = why.split(":")[0]
            if k in seen:
                continue
            seen.add(k)
            ck.violation({"kind": "c06-violation", "why": why, "input": inp,
                          "unchecked_writer_uses": badfacts[:5]})
            if len(seen) >= 3:
                break
    elif not ok or not okf or badfacts:
        ck.violation({"kind": "proof-broken", "what": "C06_all_checked / C06_fault_faithful no longer hold over the skeletons "
                      "extracted from the current source", "unchecked_writer_uses": badfacts[:10],
                      "log": (msgf if not okf else mlog)[-2500:]}, no_input=True)


def replay(ck, path):
    rp = json.load(open(path))
    hb, msg = vlib.build_harness()
    inp = rp["input"]
    ck.count(inp["src"])
    ck.cov["distinct_nontrivial"] = 2
    if "fail_write_index" in inp:
        res, dead = run_jobs(hb, "fault", [{"id": 0, "src": inp["src"], "max_k": 0, "target": inp.get("target", "root")}])
    else:
        res, dead = run_jobs(hb, "render-safe", [{"id": 0, "src": inp["src"]}])
    print(json.dumps({"observed": res.get(0), "died": [d[1:] for d in dead]}, indent=1)[:3000])
    r = res.get(0) or {}
    if dead or r.get("bad") or r.get("panic") or (r.get("err") or {}).get("class") in ("panic", "hang") or r.get("trichotomy"):
        ck.violation({"kind": "replayed", "input": inp, "observed": r})
