"""Attribute-store correspondence (C09, C12): generated <mj-attributes> entry lists, the real store's answers
(harness sub-command `store`) against coq/Attr/Store.v evaluated by vm_compute."""
import re

import vlib

TAGS = ["mj-text", "mj-button", "mj-section", "mj-column", "mj-image"]
ATTRS = ["font-size", "padding", "align", "line-height", "css-class", "width"]
CLASSES = ["c1", "c2", "c3"]


def gen_case(rng):
    """-> (entries, blocks) entries: list of (kind, tag|None, [(k, v)]) ; blocks: partition of entries over several mj-attributes"""
    n = rng.randint(1, 9)
    entries, vid = [], [0]

    def val():
        vid[0] += 1
        return "v%d" % vid[0]
    for _ in range(n):
        kind = rng.choice(["tag", "tag", "tag", "class", "class", "all"])
        names = rng.sample(ATTRS, rng.randint(0, 3))
        attrs = [(a, val()) for a in names]
        if kind == "tag":
            entries.append(("tag", rng.choice(TAGS[:3] if rng.random() < 0.7 else TAGS), attrs))
        elif kind == "all":
            entries.append(("all", None, attrs))
        else:
            x = rng.random()
            if x < 0.85:
                attrs.insert(rng.randint(0, len(attrs)), ("name", rng.choice(CLASSES)))     # name= anywhere
            elif x < 0.93:
                attrs.insert(rng.randint(0, len(attrs)), ("name", ""))                      # empty name: ignored
            entries.append(("class", None, attrs))
    cuts = sorted(rng.sample(range(1, len(entries)), min(len(entries) - 1, rng.choice([0, 0, 1, 2])))) if len(entries) > 1 else []
    blocks, last = [], 0
    for c in cuts + [len(entries)]:
        blocks.append(entries[last:c])
        last = c
    return entries, blocks


def to_src(blocks):
    out = ["<mjml><mj-head>"]
    for b in blocks:
        out.append("<mj-attributes>")
        for kind, tag, attrs in b:
            t = {"tag": tag, "all": "mj-all", "class": "mj-class"}[kind]
            out.append("<%s%s />" % (t, "".join(' %s="%s"' % kv for kv in attrs)))
        out.append("</mj-attributes>")
    out.append("</mj-head><mj-body></mj-body></mjml>")
    return "".join(out)


def queries(rng, entries):
    qs = []
    for t in TAGS[:4]:
        for a in ATTRS:
            qs.append({"k": "global", "key": t, "attr": a})
    for c in CLASSES:
        for a in ATTRS:
            qs.append({"k": "class", "key": c, "attr": a})
    for names in (["c1", "c2"], ["c2", "c1"], ["c3", "c1", "c2"], ["c2"], ["c1", "zz", "c3"]):
        for a in ATTRS:
            qs.append({"k": "comp", "names": " ".join(names), "attr": a})
    return qs


def coq_entry(e):
    kind, tag, attrs = e
    al = "[" + "; ".join("(%s, %s)" % (vlib.coq_string(k), vlib.coq_string(v)) for k, v in attrs) + "]"
    if kind == "tag":
        return "ETag %s %s" % (vlib.coq_string(tag), al)
    return ("EAll " if kind == "all" else "EClass ") + al


def coq_query(q):
    if q["k"] == "global":
        return "QGlobal %s %s" % (vlib.coq_string(q["key"]), vlib.coq_string(q["attr"]))
    if q["k"] == "class":
        return "QClass %s %s" % (vlib.coq_string(q["key"]), vlib.coq_string(q["attr"]))
    return "QComp [%s] %s" % ("; ".join(vlib.coq_string(n) for n in q["names"].split()), vlib.coq_string(q["attr"]))


def coq_cases(cases):
    """cases: list of (id, entries, queries, answers[(present, value)]) -> body of a cases.v printing the ids that mismatch"""
    rows = []
    for cid, entries, qs, answers in cases:
        qa = "; ".join("(%s, %s)" % (coq_query(q), vlib.coq_string(a[1]) if a[0] else '""') for q, a in zip(qs, answers))
        rows.append("(%d%%N, [%s], [%s])" % (cid, "; ".join(coq_entry(e) for e in entries), qa))
    return ("From Coq Require Import List String NArith.\nFrom GV Require Import Attr.Store.\nImport ListNotations.\nOpen Scope string_scope.\nOpen Scope list_scope.\n"
            "Definition cases : list (N * list entry * list (query * string)) := [\n" + ";\n".join(rows) + "].\n"
            "Definition M := Eval vm_compute in store_mismatches cases.\nPrint M.\n")


def parse_mismatches(so):
    m = re.search(r"M\s*=\s*(\[.*?\])\s*:\s*list", so.replace("\n", " "))
    if not m:
        return None
    return [int(x) for x in re.findall(r"(\d+)%N", m.group(1))]
