"""C18 — the parser is a faithful, conservative extension of an XML parser.

Theorems: coq/Properties/C18.v (pre-pass models Parser/Pre.v, tree builder Parser/Build.v; source constants re-extracted, T).
Tie (H): (a) the three textual pre-passes, byte for byte, against the extracted model on generated sources;
(b) the tree ParseMJML builds vs the flattening law of the builder model on the raw encoding/xml token stream;
(c) strict documents vs the plain XML decoder; (d) strict / lenient spelling pairs give the same tree.
"""
import json
import random

import docgen
import vlib
from checks import common

ALPHA = ["<mj-text>", "</mj-text>", "<mj-text a=\"b\">", "<MJ-Text>", "</MJ-TEXT>", "<mjml>", "</mjml>", "<!--", "-->", "&", "&amp;", "&lt;", "&gt;",
         "&quot;", "&apos;", "&nbsp;", "&#160;", "&#xA0;", "&copy;", "&reg;", "&trade;", "&ndash;", "&mdash;", "&hellip;", "&x;", "&#12;", "&#x1f;",
         "&#;", "&amp", "&#x0001F600;", "&#0000065;", "&#x000000041;", "&thetasym;", "&CounterClockwiseContourIntegral;", "&#x1F600", "&#x0001F600 ;", "\"", "'", "<", ">", "/", " ", "\n", "\r\n", "\t", "<br/>", "<br />", "<BR/>", "<br\n/>", "<br\t/>", "<hr \n />", "<img src='x'\n/>", "<img src=\"a&b\"/>", "<hr  />", "<input a='b'/>",
         "]]>", "<![CDATA[", "a", "=", "href", "<mj-raw>", "</mj-raw>", "<mj-text/>", "<mj-text />", ";", "#", "x", "<a href='x?a=1&b=2'>", " ",
         "<colgroup/>", "<wbr/>", "-", "--", "<!-- c -->", "<mj-textarea>", "﻿"]


def gen_sources(ck, n):
    rng = ck.rng
    out = []
    for _ in range(n):
        k = rng.random()
        if k < 0.6:
            out.append("".join(rng.choice(ALPHA) for _ in range(rng.randint(1, 40))))
        elif k < 0.8:
            d = docgen.Gen(rng).document()
            s = docgen.to_mjml(d, indent=rng.choice([None, 2]))
            if rng.random() < 0.5:
                s = rng.choice(["<!-- lead -->\n", "\n\n", "<!-- a --><!-- b -->\n  ", " "]) + s
            out.append(s)
        else:
            base = rng.choice(FIX)
            b = bytearray(base.encode())
            for _ in range(rng.randint(1, 4)):
                i = rng.randrange(len(b))
                b[i:i] = rng.choice(ALPHA).encode()
            out.append(b.decode("utf8", "replace"))
    return out


FIX = []


def flatten(node, out):
    out.append(("s", node["n"], tuple(map(tuple, node["a"]))))
    if not node.get("raw"):
        for p in node["p"]:
            if isinstance(p, str):
                out.append(("t", p))
            else:
                flatten(p, out)
    out.append(("e", node["n"]))


def merged_tokens(toks):
    """token stream up to the end of the root element: text/comment runs merged, mj-raw bodies skipped"""
    out, depth, seg, rawdepth = [], 0, "", None
    for t in toks:
        if rawdepth is not None:
            if "s" in t:
                depth += 1
            elif "e" in t:
                depth -= 1
                if depth == rawdepth:
                    out.append(("e", t["e"]))
                    rawdepth = None
                    if depth == 0:
                        return out
            continue
        if "s" in t:
            if seg:
                out.append(("t", seg))
                seg = ""
            out.append(("s", t["s"], tuple(map(tuple, t["a"]))))
            if t["s"] == "mj-raw":
                rawdepth = depth
            depth += 1
        elif "e" in t:
            if seg:
                out.append(("t", seg))
                seg = ""
            out.append(("e", t["e"]))
            depth -= 1
            if depth == 0:
                return out
        elif "t" in t:
            if depth > 0:
                seg += t["t"]
        elif "c" in t:
            if depth > 0:
                seg += "<!--" + t["c"] + "-->"
    return out


def run(ck):
    global FIX
    FIX = [s for n, s in common.fixture_docs()]
    ck.cov["trusted_base"] = vlib.TRUSTED_COMMON + [
        "encoding/xml token stream (standard library): observed by the harness, not modelled",
        "translator gen/tables.go (parserConsts): entity names, void element names, the ReplaceAll table and the needle constants",
        "extraction: ExtrOcamlBasic only (bool, option, unit, list, prod, sumbool, sumor); byte stays the extracted 256-constructor variant (driver conversion self-tested at start-up); OCaml 4.13.1",
        "the regexp of normalizeSelfClosingVoidTags is modelled by an equivalent scanner (void_match); the equivalence is what the byte-for-byte correspondence checks",
    ]
    ok, mlog = common.prove_with_facts(ck, "Properties/C18.v")
    facts = vlib.load_facts()
    ck.fact_obligations(len(facts["named_entities"]) + len(facts["void_names"]) + len(facts["entity_table"]), ok)
    hb, msg = vlib.build_harness()
    mr, msgm = vlib.build_model_runner()
    failing = []
    if not mr:
        ck.violation({"kind": "build-failed", "what": "extraction / OCaml build of the model runner failed", "log": msgm[-2000:]}, no_input=True)
        return
    # (a) pre-passes byte for byte
    srcs = gen_sources(ck, 2000 if ck.quick else 100000) + FIX
    mism = 0
    for fn in ["strip", "escamp", "entities", "wrap", "preprocess"]:
        jobs = [{"id": i, "fn": fn, "hex": s.encode("utf8", "replace").hex()} for i, s in enumerate(srcs)]
        res, dead = common.run_jobs(hb, "pre", jobs)
        mo = vlib.model_run(mr, [(fn, s.encode("utf8", "replace")) for s in srcs])
        for i, s in enumerate(srcs):
            if i not in res:
                continue
            impl = bytes.fromhex(res[i]["hex"])
            if fn == "preprocess":
                ck.count(s, ("&" in s) or ("mj-text" in s.lower()) or not s.lower().startswith("<mjml"), tags=["pre-pass"])
            if mo[i] != impl:
                mism += 1
                if mism <= 3:
                    failing.append(({"function": fn, "input_hex": s.encode("utf8", "replace").hex(), "input": s[:300],
                                     "implementation": impl[:300].decode("utf8", "replace"),
                                     "model": (mo[i] or b"<model gave no answer>")[:300].decode("utf8", "replace")},
                                    "pre-pass %s: implementation and model differ (the model or the code changed)" % fn))
    ck.cov["prepass_evaluations"] = 5 * len(srcs)
    ck.cov["prepass_mismatches"] = mism
    ck.sample({"prepass_input": srcs[0][:200]})

    # (b)+(c) tree vs token stream; strict documents vs the plain decoder
    docs = []
    g = docgen.Gen(ck.rng)
    for _ in range(300 if ck.quick else 8000):
        d = g.document()
        docs.append(docgen.to_mjml(d, indent=ck.rng.choice([None, 2]), quote=ck.rng.choice(['"', "'"])))
    docs += FIX
    # strict documents: arbitrary element / attribute names, no ampersand, no mj-text
    rng = ck.rng
    for _ in range(200 if ck.quick else 5000):
        def el(depth):
            name = rng.choice(["a", "b-c", "mj-x", "Div", "x1", "mj-section", "mj-column"])
            at = "".join(' %s="%s"' % (rng.choice(["k", "data-x", "xml:lang", "v2"]) + str(i), rng.choice(["", "v", "a b", ">", "1<2".replace("<", "")])) for i in range(rng.randint(0, 3)))
            if depth > 3 or rng.random() < 0.3:
                return "<%s%s/>" % (name, at)
            inner = "".join(rng.choice([el(depth + 1), "text ", " ", "<!-- c -->", "\n"]) for _ in range(rng.randint(0, 4)))
            return "<%s%s>%s</%s>" % (name, at, inner, name)
        docs.append("<mjml>%s</mjml>" % "".join(el(0) for _ in range(rng.randint(1, 3))))
    jobs = [{"id": i, "src": s, "plain": True} for i, s in enumerate(docs)]
    res, dead = common.run_jobs(hb, "tree", jobs)
    ntree = 0
    for j in jobs:
        r = res.get(j["id"])
        if r is None or "tree" not in r:
            continue
        ntree += 1
        fl = []
        flatten(r["tree"], fl)
        mt = merged_tokens(r["tokens"])
        ck.count("tree:" + j["src"], len(fl) > 6, tags=["tree-vs-tokens"])
        if fl != mt:
            k = next((x for x in range(min(len(fl), len(mt))) if fl[x] != mt[x]), min(len(fl), len(mt)))
            failing.append(({"src": j["src"], "first_difference": [str(fl[k:k + 2]), str(mt[k:k + 2])]},
                            "the tree ParseMJML builds is not the tree of the decoder's token stream (elements / attributes / order / text interleaving)"))
        s = j["src"]
        if s.lower().startswith("<mjml") and "&" not in s and "<mj-text" not in s.lower():
            if r.get("plain_error") == "" and merged_tokens(r["plain_tokens"]) != mt:
                failing.append(({"src": s}, "a strict document is not parsed like the plain XML decoder parses it"))
    ck.cov["trees_compared"] = ntree
    ck.sample({"tree_document": docs[0][:200]})

    # (d) strict / lenient pairs
    body = lambda x: "<mjml><mj-body><mj-section><mj-column>%s</mj-column></mj-section></mj-body></mjml>" % x
    pairs = [
        ("bare-ampersand-in-attribute", body('<mj-button href="http://x/?a=1&b=2&amp;c=3">go</mj-button>'), body('<mj-button href="http://x/?a=1&amp;b=2&amp;c=3">go</mj-button>')),
        ("bare-ampersand-single-quotes", body("<mj-image src='http://x/a.png?x&y' />"), body("<mj-image src='http://x/a.png?x&amp;y' />")),
        ("nbsp-entity-vs-character", body('<mj-button>a&nbsp;b&#160;c&#xA0;d</mj-button>'), body('<mj-button>a b c d</mj-button>')),
        ("named-entities-vs-characters", body('<mj-button title="&copy;&reg;">&trade;&ndash;&mdash;&hellip;</mj-button>'), body('<mj-button title="©®">™–—…</mj-button>')),
        ("raw-html-vs-cdata", body('<mj-text><b>bold</b> &amp; <i>it</i><br>x</mj-text>'), body('<mj-text><![CDATA[<b>bold</b> &amp; <i>it</i><br>x]]></mj-text>')),
        ("leading-comments-and-blank-lines", "<!-- c1 -->\n\n  <!-- c2\n multi -->\n" + body('<mj-button>b</mj-button>'), body('<mj-button>b</mj-button>')),
        ("leading-blank-lines", "\n\r\n \t" + body('<mj-divider/>'), body('<mj-divider/>')),
    ]
    for _ in range(60 if ck.quick else 1500):
        d = g.document()
        s = docgen.to_mjml(d)
        junk = "".join(rng.choice(["<!-- c -->", "\n", " ", "\t", "<!--x\ny-->"]) for _ in range(rng.randint(1, 5)))
        pairs.append(("generated-leading-junk", junk + s, s))
        if "&amp;" in s and rng.random() < 0.7:
            pairs.append(("generated-bare-ampersand", s.replace("&amp;y=2", "&y=2"), s))
    jobs = []
    for k, (name, a, b) in enumerate(pairs):
        jobs.append({"id": 2 * k, "src": a})
        jobs.append({"id": 2 * k + 1, "src": b})
    res, dead = common.run_jobs(hb, "tree", jobs)
    for k, (name, a, b) in enumerate(pairs):
        ra, rb = res.get(2 * k), res.get(2 * k + 1)
        if not ra or not rb:
            continue
        ck.count("pair:" + a, True, tags=["pair:" + name.split("-")[0]])
        ta, tb = ra.get("tree"), rb.get("tree")
        if ta != tb:
            failing.append(({"pair": name, "lenient": a, "strict": b, "lenient_error": ra.get("parse_error"), "strict_error": rb.get("parse_error")},
                            "lenient spelling (%s) does not parse like its strict spelling" % name))
    ck.sample({"pair": pairs[0][0], "lenient": pairs[0][1][-120:], "strict": pairs[0][2][-120:]})

    # known findings: replay
    for k in vlib.known_findings("C18"):
        rr, _ = common.run_jobs(hb, "tree", [{"id": 0, "src": k["src"], "plain": True}])
        r = rr.get(0, {})
        still = False
        if k["kind"] == "rejected-valid-xml":
            still = "parse_error" in r and r.get("plain_error") == ""
        elif k["kind"] == "tree-differs-from-strict":
            r2 = common.run_jobs(hb, "tree", [{"id": 0, "src": k["strict"]}])[0].get(0, {})
            still = r.get("tree") != r2.get("tree")
        if still:
            ck.known("%s: %s" % (k["id"], k["what"]))
    ck.cov["rule"] = ("(a) 5 pre-pass functions x (markup-alphabet strings incl. entities, quotes, CDATA markers, mj-text/mj-raw needles in any case, BOM; "
                      "printed generated documents with leading junk; fixtures with insertions) compared byte for byte with the extracted model; (b) the tree "
                      "of every generated document / fixture / strict random XML document vs the merged encoding/xml token stream; (c) strict documents vs "
                      "the plain decoder; (d) strict/lenient spelling pairs (bare ampersand, HTML-only entities, raw HTML vs CDATA, leading comments / "
                      "blank lines). Non-trivial: input exercising a lenient feature / tree with > 6 tokens; distinct by source.")
    common.report(ck, failing, ok, mlog, "coq/Properties/C18.v (cone) no longer compiles")


def replay(ck, path):
    rp = json.load(open(path))
    hb, msg = vlib.build_harness()
    inp = rp["input"]
    ck.count(json.dumps(inp)[:500])
    ck.cov["distinct_nontrivial"] = 2
    if "lenient" in inp:
        res, _ = common.run_jobs(hb, "tree", [{"id": 0, "src": inp["lenient"]}, {"id": 1, "src": inp["strict"]}])
        same = res[0].get("tree") == res[1].get("tree")
        print("trees equal" if same else "trees differ: %s / %s" % (res[0].get("parse_error"), res[1].get("parse_error")))
        if not same:
            ck.violation({"kind": "replayed", "input": inp})
    elif "input_hex" in inp:
        mr, _ = vlib.build_model_runner()
        s = bytes.fromhex(inp["input_hex"])
        res, _ = common.run_jobs(hb, "pre", [{"id": 0, "fn": inp["function"], "hex": s.hex()}])
        mo = vlib.model_run(mr, [(inp["function"], s)])
        print("impl :", bytes.fromhex(res[0]["hex"])[:300])
        print("model:", (mo[0] or b"")[:300])
