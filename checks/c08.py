"""C08 — results do not depend on call history; all API paths agree.

Theorems: coq/Properties/C08.v (paths model; facts: every entry installs the per-render store before building components,
the process-wide getters are guarded fallbacks).
Tie (H): call sequences over {Render, RenderWithAST, RenderFromAST, NewFromAST+RenderComponentString} x documents with
different heads; every result is compared with the same call made first in a fresh process; paths are compared after the
implementation's own class-order rewrite.
"""
import itertools
import json

import docgen
import vlib
from checks import common
from checks.c07 import head_doc

PATHS = ["render", "withast", "fromast", "newfromast"]


def run(ck):
    ck.cov["trusted_base"] = vlib.TRUSTED_COMMON + [
        "translator gen/tables.go (pathsFacts): assignment to RenderOpts.GlobalAttributes precedes CreateComponent in every exported entry; legacy getters guarded",
        "test mode (mjml/testmode, test-only one-way switch) is never enabled by the harness",
    ]
    ok, mlog = common.prove_with_facts(ck, "Properties/C08.v")
    facts = vlib.load_facts()
    ck.fact_obligations(len(facts["entry_points"]) + len(facts["legacy_getter_sites"]), ok)
    hb, msg = vlib.build_harness()
    rng = ck.rng
    docs = [head_doc(i, rng) for i in range(4)]
    docs.append('<mjml><mj-body><mj-section><mj-column><mj-text>plain</mj-text><mj-button>b</mj-button></mj-column></mj-section></mj-body></mjml>')
    docs.append('<mjml><mj-head><mj-attributes><mj-all padding="7px"/><mj-class name="k" color="#00ff00"/></mj-attributes></mj-head><mj-body>'
                '<mj-section><mj-group><mj-column><mj-text mj-class="k">g</mj-text></mj-column><mj-column><mj-image src="https://x/a.png"/></mj-column>'
                '</mj-group></mj-section></mj-body></mjml>')
    # components inside mj-hero must see their own document's mj-attributes too
    for col, fs in (("#aa0000", "31px"), ("#00aa00", "17px")):
        docs.append('<mjml><mj-head><mj-attributes><mj-text color="%s" font-size="%s"/><mj-button background-color="%s"/><mj-all font-family="Courier"/></mj-attributes></mj-head><mj-body>'
                    '<mj-hero><mj-text>in hero</mj-text><mj-button href="https://x">hb</mj-button></mj-hero></mj-body></mjml>' % (col, fs, col))
    g = docgen.Gen(rng, attr_prob=0.25)
    for _ in range(2 if ck.quick else 6):
        docs.append(docgen.to_mjml(g.document(with_head=True)))
    docs.append(docgen.to_mjml(docgen.with_inline_classes(g.document(with_head=True), rng)))
    # a compilation that fails half way (mj-image without src), and a component that resolves something at render time (base-url)
    docs.append('<mjml><mj-body><mj-section><mj-column><mj-text>before the failure</mj-text><mj-image/></mj-column></mj-section></mj-body></mjml>')
    docs.append('<mjml><mj-body><mj-section><mj-column><mj-navbar base-url="https://example.com"><mj-navbar-link href="/pricing">P</mj-navbar-link>'
                '<mj-navbar-link href="https://other.example/x">X</mj-navbar-link></mj-navbar><mj-carousel><mj-carousel-image src="https://x/a.png"/></mj-carousel>'
                '<mj-accordion padding="7px"><mj-accordion-element><mj-accordion-title>T</mj-accordion-title></mj-accordion-element></mj-accordion>'
                '<mj-social inner-padding="8px"><mj-social-element name="facebook" href="https://x">F</mj-social-element></mj-social></mj-column></mj-section></mj-body></mjml>')
    docs.append('<mjml><mj-head><mj-style inline="inline">.hl{color:red}</mj-style></mj-head><mj-body><mj-section><mj-column><mj-table><tr><td class="hl" style="padding:4px">c</td></tr></mj-table>'
                '<mj-text><span class="hl">t</span></mj-text></mj-column></mj-section></mj-body></mjml>')
    kinds = [(p, d) for p in PATHS for d in range(len(docs))]
    # baselines: each (path, doc) as the first call of a fresh process
    base_jobs = [{"id": i, "docs": docs, "calls": [{"path": p, "doc": d}]} for i, (p, d) in enumerate(kinds)]
    base = {}
    for j in base_jobs:
        rc, res, se = vlib.harness(hb, "paths", [j])
        if res:
            base[(j["calls"][0]["path"], j["calls"][0]["doc"])] = res[0]["results"][0]
    failing = []
    # paths agree (up to the class-order rewrite)
    for d in range(len(docs)):
        r = base.get(("render", d))
        for p in PATHS[1:]:
            o = base.get((p, d))
            if r and o and (r["norm_sha"] != o["norm_sha"] or r["err"] != o["err"]):
                failing.append(({"doc": docs[d], "path": p}, "path %s differs from the one-shot Render beyond the class-order rewrite" % p))
    # histories
    seqs = []
    if ck.quick:
        for _ in range(500):
            seqs.append([rng.choice(kinds) for _ in range(rng.choice([2, 3, 3, 4]))])
    else:
        small = [(p, d) for p in PATHS for d in range(6)]
        for n in (1, 2, 3):
            seqs += [list(t) for t in itertools.product(small, repeat=n)]
        for _ in range(3000):
            seqs.append([rng.choice(kinds) for _ in range(rng.randint(2, 8))])
    # step-by-step API: NewFromAST now ("new"), RenderComponentString later ("tree", index of the tree), anything in between
    for _ in range(300 if ck.quick else 4000):
        s, built = [], []
        for _ in range(rng.choice([3, 4, 5, 6])):
            x = rng.random()
            if x < 0.35 or not built:
                d = rng.randrange(len(docs))
                s.append(("new", d))
                built.append(d)
            elif x < 0.7:
                s.append(("tree", rng.randrange(len(built))))
            else:
                s.append(rng.choice(kinds))
        if built and not any(p == "tree" for p, _ in s):
            s.append(("tree", rng.randrange(len(built))))
        seqs.append(s)

    def call(p, d):
        return {"path": "tree", "tree": d} if p == "tree" else {"path": p, "doc": d}
    jobs = [{"id": i, "docs": docs, "calls": [call(p, d) for p, d in s]} for i, s in enumerate(seqs)]
    res, dead = common.run_jobs(hb, "paths", jobs)
    for j, s in zip(jobs, seqs):
        r = res.get(j["id"])
        if r is None:
            continue
        ck.count(json.dumps(s), len({d for _, d in s}) >= 2, tags=["len:%d" % len(s)] + ["path:" + p for p, _ in s])
        built = [d for p, d in s if p == "new"]
        for k, ((p, d), got) in enumerate(zip(s, r["results"])):
            if p == "new":
                continue
            if p == "tree":
                built_before = [dd for pp, dd in s[:k] if pp == "new"]
                p, d = "newfromast", built_before[d]
            want = base.get((p, d))
            if want and (got["sha"] != want["sha"] or got["err"] != want["err"]):
                failing.append(({"documents": [docs[x] for x in sorted({dd for pp, dd in s if pp != "tree"})], "calls": [{"path": pp, "doc": (docs[dd][:80] if pp != "tree" else "tree %d" % dd)} for pp, dd in s[:k + 1]],
                                 "sequence": s[:k + 1], "docs": docs},
                                "call %d (%s) returns something else than the same call made first in a fresh process" % (k, p)))
                break
    # the class-order rewrite itself: the implementation's function (hook) vs the extracted byte-level model
    mr, msgm = vlib.build_model_runner()
    texts = []
    rres, _ = common.run_jobs(hb, "render", [{"id": i, "src": d, "path": "withast"} for i, d in enumerate(docs)])
    for i in range(len(docs)):
        h = (rres.get(i) or {}).get("html") or ""
        if h:
            texts.append(h)
    words = ["mj-outlook-group-fix", "mj-column-per-50", "mj-column-px-10", "x", "mj-column-", "zz"]
    for _ in range(300 if ck.quick else 5000):
        parts = []
        for _ in range(rng.randint(1, 5)):
            cls = " ".join(rng.choice(words) for _ in range(rng.randint(1, 4)))
            parts.append(rng.choice(['<div class="%s" style="a">', '<td class="%s">', "<p id='q' class=\"%s\">t</p>", 'class="%s', '%s']) % cls)
        texts.append("".join(parts))
    cres, _ = common.run_jobs(hb, "classorder", [{"id": i, "in": t} for i, t in enumerate(texts)])
    mouts = vlib.model_run(mr, [("classorder", t.encode()) for t in texts]) if mr else []
    nco = 0
    for i, t in enumerate(texts):
        got = (cres.get(i) or {}).get("out")
        if got is None or i >= len(mouts) or mouts[i] is None:
            continue
        nco += 1
        if got.encode("utf-8", "surrogatepass") != mouts[i]:
            failing.append(({"input": t[:3000], "implementation": got[:600], "model": mouts[i].decode("utf-8", "replace")[:600]},
                            "normalizeGroupColumnClassOrder differs from its byte-level model Norm.ClassOrder.normalize"))
    ck.cov["class_order_rewrite_cases"] = nco
    ck.sample({"sequence": [{"path": p, "doc": docs[d][:120] if p != "tree" else "tree %d" % d} for p, d in seqs[-1]]})
    ck.cov["exhaustive"] = not ck.quick
    ck.cov["rule"] = ("call sequences over 4 public paths x %d documents (4 with pairwise different mj-attributes / mj-class / mj-all / inline style / "
                      "mj-font heads, one without head, one with a group, generated ones): quick 500 random sequences of length 2-4, thorough all "
                      "sequences of length <= 3 over 4 paths x 6 documents (13 824 + 576 + 24) + 3000 longer ones; each result vs the same call made "
                      "first in a fresh process. Non-trivial: the sequence touches >= 2 documents." % len(docs))
    common.report(ck, failing, ok, mlog, "coq/Properties/C08.v: %s" % json.dumps({"entry_points": facts["entry_points"], "legacy_getter_sites": facts["legacy_getter_sites"]})[:2000])


def replay(ck, path):
    rp = json.load(open(path))
    hb, msg = vlib.build_harness()
    inp = rp["input"]
    ck.count(json.dumps(inp)[:2000])
    ck.cov["distinct_nontrivial"] = 2
    if "sequence" in inp:
        docs, s = inp["docs"], inp["sequence"]
        rc, res, se = vlib.harness(hb, "paths", [{"id": 0, "docs": docs, "calls": [{"path": p, "doc": d} for p, d in s]}])
        rc, b, se = vlib.harness(hb, "paths", [{"id": 0, "docs": docs, "calls": [{"path": s[-1][0], "doc": s[-1][1]}]}])
        same = res[0]["results"][-1]["sha"] == b[0]["results"][0]["sha"]
        print("last call equals the fresh-process result" if same else "last call differs from the fresh-process result")
        if not same:
            ck.violation({"kind": "replayed", "input": inp})
