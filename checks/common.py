"""Helpers shared by the checks."""
import concurrent.futures
import glob
import os

import docgen
import vlib


def shards(jobs, n=16):
    return [jobs[k::n] for k in range(n) if jobs[k::n]]


def run_jobs(hb, sub, jobs, timeout=900, args=(), procs=16):
    """Run harness jobs in parallel shards; when a process dies, retry its jobs one by one to find the culprit.
    Returns ({id: result}, [(job, exit, stderr)])."""
    out, dead = {}, []

    def work(sh):
        rc, res, se = vlib.harness(hb, sub, sh, timeout=timeout, args=list(args))
        return sh, rc, res, se

    with concurrent.futures.ThreadPoolExecutor(procs) as ex:
        for sh, rc, res, se in ex.map(work, shards(jobs, procs)):
            got = {r["id"] for r in res if "id" in r}
            for r in res:
                if "id" in r:
                    out[r["id"]] = r
            if len(got) != len(sh):
                for j in sh:
                    if j["id"] in got:
                        continue
                    rc1, res1, se1 = vlib.harness(hb, sub, [j], timeout=120, args=list(args))
                    if res1 and "id" in res1[0]:
                        out[j["id"]] = res1[0]
                    else:
                        dead.append((j, rc1, se1[-1500:]))
    return out, dead


def fixtures():
    return sorted(glob.glob(os.path.join(vlib.REPO, "mjml/testdata/*.mjml")))


def fixture_docs(step=1):
    return [(os.path.basename(p)[:-5], open(p).read()) for p in fixtures()[::step]]


def gen_docs(ck, n, **kw):
    g = docgen.Gen(ck.rng, **kw)
    out = []
    for _ in range(n):
        d = g.document()
        out.append(d)
    return out


def prove_with_facts(ck, prop):
    """regenerate the source facts, then rebuild the property's cone. Returns (ok, log)."""
    okf, msgf = vlib.gen_facts()
    if not okf:
        ck.notes.append("fact extraction failed: " + msgf[-400:])
        return False, msgf
    return ck.prove(prop)


def report(ck, failing, ok, mlog, what, limit=3, key=lambda why: why.split(":")[0]):
    """failing: list of (input, why). Concrete failures first; else a broken obligation -> no-failing-input-found."""
    if failing:
        seen = set()
        for inp, why in failing:
            k = key(why)
            if k in seen:
                continue
            seen.add(k)
            ck.violation({"kind": "violation", "why": why, "input": inp})
            if len(seen) >= limit:
                break
        return True
    if not ok:
        ck.violation({"kind": "proof-broken", "what": what, "log": mlog[-3000:]}, no_input=True)
        return True
    return False
